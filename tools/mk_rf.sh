#!/bin/bash
# usage: mk_rf.sh <Rxx>  -- scratch copy of the repo packages with refactoring /tmp/refac/<Rxx>/patch.diff applied (under /tmp/rf/<Rxx>), archived in /verif/refactors
r=$1
rm -rf /tmp/rf/$r; mkdir -p /tmp/rf/$r
git -C /repo archive HEAD moptipyapps examples | tar -x -C /tmp/rf/$r
(cd /tmp/rf/$r && git apply /tmp/refac/$r/patch.diff) || { echo "patch failed"; exit 1; }
mkdir -p /verif/refactors/$r; cp /tmp/refac/$r/patch.diff /verif/refactors/$r/; cp /tmp/refac/$r/notes.md /verif/refactors/$r/ 2>/dev/null
git -C /repo worktree remove --force /tmp/wt_$r 2>/dev/null
echo "$r ready"
