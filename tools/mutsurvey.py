"""Mutation survey: which small edits of a function does no check report?

A development aid for *testing the checkers both ways* (DESIGN section 6): it
generates first-order mutants of the named functions on a scratch copy of the
tree (outside /repo and /verif, removed afterwards), runs the named checks on
each (static analysis only - nothing of the mutant is executed) and lists the
survivors for manual triage (equivalent mutant / breaks the property /
outside the property).  It is not part of any registered check.

usage: python -m tools.mutsurvey --file moptipyapps/x/y.py --funcs f,g \
           --checks C01,C13 [--root /repo] [--out survivors.md]
"""
from __future__ import annotations

import argparse
import ast
import contextlib
import copy
import io
import json
import os
import shutil
import sys
import tempfile
from concurrent.futures import ProcessPoolExecutor
from typing import Any, Iterator

sys.path.insert(0, os.path.dirname(os.path.dirname(os.path.abspath(__file__))))

CMP = {ast.Lt: ast.LtE, ast.LtE: ast.Lt, ast.Gt: ast.GtE, ast.GtE: ast.Gt,
       ast.Eq: ast.NotEq, ast.NotEq: ast.Eq, ast.Is: ast.IsNot,
       ast.IsNot: ast.Is}
CMP2 = {ast.Lt: ast.Gt, ast.Gt: ast.Lt, ast.LtE: ast.GtE, ast.GtE: ast.LtE}
BIN = {ast.Add: ast.Sub, ast.Sub: ast.Add, ast.Mult: ast.FloorDiv,
       ast.FloorDiv: ast.Mult, ast.Mod: ast.FloorDiv}


def _offsets(src: str) -> list[int]:
    out = [0]
    for ln in src.splitlines(keepends=True):
        out.append(out[-1] + len(ln))
    return out


def _span(offs: list[int], src: str, n: ast.AST) -> tuple[int, int]:
    # ast columns are utf-8 byte offsets; the repo is ascii in code
    return (offs[n.lineno - 1] + n.col_offset,
            offs[n.end_lineno - 1] + n.end_col_offset)


def _docstrings(tree: ast.AST) -> set[int]:
    out = set()
    for n in ast.walk(tree):
        if isinstance(n, (ast.FunctionDef, ast.ClassDef, ast.Module)) and \
                n.body and isinstance(n.body[0], ast.Expr) and isinstance(
                n.body[0].value, ast.Constant) and isinstance(
                n.body[0].value.value, str):
            out.add(id(n.body[0]))
            out.add(id(n.body[0].value))
    return out


def _functions(tree: ast.Module, names: set[str]) -> Iterator[
        tuple[str, ast.FunctionDef]]:
    def rec(body: list[ast.stmt], prefix: str) -> Iterator[
            tuple[str, ast.FunctionDef]]:
        for s in body:
            if isinstance(s, ast.FunctionDef):
                q = prefix + s.name
                if not names or q in names or s.name in names:
                    yield q, s
                yield from rec(s.body, q + ".")
            elif isinstance(s, ast.ClassDef):
                yield from rec(s.body, prefix + s.name + ".")
    yield from rec(tree.body, "")


def mutants(src: str, funcs: set[str]) -> Iterator[dict[str, Any]]:
    tree = ast.parse(src)
    offs = _offsets(src)
    docs = _docstrings(tree)
    seen: set[tuple[int, int, str]] = set()

    def emit(node: ast.AST, new: ast.AST | str, kind: str,
             fn: str) -> Iterator[dict[str, Any]]:
        a, b = _span(offs, src, node)
        text = new if isinstance(new, str) else ast.unparse(new)
        if isinstance(node, ast.expr) and not isinstance(new, str):
            text = "(" + text + ")"
        key = (a, b, text)
        if key in seen or src[a:b] == text:
            return
        seen.add(key)
        yield {"func": fn, "line": node.lineno, "kind": kind,
               "old": src[a:b], "new": text,
               "source": src[:a] + text + src[b:]}

    for q, f in _functions(tree, funcs):
        for n in ast.walk(f):
            if id(n) in docs:
                continue
            if isinstance(n, ast.FunctionDef) and n is not f:
                continue
            if isinstance(n, ast.Compare) and len(n.ops) == 1:
                for table, k in ((CMP, "cmp"), (CMP2, "cmp-flip")):
                    t = table.get(type(n.ops[0]))
                    if t is not None:
                        m = copy.deepcopy(n)
                        m.ops = [t()]
                        yield from emit(n, m, k, q)
            if isinstance(n, ast.Compare) and len(n.ops) == 2:
                for i in (0, 1):
                    t = CMP.get(type(n.ops[i]))
                    if t is not None:
                        m = copy.deepcopy(n)
                        m.ops[i] = t()
                        yield from emit(n, m, "cmp", q)
            if isinstance(n, ast.BinOp) and type(n.op) in BIN:
                m = copy.deepcopy(n)
                m.op = BIN[type(n.op)]()
                yield from emit(n, m, "binop", q)
            if isinstance(n, ast.BinOp) and isinstance(
                    n.op, (ast.Sub, ast.FloorDiv, ast.Mod)):
                m = copy.deepcopy(n)
                m.left, m.right = m.right, m.left
                yield from emit(n, m, "operand-swap", q)
            if isinstance(n, ast.BoolOp):
                m = copy.deepcopy(n)
                m.op = ast.Or() if isinstance(n.op, ast.And) else ast.And()
                yield from emit(n, m, "boolop", q)
            if isinstance(n, ast.UnaryOp) and isinstance(n.op, ast.Not):
                yield from emit(n, copy.deepcopy(n.operand), "drop-not", q)
            if isinstance(n, ast.UnaryOp) and isinstance(n.op, ast.USub) \
                    and not isinstance(n.operand, ast.Constant):
                yield from emit(n, copy.deepcopy(n.operand), "drop-neg", q)
            if isinstance(n, ast.Constant) and isinstance(
                    n.value, int) and not isinstance(n.value, bool) and abs(
                    n.value) <= 16:
                for d in (1, -1):
                    yield from emit(n, str(n.value + d), f"const{d:+d}", q)
            if isinstance(n, ast.Constant) and isinstance(n.value, bool):
                yield from emit(n, str(not n.value), "bool-flip", q)
            if isinstance(n, ast.AugAssign) and isinstance(
                    n.op, (ast.Add, ast.Sub)):
                m = copy.deepcopy(n)
                m.op = ast.Sub() if isinstance(n.op, ast.Add) else ast.Add()
                yield from emit(n, ast.unparse(m), "augop", q)
            if isinstance(n, ast.Subscript) and isinstance(
                    n.slice, ast.Tuple) and len(n.slice.elts) == 2:
                m = copy.deepcopy(n)
                m.slice.elts = m.slice.elts[::-1]
                yield from emit(n, m, "index-swap", q)
            if isinstance(n, ast.Call) and len(n.args) >= 2 and \
                    not n.keywords:
                for i in range(len(n.args) - 1):
                    m = copy.deepcopy(n)
                    m.args[i], m.args[i + 1] = m.args[i + 1], m.args[i]
                    yield from emit(n, m, "arg-swap", q)
            if isinstance(n, ast.IfExp):
                m = copy.deepcopy(n)
                m.body, m.orelse = m.orelse, m.body
                yield from emit(n, m, "ifexp-swap", q)
            if isinstance(n, (ast.AugAssign, ast.Break, ast.Continue)) or (
                    isinstance(n, ast.Assign) and isinstance(
                    n.targets[0], (ast.Subscript, ast.Attribute))) or (
                    isinstance(n, ast.Expr) and isinstance(
                    n.value, ast.Call)):
                yield from emit(n, "pass", "delete-stmt", q)
            if isinstance(n, ast.Break):
                yield from emit(n, "continue", "break->continue", q)
            if isinstance(n, ast.Continue):
                yield from emit(n, "break", "continue->break", q)
            if isinstance(n, ast.Return) and n.value is not None and \
                    isinstance(n.value, ast.BinOp):
                yield from emit(n.value, copy.deepcopy(n.value.left),
                                "return-left", q)


def _run(args: tuple[str, str, dict[str, Any], list[str]]) -> dict[str, Any]:
    root, file, mut, checks = args
    tmp = tempfile.mkdtemp(prefix="sa_mutsurvey_")
    try:
        for pkg in ("moptipyapps", "examples"):
            srcd = os.path.join(root, pkg)
            if os.path.isdir(srcd):
                shutil.copytree(srcd, os.path.join(tmp, pkg),
                                ignore=shutil.ignore_patterns(
                                    "__pycache__", "*.pyc", "*.nbi", "*.nbc"))
        path = os.path.join(tmp, file)
        try:
            compile(mut["source"], path, "exec")
        except SyntaxError:
            return {**{k: v for k, v in mut.items() if k != "source"},
                    "status": "syntax"}
        with open(path, "w", encoding="utf-8") as fh:
            fh.write(mut["source"])
        os.environ["VERIF_EVIDENCE_DIR"] = os.path.join(tmp, "evidence")
        import sa.report as rep
        rep.EVIDENCE_DIR = os.path.join(tmp, "evidence")
        from sa.check import run_check
        res = {}
        rules: list[str] = []
        for c in checks:
            buf = io.StringIO()
            with contextlib.redirect_stdout(buf), \
                    contextlib.redirect_stderr(buf):
                try:
                    rc = run_check(c, "quick", tmp)
                except SystemExit as se:       # noqa
                    rc = int(se.code or 0)
                except Exception as ex:        # noqa
                    rc = 2
                    buf.write(f"{type(ex).__name__}: {ex}")
            res[c] = rc
            if rc == 2:
                rules.append(f"{c}:ANALYSIS-ERROR " + buf.getvalue()[-200:])
        rdir = os.path.join(tmp, "evidence", "replay")
        if os.path.isdir(rdir):
            for fn in os.listdir(rdir):
                with open(os.path.join(rdir, fn), encoding="utf-8") as fh:
                    rules.append(json.load(fh)["rule"])
        out = {k: v for k, v in mut.items() if k != "source"}
        out.update({"status": "killed" if any(
            v == 1 for v in res.values()) else (
            "error" if any(v == 2 for v in res.values()) else "survived"),
            "rc": res, "rules": sorted(set(rules))})
        return out
    finally:
        shutil.rmtree(tmp, ignore_errors=True)


def main() -> int:
    ap = argparse.ArgumentParser()
    ap.add_argument("--file", required=True)
    ap.add_argument("--funcs", default="")
    ap.add_argument("--checks", required=True)
    ap.add_argument("--root", default="/repo")
    ap.add_argument("--out", default="")
    ap.add_argument("--jobs", type=int, default=16)
    a = ap.parse_args()
    with open(os.path.join(a.root, a.file), encoding="utf-8") as fh:
        src = fh.read()
    funcs = {x for x in a.funcs.split(",") if x}
    checks = [x for x in a.checks.split(",") if x]
    muts = list(mutants(src, funcs))
    print(f"{len(muts)} mutants of {a.file} [{', '.join(sorted(funcs))}]")
    with ProcessPoolExecutor(max_workers=a.jobs) as ex:
        res = list(ex.map(_run, [(a.root, a.file, m, checks) for m in muts]))
    by: dict[str, list[dict[str, Any]]] = {}
    for r in res:
        by.setdefault(r["status"], []).append(r)
    print({k: len(v) for k, v in by.items()})
    lines = []
    for st in ("survived", "error"):
        for r in by.get(st, []):
            lines.append(f"{st.upper()} {a.file}:{r['line']} {r['func']} "
                         f"[{r['kind']}]  `{r['old'][:90]}`  ->  "
                         f"`{r['new'][:90]}`" + (
                             f"  {r['rules']}" if st == "error" else ""))
    print("\n".join(lines))
    if a.out:
        with open(a.out, "w", encoding="utf-8") as fh:
            json.dump(res, fh, indent=1)
    return 0


if __name__ == "__main__":
    sys.exit(main())
