"""Reorder stress: do the checks depend on the order of independent
statements?

In every block of every function, two consecutive assignments to different
plain names are swapped when neither reads the other's target and both
right-hand sides are free of calls, subscript stores and attribute stores
(so the swap cannot change behaviour).  Pairs do not overlap.  The named
checks must stay silent.  Works on a scratch copy outside /repo and /verif.

usage: python tools/reorder_stress.py --checks C07,C15 [--keep DIR] files...
"""
from __future__ import annotations

import argparse
import ast
import os
import shutil
import subprocess
import sys
import tempfile


def _simple(s: ast.stmt) -> tuple[str, set[str]] | None:
    if isinstance(s, ast.Assign) and len(s.targets) == 1 and isinstance(
            s.targets[0], ast.Name):
        tg, v = s.targets[0].id, s.value
    elif isinstance(s, ast.AnnAssign) and isinstance(
            s.target, ast.Name) and s.value is not None:
        tg, v = s.target.id, s.value
    else:
        return None
    for n in ast.walk(v):
        if isinstance(n, (ast.Call, ast.Yield, ast.YieldFrom, ast.Await,
                          ast.NamedExpr, ast.Lambda)):
            return None
    return tg, {n.id for n in ast.walk(v) if isinstance(n, ast.Name)}


class T(ast.NodeTransformer):
    def __init__(self) -> None:
        self.n = 0
        self.depth = 0

    def _block(self, stmts: list[ast.stmt]) -> list[ast.stmt]:
        out = list(stmts)
        i = 0
        while i + 1 < len(out):
            a, b = _simple(out[i]), _simple(out[i + 1])
            if a and b and a[0] != b[0] and a[0] not in b[1] and \
                    b[0] not in a[1]:
                out[i], out[i + 1] = out[i + 1], out[i]
                self.n += 1
                i += 2
            else:
                i += 1
        return out

    def generic_visit(self, node: ast.AST) -> ast.AST:
        super().generic_visit(node)
        if self.depth:
            for fld in ("body", "orelse", "finalbody"):
                v = getattr(node, fld, None)
                if isinstance(v, list) and v and isinstance(v[0], ast.stmt):
                    setattr(node, fld, self._block(v))
        return node

    def visit_FunctionDef(self, n: ast.FunctionDef) -> ast.AST:
        self.depth += 1
        self.generic_visit(n)
        self.depth -= 1
        return n


def transform(src: str) -> tuple[str, int]:
    t = T()
    new = t.visit(ast.parse(src))
    if not t.n:
        return src, 0
    return ast.unparse(ast.fix_missing_locations(new)) + "\n", t.n


def main() -> int:
    ap = argparse.ArgumentParser()
    ap.add_argument("--checks", required=True)
    ap.add_argument("--root", default="/repo")
    ap.add_argument("--keep", default=None)
    ap.add_argument("files", nargs="+")
    a = ap.parse_args()
    tmp = tempfile.mkdtemp(prefix="sa_reorder_")
    if a.keep:
        shutil.rmtree(a.keep, ignore_errors=True)
        os.makedirs(a.keep)
        tmp = a.keep
    try:
        for pkg in ("moptipyapps", "examples"):
            shutil.copytree(os.path.join(a.root, pkg), os.path.join(tmp, pkg),
                            ignore=shutil.ignore_patterns("__pycache__"))
        total = 0
        for f in a.files:
            # never touch the analysed tree: an absolute path is taken
            # relative to --root, and the target must lie in the scratch copy
            if os.path.isabs(f):
                f = os.path.relpath(f, a.root)
            p = os.path.realpath(os.path.join(tmp, f))
            if not p.startswith(os.path.realpath(tmp) + os.sep):
                raise SystemExit(f"refusing to rewrite {p}: outside the "
                                 "scratch copy")
            with open(p, encoding="utf-8") as fh:
                src = fh.read()
            new, n = transform(src)
            compile(new, p, "exec")
            with open(p, "w", encoding="utf-8") as fh:
                fh.write(new)
            total += n
        print(f"swapped {total} statement pairs in {len(a.files)} file(s)")
        bad = 0
        for c in a.checks.split(","):
            r = subprocess.run(
                [sys.executable, "-m", "sa.check", c, "--root", tmp],
                cwd=os.path.dirname(os.path.dirname(os.path.abspath(
                    __file__))), capture_output=True, text=True,
                env={**os.environ,
                     "VERIF_EVIDENCE_DIR": os.path.join(tmp, "evidence")})
            if r.returncode != 0:
                bad += 1
                print(f"--- {c} rc={r.returncode}")
                print("\n".join(ln[:300] for ln in r.stdout.splitlines()
                                if not ln.startswith("VIOLATION"))[:3000])
            else:
                print(f"{c}: silent")
        return 1 if bad else 0
    finally:
        if not a.keep:
            shutil.rmtree(tmp, ignore_errors=True)


if __name__ == "__main__":
    sys.exit(main())
