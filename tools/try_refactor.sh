#!/bin/bash
# usage: try_refactor.sh <dir with patch.diff>  -- run all checks against a behaviour-preserving refactoring
D=$1
git -C /repo apply $D/patch.diff || { echo "patch does not apply to /repo"; exit 3; }
cd /verif
for c in $(ls sa/checks/c[0-9][0-9].py | sed 's/.*\/c\([0-9]*\).py/C\1/'); do
  out=$(VERIF_EVIDENCE_DIR=/tmp/refac_evidence /venv/bin/python -m sa.check $c 2>&1); rc=$?
  if [ $rc -ne 0 ]; then echo "--- $c rc=$rc (FALSE ALARM candidate)"; echo "$out" | grep -v "^VIOLATION" | head -${2:-14} | cut -c1-400; fi
done
git -C /repo checkout -- .
git -C /repo status --short | head -3
echo "== done $D"
