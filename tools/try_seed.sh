#!/bin/bash
# usage: try_seed.sh <dir with patch.diff>  -- apply the patch to a scratch copy and print the checks that are not silent
d=$1; t=$(mktemp -d /tmp/tryseed_XXXX)
git -C /repo archive HEAD moptipyapps examples | tar -x -C $t
(cd $t && git apply $d/patch.diff) || { echo "patch failed"; rm -rf $t; exit 1; }
LINES_MAX=${LINES_MAX:-6} /verif/tools/run_all.sh $t | grep -v " ok$"
rm -rf $t
