#!/bin/bash
# usage: try_seed.sh <PROP> <seeddir> [worktree]   -- verify a seeded change and run the checks against it
P=$1; S=$2; W=${3:-/tmp/wt_$P}
set -u
echo "== demo WITH change (expect non-zero)"
( cd $W && git checkout -q -- . && git apply $S/patch.diff && PYTHONPATH=$W timeout 1200 /venv/bin/python $S/demo.py >/tmp/demo_with.log 2>&1; echo "rc=$?"; tail -2 /tmp/demo_with.log )
echo "== demo WITHOUT change (expect 0)"
( cd $W && git checkout -q -- . && PYTHONPATH=$W timeout 1200 /venv/bin/python $S/demo.py >/tmp/demo_without.log 2>&1; echo "rc=$?"; tail -2 /tmp/demo_without.log )
echo "== checks on /repo with the change applied"
git -C /repo apply $S/patch.diff || { echo "patch does not apply to /repo"; exit 3; }
cd /verif
for c in $(ls sa/checks/c[0-9][0-9].py | sed 's/.*\/c\([0-9]*\).py/C\1/'); do
  out=$(VERIF_EVIDENCE_DIR=/tmp/seed_evidence /venv/bin/python -m sa.check $c 2>&1); rc=$?
  if [ $rc -ne 0 ]; then echo "--- $c rc=$rc"; echo "$out" | grep -v "^VIOLATION" | head -8; fi
done
git -C /repo checkout -- .
git -C /repo status --short | head -3
