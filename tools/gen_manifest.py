"""Regenerate MANIFEST.json from the table below (keeps it schema-valid)."""
import json
import os
import sys

HERE = os.path.dirname(os.path.dirname(os.path.abspath(__file__)))
sys.path.insert(0, HERE)
from sa.manifest_data import CHECKS, NOT_APPLICABLE, ENGINES  # noqa: E402

PY = "/venv/bin/python"
man = {
    "version": 1,
    "setup_cmd": f"{PY} -m compileall -q sa && {PY} -m sa.check --help "
                 ">/dev/null",
    "hooks": {
        "guard": "MOPTIPYAPPS_VERIF",
        "enable": "none needed: static analysis reads /repo's sources and "
                  "never runs them; no hook commits exist",
        "baseline_off_cmd": "cd /repo && /venv/bin/python -m pytest -ra -q "
                            "-p no:cacheprovider --timeout=900 "
                            "--continue-on-collection-errors",
        "source_commits": [],
        "add_only": True,
    },
    "engines": ENGINES,
    "checks": [],
    "notes": "Technique family: static analysis (ast, statement CFG, "
             "abstract interpretation, symbolic normal forms, exhaustive "
             "order-abstraction). No repository code is imported or run by "
             "any check. exit 0 = all obligations discharged, 1 = VIOLATION, "
             "2 = ANALYSIS-ERROR (machinery broken / anchor vanished). See "
             "DESIGN.md.",
    "not_applicable": NOT_APPLICABLE,
}
for pid, c in sorted(CHECKS.items()):
    man["checks"].append({
        "property_id": pid,
        "quick_cmd": f"{PY} -m sa.check {pid} --tier quick",
        "thorough_cmd": f"{PY} -m sa.check {pid} --tier thorough",
        "evidence_file": f"/verif/evidence/{pid}.json",
        "replay_cmd_template": f"{PY} -m sa.check {pid} --replay {{path}}",
        "engine": "sa",
        "level_claimed": {"category": "other", "text": c["text"],
                          "design_ref": c["design_ref"]},
        "level_note": c["note"],
        "technique": c["technique"],
    })
with open(os.path.join(HERE, "MANIFEST.json"), "w") as fh:
    json.dump(man, fh, indent=1)
ids = {c["property_id"] for c in man["checks"]} | {
    n["property_id"] for n in NOT_APPLICABLE}
want = {f"C{i:02d}" for i in range(1, 21)}
assert ids == want, (want - ids, ids - want)
try:
    import jsonschema
    jsonschema.validate(man, json.load(open("/root/.vp/MANIFEST.schema.json")))
    print("MANIFEST.json valid;", len(man["checks"]), "checks,",
          len(NOT_APPLICABLE), "not applicable")
except ImportError:
    print("MANIFEST.json written (jsonschema not available here)")
