#!/bin/bash
cd /verif
ALL=C01,C02,C03,C04,C05,C06,C07,C08,C09,C10,C11,C12,C13,C14,C15,C16,C17,C18,C19,C20
FILES=$(cd /repo && git ls-files 'moptipyapps/*.py' )
echo "== rename"; /venv/bin/python tools/rename_stress.py --scramble --checks $ALL $FILES 2>&1 | grep -v ": silent"
echo "== hoist"; /venv/bin/python tools/hoist_stress.py --checks $ALL $FILES 2>&1 | grep -v ": silent"
echo "== commute"; /venv/bin/python tools/commute_stress.py --checks $ALL $FILES 2>&1 | grep -v ": silent"
echo "== reorder"; /venv/bin/python tools/reorder_stress.py --checks $ALL $FILES 2>&1 | grep -v ": silent"
