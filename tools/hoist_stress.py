"""Hoist stress: do the checks depend on literals being written in place?

Every numeric literal inside a function body (not in decorators, defaults,
annotations or docstrings) is replaced by a module-level constant
`_HC_<n>` that is defined right after the imports - a behaviour-preserving
clean-up a maintainer might do.  The named checks must stay silent.  Works
on a scratch copy outside /repo and /verif.

usage: python tools/hoist_stress.py --checks C07,C15 [--keep DIR] files...
"""
from __future__ import annotations

import argparse
import ast
import os
import shutil
import subprocess
import sys
import tempfile


ALL = False


def hoist(src: str) -> tuple[str, int]:
    tree = ast.parse(src)
    lines = src.splitlines(keepends=True)
    spots: list[tuple[int, int, int, str]] = []   # line, col, endcol, text

    def visit_body(stmts: list[ast.stmt]) -> None:
        for s in stmts:
            for n in ast.walk(s):
                if isinstance(n, (ast.FunctionDef, ast.AsyncFunctionDef)):
                    continue
                if isinstance(n, ast.Constant) and isinstance(
                        n.value, (int, float)) and not isinstance(
                        n.value, bool) and n.lineno == n.end_lineno and (
                        ALL or isinstance(n.value, float)
                        or abs(n.value) > 2):
                    spots.append((n.lineno, n.col_offset, n.end_col_offset,
                                  lines[n.lineno - 1].encode("utf-8")[
                                      n.col_offset:n.end_col_offset].decode(
                                      "utf-8")))

    def funcs(node: ast.AST) -> None:
        for c in ast.iter_child_nodes(node):
            if isinstance(c, (ast.FunctionDef, ast.AsyncFunctionDef)):
                body = c.body
                if body and isinstance(body[0], ast.Expr) and isinstance(
                        body[0].value, ast.Constant) and isinstance(
                        body[0].value.value, str):
                    body = body[1:]
                # skip annotations: only statement values / tests
                for s in body:
                    if isinstance(s, ast.AnnAssign):
                        if s.value is not None:
                            visit_body([ast.Expr(value=s.value)])
                    elif isinstance(s, (ast.FunctionDef, ast.ClassDef)):
                        pass
                    else:
                        visit_body([s])
                funcs(c)
            elif isinstance(c, ast.ClassDef):
                funcs(c)
    funcs(tree)
    # annotations inside nested statements were walked too: drop spots that
    # lie inside an annotation
    ann: list[tuple[int, int, int, int]] = []
    for n in ast.walk(tree):
        a = getattr(n, "annotation", None)
        if a is not None and hasattr(a, "lineno"):
            ann.append((a.lineno, a.col_offset, a.end_lineno,
                        a.end_col_offset))
        if isinstance(n, (ast.FunctionDef, ast.AsyncFunctionDef)):
            for d in n.decorator_list + [x for x in n.args.defaults] + [
                    x for x in n.args.kw_defaults if x is not None]:
                ann.append((d.lineno, d.col_offset, d.end_lineno,
                            d.end_col_offset))
            if n.returns is not None:
                r = n.returns
                ann.append((r.lineno, r.col_offset, r.end_lineno,
                            r.end_col_offset))

    def inside(ln: int, col: int) -> bool:
        return any((l0, c0) <= (ln, col) < (l1, c1)
                   for l0, c0, l1, c1 in ann)
    spots = sorted({s for s in spots if not inside(s[0], s[1])},
                   reverse=True)
    names: dict[str, str] = {}
    for ln, c0, c1, text in spots:
        nm = names.setdefault(text, f"_HC_{len(names)}")
        line = lines[ln - 1].encode("utf-8")
        lines[ln - 1] = (line[:c0] + nm.encode("utf-8")
                         + line[c1:]).decode("utf-8")
    if not names:
        return src, 0
    # definitions after the last top-level import
    last = 0
    for s in tree.body:
        if isinstance(s, (ast.Import, ast.ImportFrom)):
            last = s.end_lineno
        elif isinstance(s, ast.Expr) and isinstance(
                s.value, ast.Constant) and isinstance(s.value.value, str) \
                and last == 0:
            last = s.end_lineno
    defs = "".join(f"{nm} = {text}\n" for text, nm in names.items())
    lines.insert(last, "\n" + defs + "\n")
    return "".join(lines), len(spots)


def main() -> int:
    ap = argparse.ArgumentParser()
    ap.add_argument("--checks", required=True)
    ap.add_argument("--root", default="/repo")
    ap.add_argument("--keep", default=None)
    ap.add_argument("--all", action="store_true",
                    help="also hoist the small integers -2..2")
    ap.add_argument("files", nargs="+")
    a = ap.parse_args()
    global ALL
    ALL = a.all
    tmp = tempfile.mkdtemp(prefix="sa_hoist_")
    if a.keep:
        shutil.rmtree(a.keep, ignore_errors=True)
        os.makedirs(a.keep)
        tmp = a.keep
    try:
        for pkg in ("moptipyapps", "examples"):
            shutil.copytree(os.path.join(a.root, pkg), os.path.join(tmp, pkg),
                            ignore=shutil.ignore_patterns("__pycache__"))
        total = 0
        for f in a.files:
            # never touch the analysed tree: an absolute path is taken
            # relative to --root, and the target must lie in the scratch copy
            if os.path.isabs(f):
                f = os.path.relpath(f, a.root)
            p = os.path.realpath(os.path.join(tmp, f))
            if not p.startswith(os.path.realpath(tmp) + os.sep):
                raise SystemExit(f"refusing to rewrite {p}: outside the "
                                 "scratch copy")
            with open(p, encoding="utf-8") as fh:
                src = fh.read()
            new, n = hoist(src)
            compile(new, p, "exec")
            with open(p, "w", encoding="utf-8") as fh:
                fh.write(new)
            total += n
        print(f"hoisted {total} literals in {len(a.files)} file(s)")
        bad = 0
        for c in a.checks.split(","):
            r = subprocess.run(
                [sys.executable, "-m", "sa.check", c, "--root", tmp],
                cwd=os.path.dirname(os.path.dirname(os.path.abspath(
                    __file__))), capture_output=True, text=True,
                env={**os.environ,
                     "VERIF_EVIDENCE_DIR": os.path.join(tmp, "evidence")})
            if r.returncode != 0:
                bad += 1
                print(f"--- {c} rc={r.returncode}")
                print("\n".join(ln[:300] for ln in r.stdout.splitlines()
                                if not ln.startswith("VIOLATION"))[:3000])
            else:
                print(f"{c}: silent")
        return 1 if bad else 0
    finally:
        if not a.keep:
            shutil.rmtree(tmp, ignore_errors=True)


if __name__ == "__main__":
    sys.exit(main())
