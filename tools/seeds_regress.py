"""Regression over the kept seeded changes: every one must still be caught.

Each /verif/seeded/<id>/patch.diff is applied to a scratch copy of the
repository's packages (never to /repo), the check that is recorded as the
one catching it is run with --root on that copy and must exit 1.

usage: python tools/seeds_regress.py [seed-id ...]
"""
from __future__ import annotations

import json
import os
import re
import shutil
import subprocess
import sys
import tempfile
from concurrent.futures import ThreadPoolExecutor

VERIF = os.path.dirname(os.path.dirname(os.path.abspath(__file__)))


def one(seed: str) -> tuple[str, str, int, str]:
    d = os.path.join(VERIF, "seeded", seed)
    with open(os.path.join(d, "meta.json"), encoding="utf-8") as fh:
        meta = json.load(fh)
    vb = meta.get("verified_by_me", {})
    m = re.search(r"sa\.check (C\d\d)", vb.get("check_cmd", ""))
    prop = m.group(1) if m else meta["property"]
    tmp = tempfile.mkdtemp(prefix="sa_seed_")
    try:
        for pkg in ("moptipyapps", "examples"):
            shutil.copytree(os.path.join("/repo", pkg),
                            os.path.join(tmp, pkg),
                            ignore=shutil.ignore_patterns("__pycache__"))
        r = subprocess.run(["git", "apply", os.path.join(d, "patch.diff")],
                           cwd=tmp, capture_output=True, text=True)
        if r.returncode != 0:
            return seed, prop, -1, "patch does not apply: " + r.stderr[:200]
        r = subprocess.run(
            [sys.executable, "-m", "sa.check", prop, "--root", tmp],
            cwd=VERIF, capture_output=True, text=True,
            env={**os.environ,
                 "VERIF_EVIDENCE_DIR": os.path.join(tmp, "evidence")})
        first = next((ln.strip() for ln in r.stdout.splitlines()
                      if ln.startswith("  ") and "[D" in ln), "")
        return seed, prop, r.returncode, first[:150]
    finally:
        shutil.rmtree(tmp, ignore_errors=True)


def main() -> int:
    seeds = sys.argv[1:] or sorted(
        s for s in os.listdir(os.path.join(VERIF, "seeded"))
        if os.path.isfile(os.path.join(VERIF, "seeded", s, "patch.diff")))
    bad = 0
    with ThreadPoolExecutor(max_workers=8) as ex:
        for seed, prop, rc, first in ex.map(one, seeds):
            with open(os.path.join(VERIF, "seeded", seed, "meta.json"),
                      encoding="utf-8") as fh:
                out_of_reach = json.load(fh).get(
                    "static_verdict") == "out-of-reach"
            if out_of_reach:
                # documented as not decidable statically: the check must
                # stay silent (no alarm for a wrong reason either)
                print(f"{'out-of-reach (documented)' if rc == 0 else 'UNEXPECTED'}"
                      f" {seed} [{prop}] rc={rc} {first}")
                bad += rc != 0
                continue
            ok = rc == 1
            bad += not ok
            print(f"{'caught' if ok else 'MISSED'} {seed} [{prop}] rc={rc} "
                  f"{first}")
    return 1 if bad else 0


if __name__ == "__main__":
    sys.exit(main())
