#!/bin/bash
cd /verif
echo "== clean"; tools/run_all.sh | grep -v " ok$"
echo "== selftests"; for c in C01 C02 C03 C04 C05 C06 C07 C08 C09 C10 C11 C12 C13 C14 C15 C16 C17 C18 C19 C20; do /venv/bin/python -m sa.selftests $c 2>&1 | tail -1; done
echo "== seeds"; /venv/bin/python tools/seeds_regress.py 2>&1 | grep -v "^caught"
echo "== rf"; for r in /tmp/rf/R[0-9]* /tmp/rf/ROR; do out=$(tools/run_all.sh $r | grep "^---" | tr '\n' ' '); [ -n "$out" ] && echo "$r: $out"; done
echo "== done"
