#!/bin/bash
# usage: confirm_seed.sh <prop> <tag> <sid> <tests...>   (runs relevant tests with the change in the worktree, then keep_seed)
prop=$1; tag=$2; sid=$3; shift 3
wt=/tmp/wt_$tag
cd $wt && git checkout -q -- . && git apply /tmp/seed_$tag/patch.diff || { echo "apply failed"; exit 1; }
PYTHONPATH=$wt /venv/bin/python -m pytest -q -p no:cacheprovider "$@" > /tmp/seed_${tag}_mytests.log 2>&1
echo "tests rc=$? : $(tail -1 /tmp/seed_${tag}_mytests.log)"
cd /verif && SEED_WT=$wt /venv/bin/python tools/keep_seed.py $prop /tmp/seed_$tag $sid "${SEED_NOTE:-sixth round (independent sub-agent)}"
