"""Commute stress: do the checks depend on operand order?

In every function body every single-operator comparison `a < b` is mirrored
(`b > a`; `==` / `!=` swap their sides) and the operands of every product
are swapped (`a * b` -> `b * a`) - behaviour-preserving for the pure operands
found in this code base.  The named checks must stay silent.  Works on a
scratch copy outside /repo and /verif.

usage: python tools/commute_stress.py --checks C07,C15 [--keep DIR]
           [--only cmp|mul] files...
"""
from __future__ import annotations

import argparse
import ast
import os
import shutil
import subprocess
import sys
import tempfile

MIRROR = {ast.Lt: ast.Gt, ast.Gt: ast.Lt, ast.LtE: ast.GtE, ast.GtE: ast.LtE,
          ast.Eq: ast.Eq, ast.NotEq: ast.NotEq}
ONLY = ""


class T(ast.NodeTransformer):
    def __init__(self) -> None:
        self.n = 0
        self.depth = 0

    def visit_FunctionDef(self, n: ast.FunctionDef) -> ast.AST:
        self.depth += 1
        n.body = [self.visit(s) for s in n.body]
        self.depth -= 1
        return n

    def visit_Compare(self, n: ast.Compare) -> ast.AST:
        self.generic_visit(n)
        if self.depth and ONLY in ("", "cmp") and len(n.ops) == 1 and type(
                n.ops[0]) in MIRROR:
            self.n += 1
            return ast.copy_location(ast.Compare(
                left=n.comparators[0], ops=[MIRROR[type(n.ops[0])]()],
                comparators=[n.left]), n)
        return n

    def visit_BinOp(self, n: ast.BinOp) -> ast.AST:
        self.generic_visit(n)
        if self.depth and ONLY in ("", "mul") and isinstance(n.op, ast.Mult):
            self.n += 1
            return ast.copy_location(ast.BinOp(
                left=n.right, op=ast.Mult(), right=n.left), n)
        return n


def transform(src: str) -> tuple[str, int]:
    """Rewrite function by function, keeping everything else (comments
    outside the functions, layout) as it is."""
    tree = ast.parse(src)
    t = T()
    new = t.visit(tree)
    if not t.n:
        return src, 0
    return ast.unparse(ast.fix_missing_locations(new)) + "\n", t.n


def main() -> int:
    ap = argparse.ArgumentParser()
    ap.add_argument("--checks", required=True)
    ap.add_argument("--root", default="/repo")
    ap.add_argument("--keep", default=None)
    ap.add_argument("--only", default="", choices=["", "cmp", "mul"])
    ap.add_argument("files", nargs="+")
    a = ap.parse_args()
    global ONLY
    ONLY = a.only
    tmp = tempfile.mkdtemp(prefix="sa_commute_")
    if a.keep:
        shutil.rmtree(a.keep, ignore_errors=True)
        os.makedirs(a.keep)
        tmp = a.keep
    try:
        for pkg in ("moptipyapps", "examples"):
            shutil.copytree(os.path.join(a.root, pkg), os.path.join(tmp, pkg),
                            ignore=shutil.ignore_patterns("__pycache__"))
        total = 0
        for f in a.files:
            # never touch the analysed tree: an absolute path is taken
            # relative to --root, and the target must lie in the scratch copy
            if os.path.isabs(f):
                f = os.path.relpath(f, a.root)
            p = os.path.realpath(os.path.join(tmp, f))
            if not p.startswith(os.path.realpath(tmp) + os.sep):
                raise SystemExit(f"refusing to rewrite {p}: outside the "
                                 "scratch copy")
            with open(p, encoding="utf-8") as fh:
                src = fh.read()
            new, n = transform(src)
            compile(new, p, "exec")
            with open(p, "w", encoding="utf-8") as fh:
                fh.write(new)
            total += n
        print(f"rewrote {total} expressions in {len(a.files)} file(s)")
        bad = 0
        for c in a.checks.split(","):
            r = subprocess.run(
                [sys.executable, "-m", "sa.check", c, "--root", tmp],
                cwd=os.path.dirname(os.path.dirname(os.path.abspath(
                    __file__))), capture_output=True, text=True,
                env={**os.environ,
                     "VERIF_EVIDENCE_DIR": os.path.join(tmp, "evidence")})
            if r.returncode != 0:
                bad += 1
                print(f"--- {c} rc={r.returncode}")
                print("\n".join(ln[:300] for ln in r.stdout.splitlines()
                                if not ln.startswith("VIOLATION"))[:3000])
            else:
                print(f"{c}: silent")
        return 1 if bad else 0
    finally:
        if not a.keep:
            shutil.rmtree(tmp, ignore_errors=True)


if __name__ == "__main__":
    sys.exit(main())
