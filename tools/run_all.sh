#!/bin/bash
# usage: run_all.sh [root]  -- run all 20 quick checks (in parallel) on /repo or on a scratch copy; print the ones that are not silent
ROOT=${1:-}
cd /verif
export VERIF_EVIDENCE_DIR=${VERIF_EVIDENCE_DIR:-/tmp/run_all_evidence}
run() { c=$1; if [ -n "$ROOT" ]; then out=$(/venv/bin/python -m sa.check $c --root $ROOT 2>&1); else out=$(/venv/bin/python -m sa.check $c 2>&1); fi; rc=$?; if [ $rc -ne 0 ]; then echo "--- $c rc=$rc"; echo "$out" | grep -v "^VIOLATION" | head -${LINES_MAX:-12} | cut -c1-400; else echo "$c ok"; fi; }
export -f run; export ROOT
ls sa/checks/c[0-9][0-9].py | sed 's/.*\/c\([0-9]*\).py/C\1/' | xargs -P 10 -I{} bash -c 'run {}'
