"""Rename stress: do the checks depend on the spelling of local variables?

For every function of the given files all *local* variables (names that are
assigned in the function and are neither parameters nor declared global) are
renamed (`x` -> `x_rn`), which cannot change behaviour; the named checks must
stay silent.  Development aid in the spirit of DESIGN section 6 (silent
twins at scale); works on a scratch copy outside /repo and /verif.

usage: python tools/rename_stress.py --checks C07,C15 file1.py file2.py ...
"""
from __future__ import annotations

import argparse
import ast
import io
import os
import shutil
import subprocess
import sys
import tempfile
import tokenize


def local_names(fn: ast.FunctionDef) -> set[str]:
    params = {a.arg for a in fn.args.args + fn.args.kwonlyargs
              + fn.args.posonlyargs}
    if fn.args.vararg:
        params.add(fn.args.vararg.arg)
    if fn.args.kwarg:
        params.add(fn.args.kwarg.arg)
    out: set[str] = set()
    glob: set[str] = set()

    def walk(n: ast.AST) -> None:
        for c in ast.iter_child_nodes(n):
            if isinstance(c, (ast.FunctionDef, ast.Lambda, ast.ClassDef,
                              ast.ListComp, ast.SetComp, ast.DictComp,
                              ast.GeneratorExp)):
                continue
            if isinstance(c, (ast.Global, ast.Nonlocal)):
                glob.update(c.names)
            if isinstance(c, ast.Name) and isinstance(c.ctx, ast.Store):
                out.add(c.id)
            walk(c)
    walk(fn)
    # names also used inside nested scopes are left alone (closures)
    nested: set[str] = set()
    for c in ast.walk(fn):
        if c is not fn and isinstance(c, (
                ast.FunctionDef, ast.Lambda, ast.ListComp, ast.SetComp,
                ast.DictComp, ast.GeneratorExp)):
            nested |= {x.id for x in ast.walk(c) if isinstance(x, ast.Name)}
    return {n for n in out - params - glob - nested
            if not n.startswith("__") and n != "_"}


SCRAMBLE = False


def _new(s: str) -> str:
    if not SCRAMBLE:
        return s + "_rn"
    import hashlib
    return "v" + hashlib.md5(s.encode()).hexdigest()[:6] + "_rn"


def rename(src: str) -> tuple[str, int]:
    tree = ast.parse(src)
    spans: list[tuple[int, int, set[str]]] = []
    for n in ast.walk(tree):
        if isinstance(n, ast.FunctionDef):
            names = local_names(n)
            if names:
                spans.append((n.lineno, n.end_lineno, names))
    # innermost function wins
    spans.sort(key=lambda s: s[1] - s[0])
    toks = list(tokenize.generate_tokens(io.StringIO(src).readline))
    out = []
    n_ren = 0
    prev = None
    for k, t in enumerate(toks):
        s = t.string
        if t.type == tokenize.NAME:
            nxt = toks[k + 1].string if k + 1 < len(toks) else ""
            is_attr = prev is not None and prev.string == "."
            is_kw = nxt == "=" and prev is not None and prev.string in (
                "(", ",") and _in_call(toks, k)
            if not is_attr and not is_kw:
                for lo, hi, names in spans:
                    if lo <= t.start[0] <= hi and s in names:
                        s = _new(s)
                        n_ren += 1
                        break
        out.append((t.type, s, t.start, t.end, t.line))
        if t.type not in (tokenize.NL, tokenize.COMMENT, tokenize.NEWLINE,
                          tokenize.INDENT, tokenize.DEDENT):
            prev = t
    # rebuild text keeping the layout: replace by position, right to left
    lines = src.splitlines(keepends=True)
    for typ, s, start, end, _ in reversed(out):
        if typ == tokenize.NAME and s.endswith("_rn"):
            ln = lines[start[0] - 1]
            lines[start[0] - 1] = ln[:start[1]] + s + ln[end[1]:]
    return "".join(lines), n_ren


def _in_call(toks: list, k: int) -> bool:
    depth = 0
    for j in range(k - 1, -1, -1):
        s = toks[j].string
        if s in (")", "]", "}"):
            depth += 1
        elif s in ("(", "[", "{"):
            if depth == 0:
                return s == "(" and j > 0 and toks[j - 1].type in (
                    tokenize.NAME, tokenize.OP) and toks[j - 1].string not in (
                    "=", ",", "(", "return", "in", "not", "and", "or", "if")
            depth -= 1
    return False


def main() -> int:
    ap = argparse.ArgumentParser()
    ap.add_argument("--checks", required=True)
    ap.add_argument("--root", default="/repo")
    ap.add_argument("files", nargs="+")
    ap.add_argument("--scramble", action="store_true",
                    help="replace names by meaningless ones")
    ap.add_argument("--keep", default=None,
                    help="keep the renamed copy in this directory")
    a = ap.parse_args()
    global SCRAMBLE
    SCRAMBLE = a.scramble
    tmp = tempfile.mkdtemp(prefix="sa_rename_")
    if a.keep:
        shutil.rmtree(a.keep, ignore_errors=True)
        os.makedirs(a.keep)
        tmp = a.keep
    try:
        for pkg in ("moptipyapps", "examples"):
            shutil.copytree(os.path.join(a.root, pkg), os.path.join(tmp, pkg),
                            ignore=shutil.ignore_patterns("__pycache__"))
        total = 0
        for f in a.files:
            # never touch the analysed tree: an absolute path is taken
            # relative to --root, and the target must lie in the scratch copy
            if os.path.isabs(f):
                f = os.path.relpath(f, a.root)
            p = os.path.realpath(os.path.join(tmp, f))
            if not p.startswith(os.path.realpath(tmp) + os.sep):
                raise SystemExit(f"refusing to rewrite {p}: outside the "
                                 "scratch copy")
            with open(p, encoding="utf-8") as fh:
                src = fh.read()
            new, n = rename(src)
            compile(new, p, "exec")
            with open(p, "w", encoding="utf-8") as fh:
                fh.write(new)
            total += n
        print(f"renamed {total} occurrences in {len(a.files)} file(s)")
        bad = 0
        for c in a.checks.split(","):
            r = subprocess.run(
                [sys.executable, "-m", "sa.check", c, "--root", tmp],
                cwd=os.path.dirname(os.path.dirname(os.path.abspath(
                    __file__))), capture_output=True, text=True,
                env={**os.environ,
                     "VERIF_EVIDENCE_DIR": os.path.join(tmp, "evidence")})
            if r.returncode != 0:
                bad += 1
                print(f"--- {c} rc={r.returncode}")
                print("\n".join(ln[:300] for ln in r.stdout.splitlines()
                                if not ln.startswith("VIOLATION"))[:3000])
            else:
                print(f"{c}: silent")
        return 1 if bad else 0
    finally:
        if not a.keep:
            shutil.rmtree(tmp, ignore_errors=True)


if __name__ == "__main__":
    sys.exit(main())
