"""Store a verified seeded change under /verif/seeded/<id>/."""
import json
import os
import shutil
import subprocess
import sys

prop, src, sid = sys.argv[1], sys.argv[2], sys.argv[3]
caught_by = sys.argv[4] if len(sys.argv) > 4 else ""
dst = f"/verif/seeded/{sid}"
os.makedirs(dst, exist_ok=True)
shutil.copy(os.path.join(src, "patch.diff"), dst)
shutil.copy(os.path.join(src, "demo.py"), dst)
meta = json.load(open(os.path.join(src, "meta.json")))
wt = os.environ.get("SEED_WT", f"/tmp/wt_{prop}")


def demo(with_change: bool) -> int:
    subprocess.run(["git", "checkout", "-q", "--", "."], cwd=wt, check=True)
    if with_change:
        subprocess.run(["git", "apply", os.path.join(dst, "patch.diff")],
                       cwd=wt, check=True)
    r = subprocess.run(["/venv/bin/python", os.path.join(dst, "demo.py")],
                       cwd=wt, env={**os.environ, "PYTHONPATH": wt},
                       capture_output=True, text=True, timeout=1800)
    return r.returncode


rc_with, rc_without = demo(True), demo(False)
subprocess.run(["git", "-C", "/repo", "apply",
                os.path.join(dst, "patch.diff")], check=True)
try:
    r = subprocess.run(["/venv/bin/python", "-m", "sa.check", os.environ.get("SEED_CHECK", prop)],
                       cwd="/verif", capture_output=True, text=True,
                       env={**os.environ,
                            "VERIF_EVIDENCE_DIR": "/tmp/seed_evidence"})
finally:
    subprocess.run(["git", "-C", "/repo", "checkout", "--", "."], check=True)
rules = sorted({ln.split("[")[1].split("]")[0] for ln in r.stdout.splitlines()
                if ln.strip().startswith("moptipyapps/") and "[" in ln})
meta.update({
    "property": prop,
    "verified_by_me": {
        "demo_exit_with_change": rc_with,
        "demo_exit_without_change": rc_without,
        "demo_cmd": f"cd <worktree> && PYTHONPATH=<worktree> "
                    f"/venv/bin/python seeded/{sid}/demo.py",
        "check_cmd": f"git -C /repo apply seeded/{sid}/patch.diff && "
                     f"/venv/bin/python -m sa.check {os.environ.get('SEED_CHECK', prop)}; "
                     "git -C /repo checkout -- .",
        "check_exit_with_change": r.returncode,
        "rules_reporting": rules,
        "note": caught_by,
    }})
json.dump(meta, open(os.path.join(dst, "meta.json"), "w"), indent=1)
print(sid, "demo with/without:", rc_with, rc_without, "check rc:",
      r.returncode, rules)
