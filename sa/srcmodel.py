"""E1 - source model of the repository under analysis.

Parses (never imports) every module of ``moptipyapps`` and ``examples`` below
the repository root and offers name resolution, constant folding, class
tables with an in-package MRO and discovery of numba kernels.
"""
from __future__ import annotations

import ast
import re
import os
from dataclasses import dataclass, field
from fractions import Fraction
from typing import Any, Iterator

SITE_PACKAGES = "/venv/lib/python3.12/site-packages"


class AnalysisError(Exception):
    """The analysis itself cannot proceed (exit code 2, never a verdict)."""


def repo_root() -> str:
    """Return the root of the tree to analyse."""
    return os.environ.get("VERIF_REPO", "/repo")


@dataclass
class FuncInfo:
    module: "Module"
    name: str
    qualname: str
    node: ast.FunctionDef
    cls: "ClassInfo | None" = None
    parent: "FuncInfo | None" = None
    njit: dict[str, Any] | None = None
    decorators: list[str] = field(default_factory=list)

    @property
    def where(self) -> str:
        return f"{self.module.relpath}:{self.node.lineno}"

    @property
    def params(self) -> list[str]:
        a = self.node.args
        return [x.arg for x in a.posonlyargs + a.args]

    def __repr__(self) -> str:
        return f"<func {self.module.name}:{self.qualname}>"

    def __hash__(self) -> int:
        return id(self)

    def __eq__(self, other: object) -> bool:
        return self is other


@dataclass
class ClassInfo:
    module: "Module"
    name: str
    node: ast.ClassDef
    base_exprs: list[ast.expr]
    methods: dict[str, FuncInfo] = field(default_factory=dict)

    def __repr__(self) -> str:
        return f"<class {self.module.name}:{self.name}>"

    def __hash__(self) -> int:
        return id(self)

    def __eq__(self, other: object) -> bool:
        return self is other


class Module:
    """One parsed source file."""

    def __init__(self, name: str, path: str, relpath: str) -> None:
        self.name = name
        self.path = path
        self.relpath = relpath
        with open(path, encoding="utf-8") as fh:
            self.source = fh.read()
        try:
            self.tree = _canon_compares(
                ast.parse(self.source, filename=path))
        except SyntaxError as se:
            raise AnalysisError(f"cannot parse {relpath}: {se}") from se
        #: local name -> (module name, attribute or None)
        self.imports: dict[str, tuple[str, str | None]] = {}
        self.funcs: dict[str, FuncInfo] = {}
        self.classes: dict[str, ClassInfo] = {}
        #: module-level simple assignments name -> value expression
        self.assigns: dict[str, ast.expr] = {}
        self.is_package = os.path.basename(path) == "__init__.py"
        self._index()

    def _abs_import(self, node: ast.ImportFrom) -> str:
        if node.level == 0:
            return node.module or ""
        parts = self.name.split(".")
        if not self.is_package:
            parts = parts[:-1]
        if node.level > 1:
            parts = parts[:-(node.level - 1)]
        if node.module:
            parts.append(node.module)
        return ".".join(parts)

    def _index(self) -> None:
        for node in ast.walk(self.tree):
            if isinstance(node, ast.Import):
                for al in node.names:
                    if al.asname:
                        self.imports[al.asname] = (al.name, None)
                    else:
                        top = al.name.split(".")[0]
                        self.imports[top] = (top, None)
            elif isinstance(node, ast.ImportFrom):
                mod = self._abs_import(node)
                for al in node.names:
                    self.imports[al.asname or al.name] = (mod, al.name)
        for node in self.tree.body:
            self._index_stmt(node)

    def _index_stmt(self, node: ast.stmt) -> None:
        if isinstance(node, (ast.FunctionDef, ast.AsyncFunctionDef)):
            self._add_func(node, None, None, node.name)
        elif isinstance(node, ast.ClassDef):
            ci = ClassInfo(self, node.name, node, list(node.bases))
            self.classes[node.name] = ci
            for sub in node.body:
                if isinstance(sub, ast.FunctionDef):
                    fi = self._add_func(sub, ci, None,
                                        f"{node.name}.{sub.name}")
                    ci.methods[sub.name] = fi
        elif isinstance(node, ast.Assign):
            if len(node.targets) == 1 and isinstance(
                    node.targets[0], ast.Name):
                self.assigns[node.targets[0].id] = node.value
        elif isinstance(node, ast.AnnAssign):
            if isinstance(node.target, ast.Name) and node.value is not None:
                self.assigns[node.target.id] = node.value
        elif isinstance(node, (ast.If, ast.Try)):
            for sub in getattr(node, "body", []):
                self._index_stmt(sub)

    def _add_func(self, node: ast.FunctionDef, cls: ClassInfo | None,
                  parent: FuncInfo | None, qual: str) -> FuncInfo:
        fi = FuncInfo(self, node.name, qual, node, cls, parent)
        for dec in node.decorator_list:
            fi.decorators.append(ast.unparse(dec))
            kw = self._njit_kwargs(dec)
            if kw is not None:
                fi.njit = kw
        self.funcs[qual] = fi
        for sub in ast.walk(node):
            if sub is not node and isinstance(sub, ast.FunctionDef):
                # nested function: register once, under its direct parent
                if _direct_parent_func(node, sub):
                    self._add_func(sub, cls, fi,
                                   f"{qual}.<locals>.{sub.name}")
        return fi

    def _njit_kwargs(self, dec: ast.expr) -> dict[str, Any] | None:
        call = dec if isinstance(dec, ast.Call) else None
        fn = call.func if call else dec
        dotted = dotted_name(fn)
        if dotted is None:
            return None
        head = dotted.split(".")[0]
        imp = self.imports.get(head)
        full = dotted
        if imp is not None:
            base = imp[0] + ("." + imp[1] if imp[1] else "")
            full = base + dotted[len(head):]
        if full not in ("numba.njit", "numba.jit", "numba.core.decorators"
                        ".njit"):
            return None
        kws: dict[str, Any] = {}
        if call:
            for kw in call.keywords:
                try:
                    kws[kw.arg or "**"] = ast.literal_eval(kw.value)
                except (ValueError, SyntaxError):
                    kws[kw.arg or "**"] = ast.unparse(kw.value)
        return kws


def _direct_parent_func(outer: ast.FunctionDef, inner: ast.FunctionDef) \
        -> bool:
    """Is `inner` nested in `outer` with no function in between?"""
    stack: list[ast.AST] = list(ast.iter_child_nodes(outer))
    while stack:
        n = stack.pop()
        if n is inner:
            return True
        if isinstance(n, (ast.FunctionDef, ast.AsyncFunctionDef,
                          ast.Lambda, ast.ClassDef)):
            continue
        stack.extend(ast.iter_child_nodes(n))
    return False


def dotted_name(node: ast.AST) -> str | None:
    """`a.b.c` -> "a.b.c"; None for anything else."""
    parts: list[str] = []
    while isinstance(node, ast.Attribute):
        parts.append(node.attr)
        node = node.value
    if isinstance(node, ast.Name):
        parts.append(node.id)
        return ".".join(reversed(parts))
    return None


def mangle(clsname: str, attr: str) -> str:
    """Apply Python's private name mangling."""
    if attr.startswith("__") and not attr.endswith("__"):
        return "_" + clsname.lstrip("_") + attr
    return attr


class Repo:
    """All modules of the package under analysis."""

    PACKAGES = ("moptipyapps", "examples")

    def __init__(self, root: str | None = None) -> None:
        self.root = root or repo_root()
        self.modules: dict[str, Module] = {}
        self._ext: dict[str, Module | None] = {}
        for pkg in self.PACKAGES:
            base = os.path.join(self.root, pkg)
            if not os.path.isdir(base):
                if pkg == "moptipyapps":
                    raise AnalysisError(f"no package directory {base}")
                continue
            for dirpath, dirnames, filenames in os.walk(base):
                dirnames.sort()
                dirnames[:] = [d for d in dirnames if d != "__pycache__"]
                for fn in sorted(filenames):
                    if not fn.endswith(".py"):
                        continue
                    path = os.path.join(dirpath, fn)
                    rel = os.path.relpath(path, self.root)
                    mod = rel[:-3].replace(os.sep, ".")
                    if mod.endswith(".__init__"):
                        mod = mod[:-9]
                    self.modules[mod] = Module(mod, path, rel)
        if len(self.modules) < 50:
            raise AnalysisError(
                f"only {len(self.modules)} modules found under {self.root}")
        self._positional_calls()

    def _positional_calls(self) -> None:
        """Calls of functions / classes of the analysed packages that pass
        arguments by keyword are rewritten, in the parsed trees, to pass
        them by position when the keywords name exactly the next parameters
        of the callee (`f(a, y=1, x=2)` -> `f(a, 2, 1)` for `def f(p, x,
        y)`): the same call, in the one spelling the rules read.  The
        evaluation order of the arguments may differ; no rule depends on
        argument side effects."""
        for mod in list(self.modules.values()):
            for c in ast.walk(mod.tree):
                if not (isinstance(c, ast.Call) and c.keywords) or any(
                        k.arg is None for k in c.keywords) or any(
                        isinstance(a, ast.Starred) for a in c.args):
                    continue
                if not isinstance(c.func, (ast.Name, ast.Attribute)):
                    continue
                try:
                    tgt = self.resolve_expr(mod, c.func)
                except Exception:  # noqa: BLE001
                    continue
                params: list[str] | None = None
                tm = getattr(tgt, "module", None)
                if tm is None or self.modules.get(
                        getattr(tm, "name", "")) is not tm:
                    continue         # not a function of these packages
                if isinstance(tgt, FuncInfo) and tgt.cls is None:
                    params = list(tgt.params)
                elif isinstance(tgt, ClassInfo):
                    ini = tgt.methods.get("__new__") or tgt.methods.get(
                        "__init__")
                    if ini is not None and tgt.methods.get(
                            "__new__") is None:
                        params = list(ini.params[1:])
                    elif ini is not None:
                        params = list(ini.params[1:])
                if params is None:
                    continue
                rest = params[len(c.args):]
                kw = {k.arg: k.value for k in c.keywords}
                take = rest[:len(kw)]
                if set(take) != set(kw):
                    continue
                c.args = list(c.args) + [kw[p_] for p_ in take]
                c.keywords = []

    # ------------------------------------------------------------ lookup
    def module(self, name: str) -> Module:
        m = self.modules.get(name)
        if m is None:
            raise AnalysisError(f"anchor module {name} not found")
        return m

    def func(self, modname: str, qual: str) -> FuncInfo:
        m = self.module(modname)
        f = m.funcs.get(qual)
        if f is None:
            raise AnalysisError(f"anchor function {modname}:{qual} not found")
        return f

    def cls(self, modname: str, name: str) -> ClassInfo:
        m = self.module(modname)
        c = m.classes.get(name)
        if c is None:
            raise AnalysisError(f"anchor class {modname}:{name} not found")
        return c

    def all_funcs(self, package: str = "moptipyapps") -> Iterator[FuncInfo]:
        for name in sorted(self.modules):
            if name == package or name.startswith(package + "."):
                yield from self.modules[name].funcs.values()

    def kernels(self) -> list[FuncInfo]:
        return [f for f in self.all_funcs() if f.njit is not None]

    # ----------------------------------------------------- name resolving
    def external_module(self, name: str) -> Module | None:
        """Parse (not import) a module of an installed dependency."""
        if name in self._ext:
            return self._ext[name]
        rel = name.replace(".", os.sep)
        res = None
        for cand in (rel + ".py", os.path.join(rel, "__init__.py")):
            path = os.path.join(SITE_PACKAGES, cand)
            if os.path.isfile(path):
                try:
                    res = Module(name, path, "site-packages/" + cand)
                except AnalysisError:
                    res = None
                break
        self._ext[name] = res
        return res

    def resolve(self, module: Module, name: str, _depth: int = 0) -> Any:
        """
        Resolve a global name used in `module`.

        Returns a FuncInfo, a ClassInfo, ("const", value), ("module", name),
        ("expr", module, ast.expr) or ("ext", dotted).
        """
        if _depth > 8:
            return ("ext", name)
        if name in module.funcs:
            return module.funcs[name]
        if name in module.classes:
            return module.classes[name]
        if name in module.assigns:
            return ("expr", module, module.assigns[name])
        if name in module.imports:
            modname, attr = module.imports[name]
            if attr is None:
                return ("module", modname)
            target = self.modules.get(modname)
            if target is None:
                sub = self.modules.get(modname + "." + attr)
                if sub is not None:
                    return ("module", sub.name)
                ext = self.external_module(modname)
                if ext is not None and ext is not module:
                    r = self.resolve(ext, attr, _depth + 1)
                    if not (isinstance(r, tuple) and r[0] == "ext"):
                        return r
                return ("ext", f"{modname}.{attr}")
            if modname + "." + attr in self.modules:
                return ("module", modname + "." + attr)
            return self.resolve(target, attr, _depth + 1)
        return ("ext", name)

    def resolve_expr(self, module: Module, node: ast.expr) -> Any:
        """Resolve `Name` or dotted `mod.attr` expressions."""
        if isinstance(node, ast.Name):
            return self.resolve(module, node.id)
        if isinstance(node, ast.Attribute):
            base = self.resolve_expr(module, node.value)
            if isinstance(base, tuple) and base[0] == "module":
                target = self.modules.get(base[1])
                if target is not None:
                    return self.resolve(target, node.attr)
                ext = self.external_module(base[1])
                if ext is not None:
                    r = self.resolve(ext, node.attr)
                    if not (isinstance(r, tuple) and r[0] == "ext"):
                        return r
                return ("ext", f"{base[1]}.{node.attr}")
            if isinstance(base, tuple) and base[0] == "ext":
                return ("ext", f"{base[1]}.{node.attr}")
            if isinstance(base, ClassInfo):
                m = self.lookup_method(base, node.attr)
                if m is not None:
                    return m
        return ("ext", ast.unparse(node))

    def const(self, module: Module, node: ast.expr, _depth: int = 0) -> Any:
        """
        Fold a constant expression; returns None when it is not constant.

        Numbers are returned as int / Fraction / float / str / tuple.
        """
        if _depth > 12:
            return None
        if isinstance(node, ast.Constant):
            return node.value
        if isinstance(node, (ast.Name, ast.Attribute)):
            r = self.resolve_expr(module, node)
            if isinstance(r, tuple) and r[0] == "expr":
                return self.const(r[1], r[2], _depth + 1)
            if isinstance(r, tuple) and r[0] == "ext":
                return _KNOWN_EXT_CONSTS.get(r[1])
            return None
        if isinstance(node, ast.UnaryOp):
            v = self.const(module, node.operand, _depth + 1)
            if isinstance(v, (int, float, Fraction)):
                if isinstance(node.op, ast.USub):
                    return -v
                if isinstance(node.op, ast.UAdd):
                    return v
            return None
        if isinstance(node, ast.BinOp):
            a = self.const(module, node.left, _depth + 1)
            b = self.const(module, node.right, _depth + 1)
            if isinstance(a, str) and isinstance(b, str) and isinstance(
                    node.op, ast.Add):
                return a + b
            if not (isinstance(a, (int, float, Fraction))
                    and isinstance(b, (int, float, Fraction))):
                return None
            try:
                if isinstance(node.op, ast.Add):
                    return a + b
                if isinstance(node.op, ast.Sub):
                    return a - b
                if isinstance(node.op, ast.Mult):
                    return a * b
                if isinstance(node.op, ast.FloorDiv):
                    return a // b
                if isinstance(node.op, ast.Div):
                    return a / b
                if isinstance(node.op, ast.Pow):
                    return a ** b
                if isinstance(node.op, ast.Mod):
                    return a % b
            except (ZeroDivisionError, OverflowError, TypeError):
                return None
            return None
        if isinstance(node, ast.Compare) and len(node.ops) == 1 and \
                isinstance(node.ops[0], (ast.Eq, ast.NotEq)):
            a = self.const(module, node.left, _depth + 1)
            b = self.const(module, node.comparators[0], _depth + 1)
            if a is None or b is None:
                return None
            return (a == b) if isinstance(node.ops[0], ast.Eq) else (a != b)
        if isinstance(node, ast.IfExp):
            t = self.const(module, node.test, _depth + 1)
            if isinstance(t, bool):
                return self.const(module, node.body if t else node.orelse,
                                  _depth + 1)
            return None
        if isinstance(node, ast.JoinedStr):
            parts = []
            for v in node.values:
                if isinstance(v, ast.Constant):
                    parts.append(str(v.value))
                elif isinstance(v, ast.FormattedValue) and v.conversion == -1 \
                        and v.format_spec is None:
                    c = self.const(module, v.value, _depth + 1)
                    if c is None:
                        return None
                    parts.append(str(c))
                else:
                    return None
            return "".join(parts)
        if isinstance(node, ast.Tuple):
            vals = [self.const(module, e, _depth + 1) for e in node.elts]
            if any(v is None for v in vals):
                return None
            return tuple(vals)
        if isinstance(node, ast.Call):
            fn = dotted_name(node.func)
            if fn in ("int", "float", "str") and len(node.args) == 1:
                v = self.const(module, node.args[0], _depth + 1)
                if v is None:
                    return None
                try:
                    return {"int": int, "float": float, "str": str}[fn](v)
                except (ValueError, TypeError):
                    return None
            if fn == "csv_scope" and len(node.args) == 2 and \
                    not node.keywords:
                # pycommons.io.csv.csv_scope: scope + "." + key
                r = self.resolve_expr(module, node.func)
                if (isinstance(r, tuple) and r[0] == "ext") or (
                        isinstance(r, FuncInfo)
                        and r.module.name == "pycommons.io.csv"):
                    a = self.const(module, node.args[0], _depth + 1)
                    b = self.const(module, node.args[1], _depth + 1)
                    if isinstance(a, str) and isinstance(b, str) and a \
                            and b:
                        return f"{a}.{b}"
        return None

    def const_in(self, fi: FuncInfo, node: ast.expr, _d: int = 0) -> Any:
        """Fold `node` inside function `fi`: local names that are assigned
        exactly once (and are not parameters) are looked through."""
        if isinstance(node, ast.Name) and _d < 6 and \
                node.id not in fi.params:
            defs = [n for n in ast.walk(fi.node)
                    if (isinstance(n, ast.Assign) and any(
                        isinstance(t, ast.Name) and t.id == node.id
                        for t in n.targets))
                    or (isinstance(n, (ast.AnnAssign, ast.AugAssign))
                        and isinstance(n.target, ast.Name)
                        and n.target.id == node.id)
                    or (isinstance(n, (ast.For, ast.comprehension))
                        and any(isinstance(t, ast.Name) and t.id == node.id
                                for t in ast.walk(n.target)))]
            if len(defs) == 1 and isinstance(
                    defs[0], (ast.Assign, ast.AnnAssign)) and \
                    defs[0].value is not None:
                return self.const_in(fi, defs[0].value, _d + 1)
            if defs:
                return None
        return self.const(fi.module, node)

    # ------------------------------------------------------------ classes
    def bases(self, cls: ClassInfo) -> list[ClassInfo | str]:
        out: list[ClassInfo | str] = []
        for b in cls.base_exprs:
            if isinstance(b, ast.Subscript):
                b = b.value
            r = self.resolve_expr(cls.module, b)
            if isinstance(r, ClassInfo):
                out.append(r)
            elif isinstance(r, tuple) and r[0] == "ext":
                out.append(r[1])
            else:
                out.append(ast.unparse(b))
        return out

    def mro(self, cls: ClassInfo) -> list[ClassInfo | str]:
        """A linearisation good enough for single inheritance chains."""
        seen: list[ClassInfo | str] = []

        def visit(c: ClassInfo | str) -> None:
            if c in seen:
                return
            seen.append(c)
            if isinstance(c, ClassInfo):
                for b in self.bases(c):
                    visit(b)
        visit(cls)
        return seen

    def lookup_method(self, cls: ClassInfo, name: str) -> FuncInfo | None:
        for c in self.mro(cls):
            if isinstance(c, ClassInfo) and name in c.methods:
                return c.methods[name]
        return None

    def subclasses_of(self, base_suffix: str) -> list[ClassInfo]:
        """All in-package classes with an (external or internal) base whose
        dotted name ends in `base_suffix`."""
        out = []
        for mname in sorted(self.modules):
            for c in self.modules[mname].classes.values():
                for b in self.mro(c)[1:]:
                    nm = b if isinstance(b, str) else \
                        f"{b.module.name}.{b.name}"
                    if nm == base_suffix or nm.endswith("." + base_suffix):
                        out.append(c)
                        break
        return out


#: constants of external libraries that cannot be folded from source
_KNOWN_EXT_CONSTS: dict[str, Any] = {}


def func_body(fi: FuncInfo) -> list[ast.stmt]:
    """The body of a function without its docstring."""
    body = fi.node.body
    if body and isinstance(body[0], ast.Expr) and isinstance(
            body[0].value, ast.Constant) and isinstance(
            body[0].value.value, str):
        return body[1:]
    return body


def loc(module: Module, node: ast.AST) -> str:
    """file:line:col of a node."""
    return (f"{module.relpath}:{getattr(node, 'lineno', 0)}:"
            f"{getattr(node, 'col_offset', 0)}")


def single_assignments(fn: ast.AST) -> dict[str, ast.expr]:
    """Local names of a function that are bound exactly once, by a plain
    `name = expr` / `name: T = expr` statement (not in a loop or branch
    that could leave them unbound - the caller decides whether that
    matters), mapped to the bound expression."""
    count: dict[str, int] = {}
    val: dict[str, ast.expr] = {}
    params = set()
    if isinstance(fn, (ast.FunctionDef, ast.AsyncFunctionDef)):
        a = fn.args
        params = {x.arg for x in a.args + a.kwonlyargs + a.posonlyargs}
        if a.vararg:
            params.add(a.vararg.arg)
        if a.kwarg:
            params.add(a.kwarg.arg)
    last_bind: dict[str, tuple[int, int]] = {}
    defpos: dict[str, tuple[int, int]] = {}
    for n in ast.walk(fn):
        if isinstance(n, ast.Name) and isinstance(n.ctx, ast.Store):
            count[n.id] = count.get(n.id, 0) + 1
            pos = (getattr(n, "lineno", 0), getattr(n, "col_offset", 0))
            if pos > last_bind.get(n.id, (-1, -1)):
                last_bind[n.id] = pos
        if isinstance(n, ast.Assign) and len(n.targets) == 1 and isinstance(
                n.targets[0], ast.Name):
            val[n.targets[0].id] = n.value
            defpos[n.targets[0].id] = (getattr(n, "lineno", 0),
                                       getattr(n, "col_offset", 0))
        elif isinstance(n, ast.AnnAssign) and n.value is not None and \
                isinstance(n.target, ast.Name):
            val[n.target.id] = n.value
            defpos[n.target.id] = (getattr(n, "lineno", 0),
                                   getattr(n, "col_offset", 0))
    mut = mutated_names(fn)

    def stable(k: str, v: ast.expr) -> bool:
        """No name the value reads is bound again AFTER the binding of `k`
        (a parameter that is re-assigned later, a local with a later second
        binding): otherwise the expression could mean something else where
        `k` is used."""
        at = defpos.get(k, (0, 0))
        for n in ast.walk(v):
            if isinstance(n, ast.Name) and isinstance(n.ctx, ast.Load):
                if n.id in last_bind and last_bind[n.id] > at and (
                        count.get(n.id, 0) > 1 or n.id in params):
                    return False
        return True
    return {k: v for k, v in val.items() if count.get(k) == 1
            and k not in params and not creates_object(v) and (
                k not in mut or isinstance(v, (ast.Subscript, ast.Attribute,
                                               ast.Name))) and stable(k, v)}


#: method names that change the object they are called on
MUTATORS = frozenset((
    "append", "extend", "insert", "remove", "pop", "clear", "sort",
    "reverse", "add", "discard", "update", "setdefault", "popitem", "fill",
    "write", "writelines", "resize", "put", "itemset", "shuffle"))


def mutated_names(node: ast.AST | list) -> set[str]:
    """Names whose object is changed in place inside `node`: through a
    mutating method, a subscript / attribute store, `del x[..]`, `x += ..`."""
    out: set[str] = set()
    roots = node if isinstance(node, list) else [node]
    for root in roots:
        for n in ast.walk(root):
            if isinstance(n, ast.Call) and isinstance(
                    n.func, ast.Attribute) and n.func.attr in MUTATORS \
                    and isinstance(n.func.value, ast.Name):
                out.add(n.func.value.id)
            elif isinstance(n, (ast.Subscript, ast.Attribute)) and \
                    isinstance(n.ctx, (ast.Store, ast.Del)):
                b = n.value
                while isinstance(b, (ast.Subscript, ast.Attribute)):
                    b = b.value
                if isinstance(b, ast.Name):
                    out.add(b.id)
    return out


def creates_object(v: ast.expr) -> bool:
    """Does `v` create a mutable object whose identity matters (a list /
    dict / set display or comprehension, an array constructor)?  Such a
    local is mutated through its name and must never be inlined."""
    if isinstance(v, (ast.List, ast.Dict, ast.Set, ast.ListComp,
                      ast.DictComp, ast.SetComp)):
        return True
    if isinstance(v, ast.Call):
        f = v.func
        nm = f.attr if isinstance(f, ast.Attribute) else (
            f.id if isinstance(f, ast.Name) else "")
        return nm in ("zeros", "empty", "ones", "full", "array", "copy",
                      "list", "dict", "set", "zeros_like", "empty_like",
                      "Counter", "defaultdict", "StringIO", "deque")
    return False


def inline_locals(fn: ast.AST, e: ast.expr, depth: int = 6,
                  keep: set[str] | None = None) -> ast.expr:
    """`e` with every single-assignment local of `fn` replaced by the
    expression it is bound to (aliases and hoisted temporaries); names in
    `keep` are left alone."""
    import copy
    sa_ = {k: v for k, v in single_assignments(fn).items()
           if not keep or k not in keep}

    class T(ast.NodeTransformer):
        def __init__(self, d: int) -> None:
            self.d = d

        def visit_Name(self, n: ast.Name) -> ast.AST:
            if isinstance(n.ctx, ast.Load) and n.id in sa_ and self.d > 0:
                return T(self.d - 1).visit(copy.deepcopy(sa_[n.id]))
            return n
    return ast.fix_missing_locations(T(depth).visit(copy.deepcopy(e)))


_CONSTNAME = re.compile(r"^_*[A-Z][A-Z0-9_]*$")


def _constlike(e: ast.AST) -> bool:
    if isinstance(e, ast.Constant):
        return True
    if isinstance(e, ast.UnaryOp) and isinstance(
            e.op, (ast.USub, ast.UAdd)) and isinstance(
            e.operand, ast.Constant):
        return True
    if isinstance(e, ast.Name):
        return bool(_CONSTNAME.match(e.id))
    if isinstance(e, ast.Attribute):
        return bool(_CONSTNAME.match(e.attr))
    return False


class _CanonCmp(ast.NodeTransformer):
    """`CONST op x` -> `x op' CONST` for single comparisons ("Yoda"
    conditions are read like the usual spelling); positions are kept."""
    _M = {ast.Lt: ast.Gt, ast.Gt: ast.Lt, ast.LtE: ast.GtE,
          ast.GtE: ast.LtE, ast.Eq: ast.Eq, ast.NotEq: ast.NotEq}

    def visit_Compare(self, n: ast.Compare) -> ast.AST:
        self.generic_visit(n)
        if len(n.ops) == 1 and type(n.ops[0]) in self._M and _constlike(
                n.left) and not _constlike(n.comparators[0]):
            return ast.copy_location(ast.Compare(
                left=n.comparators[0], ops=[self._M[type(n.ops[0])]()],
                comparators=[n.left]), n)
        return n


def _canon_compares(tree: ast.Module) -> ast.Module:
    return ast.fix_missing_locations(_CanonCmp().visit(tree))


class _Enum2Range(ast.NodeTransformer):
    """`for i, x in enumerate(seq): B`  ->  `for i in range(len(seq)):
    x = seq[i]; B`  (seq a name that the body neither re-binds nor resizes,
    i not re-bound in the body)."""

    def visit_For(self, n: ast.For) -> ast.AST:
        self.generic_visit(n)
        it = n.iter
        if not (isinstance(it, ast.Call) and isinstance(
                it.func, ast.Name) and it.func.id == "enumerate" and len(
                it.args) == 1 and not it.keywords and isinstance(
                it.args[0], ast.Name) and isinstance(
                n.target, ast.Tuple) and len(n.target.elts) == 2 and
                isinstance(n.target.elts[0], ast.Name)):
            return n
        seq, iv = it.args[0].id, n.target.elts[0].id
        for x in ast.walk(ast.Module(body=n.body, type_ignores=[])):
            if isinstance(x, ast.Name) and isinstance(
                    x.ctx, (ast.Store, ast.Del)) and x.id in (seq, iv):
                return n
            if isinstance(x, ast.Call) and isinstance(
                    x.func, ast.Attribute) and isinstance(
                    x.func.value, ast.Name) and x.func.value.id == seq \
                    and x.func.attr in MUTATORS:
                return n
        bind = ast.Assign(
            targets=[n.target.elts[1]],
            value=ast.Subscript(value=ast.Name(id=seq, ctx=ast.Load()),
                                slice=ast.Name(id=iv, ctx=ast.Load()),
                                ctx=ast.Load()))
        new = ast.For(
            target=ast.Name(id=iv, ctx=ast.Store()),
            iter=ast.Call(func=ast.Name(id="range", ctx=ast.Load()), args=[
                ast.Call(func=ast.Name(id="len", ctx=ast.Load()),
                         args=[ast.Name(id=seq, ctx=ast.Load())],
                         keywords=[])], keywords=[]),
            body=[bind] + n.body, orelse=n.orelse)
        ast.copy_location(new, n)
        for x in ast.walk(bind):
            ast.copy_location(x, n)
        for x in ast.walk(new.iter):
            ast.copy_location(x, n)
        ast.copy_location(new.target, n)
        return new


def desugared(fi: "FuncInfo") -> "FuncInfo":
    """The function with `enumerate` loops over a stable sequence written
    as index loops (a copy; the original is untouched)."""
    import copy
    import dataclasses
    node = ast.fix_missing_locations(
        _Enum2Range().visit(copy.deepcopy(fi.node)))
    return dataclasses.replace(fi, node=node)


class _Range2Elem(ast.NodeTransformer):
    """`for k in range(len(seq)): v = seq[k]; B` -> `for v in seq: B` when
    k is used nowhere else in the loop and neither seq, k nor v is re-bound
    or seq resized in B (the inverse of `_Enum2Range` for loops that only
    need the elements)."""

    def visit_For(self, n: ast.For) -> ast.AST:
        self.generic_visit(n)
        it = n.iter
        if not (isinstance(it, ast.Call) and isinstance(
                it.func, ast.Name) and it.func.id == "range" and len(
                it.args) == 1 and not it.keywords and isinstance(
                it.args[0], ast.Call) and isinstance(
                it.args[0].func, ast.Name) and it.args[0].func.id == "len"
                and len(it.args[0].args) == 1 and isinstance(
                it.args[0].args[0], ast.Name) and isinstance(
                n.target, ast.Name) and n.body and not n.orelse):
            return n
        seq, kv = it.args[0].args[0].id, n.target.id
        first = n.body[0]
        tg = first.targets[0] if isinstance(first, ast.Assign) and len(
            first.targets) == 1 else (first.target if isinstance(
                first, ast.AnnAssign) and first.value is not None else None)
        val = getattr(first, "value", None)
        if not (isinstance(tg, ast.Name) and isinstance(
                val, ast.Subscript) and isinstance(
                val.value, ast.Name) and val.value.id == seq and isinstance(
                val.slice, ast.Name) and val.slice.id == kv):
            return n
        rest = n.body[1:]
        if not rest:
            return n
        for x in ast.walk(ast.Module(body=rest, type_ignores=[])):
            if isinstance(x, ast.Name) and x.id == kv:
                return n
            if isinstance(x, ast.Name) and isinstance(
                    x.ctx, (ast.Store, ast.Del)) and x.id in (seq, tg.id):
                return n
            if isinstance(x, ast.Call) and isinstance(
                    x.func, ast.Attribute) and isinstance(
                    x.func.value, ast.Name) and x.func.value.id == seq \
                    and x.func.attr in MUTATORS:
                return n
        new = ast.For(target=ast.Name(id=tg.id, ctx=ast.Store()),
                      iter=ast.Name(id=seq, ctx=ast.Load()), body=rest,
                      orelse=[])
        ast.copy_location(new, n)
        ast.copy_location(new.target, n)
        ast.copy_location(new.iter, n)
        return new


def elementwise(fi: "FuncInfo") -> "FuncInfo":
    """The function with index loops that only fetch the element written as
    loops over the elements (a copy; the original is untouched)."""
    import copy
    import dataclasses
    node = ast.fix_missing_locations(
        _Range2Elem().visit(copy.deepcopy(fi.node)))
    return dataclasses.replace(fi, node=node)


def inline_views(fi: "FuncInfo") -> "FuncInfo":
    """A copy of the function in which a local that names a row / column
    view of a parameter (`col = y[:, K]`, assigned once, neither re-bound
    nor written through, the parameter not re-bound) is replaced by the
    view: `col[i]` -> `y[i, K]`, bare `col` -> `y[:, K]`."""
    import copy
    import dataclasses
    node = copy.deepcopy(fi.node)
    stores: dict[str, int] = {}
    through: set[str] = set()
    for x in ast.walk(node):
        if isinstance(x, ast.Name) and isinstance(
                x.ctx, (ast.Store, ast.Del)):
            stores[x.id] = stores.get(x.id, 0) + 1
        elif isinstance(x, (ast.Subscript, ast.Attribute)) and isinstance(
                x.ctx, (ast.Store, ast.Del)):
            b: ast.AST = x
            while isinstance(b, (ast.Subscript, ast.Attribute)):
                b = b.value
            if isinstance(b, ast.Name):
                through.add(b.id)
    params = set(fi.params)
    views: dict[str, tuple[ast.Subscript, int]] = {}
    drop: list[ast.stmt] = []
    for st in node.body:
        tg = st.targets[0] if isinstance(st, ast.Assign) and len(
            st.targets) == 1 else (st.target if isinstance(
                st, ast.AnnAssign) and st.value is not None else None)
        val = getattr(st, "value", None)
        if not (isinstance(tg, ast.Name) and isinstance(
                val, ast.Subscript) and isinstance(val.value, ast.Name)
                and val.value.id in params
                and isinstance(val.slice, ast.Tuple)):
            continue
        base = val.value.id
        if stores.get(tg.id, 0) != 1 or tg.id in through or \
                stores.get(base, 0) or base in through:
            continue
        full = [k for k, e in enumerate(val.slice.elts) if isinstance(
            e, ast.Slice) and e.lower is None and e.upper is None
            and e.step is None]
        rest_ok = all(isinstance(e, (ast.Name, ast.Constant, ast.Attribute))
                      for k, e in enumerate(val.slice.elts) if k not in full)
        if len(full) != 1 or not rest_ok or any(
                isinstance(e, ast.Name) and stores.get(e.id, 0)
                for e in val.slice.elts):
            continue
        views[tg.id] = (val, full[0])
        drop.append(st)
    if not views:
        return fi

    class V(ast.NodeTransformer):
        def visit_Subscript(self, n: ast.Subscript) -> ast.AST:
            if isinstance(n.value, ast.Name) and n.value.id in views and \
                    isinstance(n.ctx, ast.Load) and not isinstance(
                    n.slice, (ast.Tuple, ast.Slice)):
                val, k = views[n.value.id]
                new = copy.deepcopy(val)
                new.slice.elts[k] = self.visit(n.slice)  # type: ignore
                return ast.copy_location(new, n)
            return self.generic_visit(n)

        def visit_Name(self, n: ast.Name) -> ast.AST:
            if n.id in views and isinstance(n.ctx, ast.Load):
                return ast.copy_location(copy.deepcopy(views[n.id][0]), n)
            return n
    node.body = [st for st in node.body if st not in drop]
    node = ast.fix_missing_locations(V().visit(node))
    return dataclasses.replace(fi, node=node)


def fold_consts(repo: "Repo", module: "Module", e: ast.AST) -> ast.AST:
    """A copy of the expression in which every name / attribute that
    resolves to a module-level numeric or string constant is replaced by
    that literal (so that rules see `1e10` whether it is written in place
    or as `_LIMIT`)."""
    import copy

    class F(ast.NodeTransformer):
        def _fold(self, n: ast.expr) -> ast.AST:
            if isinstance(getattr(n, "ctx", None), ast.Load):
                c = repo.const(module, n)
                if isinstance(c, (int, float, str)) and not isinstance(
                        c, bool):
                    if isinstance(c, (int, float)) and c < 0:
                        return ast.copy_location(ast.UnaryOp(
                            op=ast.USub(), operand=ast.Constant(value=-c)), n)
                    return ast.copy_location(ast.Constant(value=c), n)
            return self.generic_visit(n)

        def visit_Name(self, n: ast.Name) -> ast.AST:
            return self._fold(n)

        def visit_Attribute(self, n: ast.Attribute) -> ast.AST:
            return self._fold(n)
    return ast.fix_missing_locations(F().visit(copy.deepcopy(e)))


def bound_args(call: ast.Call, params: list[str]) -> dict[str, ast.expr]:
    """Arguments of a call by parameter name: positional ones are bound in
    order, keyword ones by their name (starred arguments are ignored)."""
    out: dict[str, ast.expr] = {}
    for p_, a in zip(params, call.args):
        if not isinstance(a, ast.Starred):
            out[p_] = a
    for k in call.keywords:
        if k.arg is not None:
            out[k.arg] = k.value
    return out


# --------------------------------------------------------------- normalise
class _Subst(ast.NodeTransformer):
    def __init__(self, m: dict[str, ast.expr]) -> None:
        self.m = m

    def visit_Name(self, n: ast.Name) -> ast.AST:
        import copy
        if isinstance(n.ctx, ast.Load) and n.id in self.m:
            return copy.deepcopy(self.m[n.id])
        return n


class _UnrollLiteral(ast.NodeTransformer):
    """`for v in (a, b): B` -> B[v:=a]; B[v:=b]   (v a name that B does not
    re-bind; a leading `if c: continue` is read as `if not c: <rest>`; any
    other break / continue / else keeps the loop as it is)."""

    def visit_For(self, n: ast.For) -> Any:
        import copy
        self.generic_visit(n)
        if not (isinstance(n.iter, (ast.Tuple, ast.List)) and isinstance(
                n.target, ast.Name) and not n.orelse and n.iter.elts):
            return n
        body = list(n.body)
        if body and isinstance(body[0], ast.If) and not body[0].orelse \
                and len(body[0].body) == 1 and isinstance(
                body[0].body[0], ast.Continue) and len(body) > 1:
            body = [ast.copy_location(ast.If(
                test=ast.UnaryOp(op=ast.Not(), operand=body[0].test),
                body=body[1:], orelse=[]), body[0])]
        for x in ast.walk(ast.Module(body=body, type_ignores=[])):
            if isinstance(x, (ast.Break, ast.Continue)):
                return n
            if isinstance(x, ast.Name) and x.id == n.target.id and \
                    isinstance(x.ctx, (ast.Store, ast.Del)):
                return n
        out: list[ast.stmt] = []
        for e in n.iter.elts:
            for b in body:
                nb = _Subst({n.target.id: e}).visit(copy.deepcopy(b))
                for y in ast.walk(nb):
                    ast.copy_location(y, b) if not hasattr(
                        y, "lineno") else None
                out.append(nb)
        return out


class _Range2Enum(ast.NodeTransformer):
    """`for k in range(len(seq)): v = seq[k]; B` -> `for k, v in
    enumerate(seq): B` (seq a name that B neither re-binds nor resizes, k
    and v not re-bound in B)."""

    def visit_For(self, n: ast.For) -> ast.AST:
        self.generic_visit(n)
        it = n.iter
        if not (isinstance(it, ast.Call) and isinstance(
                it.func, ast.Name) and it.func.id == "range" and len(
                it.args) == 1 and not it.keywords and isinstance(
                it.args[0], ast.Call) and isinstance(
                it.args[0].func, ast.Name) and it.args[0].func.id == "len"
                and len(it.args[0].args) == 1 and isinstance(
                it.args[0].args[0], ast.Name) and isinstance(
                n.target, ast.Name) and len(n.body) > 1 and not n.orelse):
            return n
        seq, kv = it.args[0].args[0].id, n.target.id
        first = n.body[0]
        tg = first.targets[0] if isinstance(first, ast.Assign) and len(
            first.targets) == 1 else (first.target if isinstance(
                first, ast.AnnAssign) and first.value is not None else None)
        val = getattr(first, "value", None)
        if not (isinstance(tg, ast.Name) and isinstance(
                val, ast.Subscript) and isinstance(
                val.value, ast.Name) and val.value.id == seq and isinstance(
                val.slice, ast.Name) and val.slice.id == kv):
            return n
        rest = n.body[1:]
        for x in ast.walk(ast.Module(body=rest, type_ignores=[])):
            if isinstance(x, ast.Name) and isinstance(
                    x.ctx, (ast.Store, ast.Del)) and x.id in (
                    seq, kv, tg.id):
                return n
            if isinstance(x, ast.Call) and isinstance(
                    x.func, ast.Attribute) and isinstance(
                    x.func.value, ast.Name) and x.func.value.id == seq \
                    and x.func.attr in MUTATORS:
                return n
        new = ast.For(
            target=ast.Tuple(elts=[ast.Name(id=kv, ctx=ast.Store()),
                                   ast.Name(id=tg.id, ctx=ast.Store())],
                             ctx=ast.Store()),
            iter=ast.Call(func=ast.Name(id="enumerate", ctx=ast.Load()),
                          args=[ast.Name(id=seq, ctx=ast.Load())],
                          keywords=[]),
            body=rest, orelse=[])
        for x in ast.walk(new):
            if not hasattr(x, "lineno"):
                ast.copy_location(x, n)
        ast.copy_location(new, n)
        return new


class _Continue2Else(ast.NodeTransformer):
    """In a loop body, `if c: A; continue` followed by R becomes
    `if c: A else: R` (the same control flow written without the jump)."""

    def _fix(self, body: list[ast.stmt]) -> list[ast.stmt]:
        out: list[ast.stmt] = []
        for k, st in enumerate(body):
            if isinstance(st, ast.If) and not st.orelse and st.body and \
                    isinstance(st.body[-1], ast.Continue) and k + 1 < len(
                    body):
                rest = self._fix(body[k + 1:])
                new = ast.If(test=st.test,
                             body=st.body[:-1] or [ast.Pass()],
                             orelse=rest)
                ast.copy_location(new, st)
                for x in ast.walk(new):
                    if not hasattr(x, "lineno"):
                        ast.copy_location(x, st)
                out.append(new)
                return out
            out.append(st)
        return out

    def visit_For(self, n: ast.For) -> ast.AST:
        self.generic_visit(n)
        n.body = self._fix(n.body)
        return n

    def visit_While(self, n: ast.While) -> ast.AST:
        self.generic_visit(n)
        n.body = self._fix(n.body)
        return n


class _WhileTrue(ast.NodeTransformer):
    """`while True: if c: break; B` -> `while not c: B` (B without further
    break statements of this loop is not required: they keep their
    meaning)."""

    def visit_While(self, n: ast.While) -> ast.AST:
        self.generic_visit(n)
        if isinstance(n.test, ast.Constant) and n.test.value is True and \
                len(n.body) > 1 and isinstance(n.body[0], ast.If) and \
                not n.body[0].orelse and len(n.body[0].body) == 1 and \
                isinstance(n.body[0].body[0], ast.Break) and not n.orelse:
            c = n.body[0].test
            if isinstance(c, ast.UnaryOp) and isinstance(c.op, ast.Not):
                test: ast.expr = c.operand
            else:
                test = ast.UnaryOp(op=ast.Not(), operand=c)
            new = ast.While(test=test, body=n.body[1:], orelse=[])
            ast.copy_location(new, n)
            for x in ast.walk(new):
                if not hasattr(x, "lineno"):
                    ast.copy_location(x, n)
            return new
        return n


class _EnumView(ast.NodeTransformer):
    """`for i, v in enumerate(a[:, K]): B` -> `for i in range(len(a)):
    B[v := a[i, K]]` (i, v and a not stored in B)."""

    def visit_For(self, n: ast.For) -> ast.AST:
        import copy
        self.generic_visit(n)
        it, tg = n.iter, n.target
        plain = isinstance(it, ast.Subscript) and isinstance(
            tg, ast.Name) and not n.orelse
        if not plain and not (
                isinstance(it, ast.Call) and isinstance(it.func, ast.Name)
                and it.func.id == "enumerate" and len(it.args) == 1
                and not it.keywords and isinstance(tg, ast.Tuple)
                and len(tg.elts) == 2 and all(isinstance(
                    e, ast.Name) for e in tg.elts) and not n.orelse):
            return n
        view = it if plain else it.args[0]
        if not (isinstance(view, ast.Subscript) and isinstance(
                view.value, ast.Name) and isinstance(view.slice, ast.Tuple)
                and len(view.slice.elts) == 2):
            return n
        e0, e1 = view.slice.elts
        if not (isinstance(e0, ast.Slice) and e0.lower is None
                and e0.upper is None and e0.step is None and isinstance(
                    e1, (ast.Name, ast.Constant, ast.Attribute))):
            return n
        if plain:
            _EnumView._n = getattr(_EnumView, "_n", 0) + 1
            iv, vv, base = f"_col_{_EnumView._n}", tg.id, view.value.id
        else:
            iv, vv, base = tg.elts[0].id, tg.elts[1].id, view.value.id
        for x in ast.walk(ast.Module(body=n.body, type_ignores=[])):
            if isinstance(x, ast.Name) and isinstance(
                    x.ctx, (ast.Store, ast.Del)) and x.id in (iv, vv, base):
                return n
            if isinstance(x, ast.Subscript) and isinstance(
                    x.ctx, (ast.Store, ast.Del)) and isinstance(
                    x.value, ast.Name) and x.value.id in (vv, base):
                return n

        class S(ast.NodeTransformer):
            def visit_Name(self, m: ast.Name) -> ast.AST:
                if m.id == vv and isinstance(m.ctx, ast.Load):
                    return ast.copy_location(ast.Subscript(
                        value=ast.Name(id=base, ctx=ast.Load()),
                        slice=ast.Tuple(elts=[
                            ast.Name(id=iv, ctx=ast.Load()),
                            copy.deepcopy(e1)], ctx=ast.Load()),
                        ctx=ast.Load()), m)
                return m
        new = ast.For(
            target=ast.Name(id=iv, ctx=ast.Store()),
            iter=ast.Call(func=ast.Name(id="range", ctx=ast.Load()), args=[
                ast.Call(func=ast.Name(id="len", ctx=ast.Load()),
                         args=[ast.Name(id=base, ctx=ast.Load())],
                         keywords=[])], keywords=[]),
            body=[S().visit(b) for b in n.body], orelse=[])
        return ast.fix_missing_locations(ast.copy_location(new, n))


class _RowLoop(ast.NodeTransformer):
    """`for row in a: .. row[K] ..` -> `for _i in range(len(a)): .. a[_i, K]
    ..` for a name `a` that the body does not re-bind, when `row` is only
    ever read through `row[<index>]`."""

    def __init__(self, arrays: set[str]) -> None:
        self.arrays = arrays
        self.n = 0

    def visit_For(self, n: ast.For) -> ast.AST:
        self.generic_visit(n)
        if not (isinstance(n.iter, ast.Name) and n.iter.id in self.arrays
                and isinstance(n.target, ast.Name) and not n.orelse):
            return n
        arr, row = n.iter.id, n.target.id
        uses = 0
        for x in ast.walk(ast.Module(body=n.body, type_ignores=[])):
            if isinstance(x, ast.Name) and x.id in (arr, row) and \
                    isinstance(x.ctx, (ast.Store, ast.Del)):
                return n
            if isinstance(x, ast.Name) and x.id == row:
                uses += 1
        subs = [x for x in ast.walk(ast.Module(body=n.body, type_ignores=[]))
                if isinstance(x, ast.Subscript) and isinstance(
                    x.value, ast.Name) and x.value.id == row and isinstance(
                    x.ctx, ast.Load) and not isinstance(
                    x.slice, (ast.Slice, ast.Tuple))]
        if not subs or len(subs) != uses:
            return n
        self.n += 1
        iv = f"_row_{self.n}"

        class S(ast.NodeTransformer):
            def visit_Subscript(self, m: ast.Subscript) -> ast.AST:
                self.generic_visit(m)
                if isinstance(m.value, ast.Name) and m.value.id == row:
                    return ast.copy_location(ast.Subscript(
                        value=ast.Name(id=arr, ctx=ast.Load()),
                        slice=ast.Tuple(elts=[
                            ast.Name(id=iv, ctx=ast.Load()), m.slice],
                            ctx=ast.Load()), ctx=ast.Load()), m)
                return m
        new = ast.For(
            target=ast.Name(id=iv, ctx=ast.Store()),
            iter=ast.Call(func=ast.Name(id="range", ctx=ast.Load()), args=[
                ast.Call(func=ast.Name(id="len", ctx=ast.Load()),
                         args=[ast.Name(id=arr, ctx=ast.Load())],
                         keywords=[])], keywords=[]),
            body=[S().visit(b) for b in n.body], orelse=[])
        return ast.fix_missing_locations(ast.copy_location(new, n))


def kernel_normalised(fi: "FuncInfo") -> "FuncInfo":
    """`inline_views` plus `while True: if c: break` -> `while not c`."""
    import copy
    import dataclasses
    fi = inline_views(fi)
    node = _WhileTrue().visit(copy.deepcopy(fi.node))
    node = ast.fix_missing_locations(_EnumView().visit(node))
    stored = {x.id for x in ast.walk(node) if isinstance(
        x, ast.Name) and isinstance(x.ctx, (ast.Store, ast.Del))}
    node = ast.fix_missing_locations(_RowLoop(
        {p_ for p_ in fi.params if p_ not in stored}).visit(node))
    return dataclasses.replace(fi, node=node)


def normalised(repo: "Repo", fi: "FuncInfo",
               cls: "ClassInfo | None" = None,
               aliases: bool = False) -> "FuncInfo":
    """A copy of the function in a canonical spelling, for rules that match
    statement shapes: loops over literal tuples are unrolled, calls of
    library functions pass their arguments positionally, and locals that
    merely name a field of `self` / a parameter (`starts = self.__training`,
    `ok = not (self.__c is None)`) are replaced by what they name - the
    latter only if neither this function nor a method of `cls` that it
    calls stores to that field."""
    import copy
    import dataclasses
    node = copy.deepcopy(fi.node)
    node = _UnrollLiteral().visit(node)
    node = _Range2Enum().visit(node)
    node = _Continue2Else().visit(node)
    node = _WhileTrue().visit(node)
    ast.fix_missing_locations(node)

    # ---- keyword -> positional for resolvable library functions
    class KwPos(ast.NodeTransformer):
        def visit_Call(self, c: ast.Call) -> ast.AST:
            self.generic_visit(c)
            if not c.keywords or any(k.arg is None for k in c.keywords) \
                    or any(isinstance(a, ast.Starred) for a in c.args):
                return c
            try:
                tgt = repo.resolve_expr(fi.module, c.func)
            except Exception:  # noqa: BLE001
                tgt = None
            if not isinstance(tgt, FuncInfo) or tgt.cls is not None:
                return c
            rest = list(tgt.params[len(c.args):])
            kw = {k.arg: k.value for k in c.keywords}
            take = rest[:len(kw)]
            if set(take) != set(kw):
                return c
            c.args = list(c.args) + [kw[p_] for p_ in take]
            c.keywords = []
            return c
    node = KwPos().visit(node)

    # ---- aliases of fields
    def pure_read(e: ast.expr) -> bool:
        if isinstance(e, ast.Attribute):
            b = e
            while isinstance(b, ast.Attribute):
                b = b.value
            return isinstance(b, ast.Name) and b.id in fi.params
        if isinstance(e, ast.UnaryOp) and isinstance(e.op, ast.Not):
            return pure_read(e.operand)
        if isinstance(e, ast.Compare) and len(e.ops) == 1 and isinstance(
                e.ops[0], (ast.Is, ast.IsNot)) and isinstance(
                e.comparators[0], ast.Constant) and \
                e.comparators[0].value is None:
            return pure_read(e.left)
        return False

    def stored_attrs(n_: ast.AST) -> set[str]:
        out = set()
        for x in ast.walk(n_):
            if isinstance(x, ast.Attribute) and isinstance(
                    x.ctx, (ast.Store, ast.Del)):
                out.add(ast.unparse(x))
        return out
    stored = stored_attrs(node)
    if cls is not None:
        for c in ast.walk(node):
            if isinstance(c, ast.Call) and isinstance(
                    c.func, ast.Attribute) and isinstance(
                    c.func.value, ast.Name) and c.func.value.id in \
                    fi.params[:1]:
                m = cls.methods.get(c.func.attr) or cls.methods.get(
                    f"_{cls.name}{c.func.attr}")
                if m is not None and m is not fi:
                    stored |= stored_attrs(m.node)
    body = node.body if isinstance(node, (ast.FunctionDef,
                                          ast.AsyncFunctionDef)) else []
    counts: dict[str, int] = {}
    for x in ast.walk(node):
        if isinstance(x, ast.Name) and isinstance(x.ctx, ast.Store):
            counts[x.id] = counts.get(x.id, 0) + 1
    alias: dict[str, ast.expr] = {}
    keep: list[ast.stmt] = []
    for st in body:
        tg = st.targets[0] if isinstance(st, ast.Assign) and len(
            st.targets) == 1 else (st.target if isinstance(
                st, ast.AnnAssign) else None)
        val = getattr(st, "value", None)
        if isinstance(tg, ast.Name) and val is not None and counts.get(
                tg.id) == 1 and tg.id not in fi.params and pure_read(
                _Subst(alias).visit(copy.deepcopy(val))):
            v2 = _Subst(alias).visit(copy.deepcopy(val))
            reads = {ast.unparse(a_) for a_ in ast.walk(v2)
                     if isinstance(a_, ast.Attribute)}
            if not (reads & stored):
                alias[tg.id] = v2
                continue
        keep.append(st)
    if aliases and alias and isinstance(
            node, (ast.FunctionDef, ast.AsyncFunctionDef)):
        node.body = [_Subst(alias).visit(st) for st in keep] or [ast.Pass()]
    ast.fix_missing_locations(node)
    return dataclasses.replace(fi, node=node)
