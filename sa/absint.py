"""E3 - abstract interpreter for index safety of njit kernels (SymBounds).

State: program variable -> abstract value (linear expression over symbols,
array reference, or unknown) plus a list of linear facts ``e >= 0``.
Path sensitive inside loop bodies (states are merged when their variable
maps coincide), Houdini template invariants at loop heads, element-range
summaries for arrays.  Entailment by exact Fourier-Motzkin (sa.lin).
"""
from __future__ import annotations

import ast
import itertools
from dataclasses import dataclass, field
from fractions import Fraction
from typing import Any, Callable

from sa.lin import Lin, consistent, entails
from sa.srcmodel import FuncInfo, Repo, func_body

ONE = Lin.const(1)
ZERO = Lin.const(0)


# ---------------------------------------------------------------- values
@dataclass(eq=False)
class Arr:
    """An array object (shared by reference between aliases)."""

    name: str
    dims: list[Lin]
    lo: Lin | None = None        # element range (all initialised cells)
    hi: Lin | None = None
    abs_lo: Lin | None = None    # lo <= |elem| <= hi  (signed ids)
    abs_hi: Lin | None = None
    perm: bool = False           # a permutation of 0..len-1
    written: bool = False

    def clone_range(self) -> tuple:
        return (self.lo, self.hi, self.abs_lo, self.abs_hi)


@dataclass(eq=False)
class View:
    """A view of an array with some leading/trailing axes fixed."""

    base: Arr
    fixed: dict[int, Lin]         # axis -> index
    free: list[int]               # remaining axes in order


UNK = ("unk",)


@dataclass
class State:
    vals: dict[str, Any] = field(default_factory=dict)
    facts: list[Lin] = field(default_factory=list)
    #: element ranges are per-state (arrays themselves are shared objects)
    ranges: dict[int, tuple] = field(default_factory=dict)
    dead: bool = False
    #: pending disequalities d != 0
    ne: list[Lin] = field(default_factory=list)
    #: boolean locals bound to a comparison: name -> (expression, the values
    #: its variables had when it was evaluated)
    conds: dict[str, tuple] = field(default_factory=dict)

    def copy(self) -> "State":
        return State(dict(self.vals), list(self.facts), dict(self.ranges),
                     self.dead, list(self.ne), dict(self.conds))

    def add(self, e: Lin) -> None:
        if e.is_const():
            if e.c < 0:
                self.dead = True
            return
        from sa.lin import _normalise
        e = _normalise(e)
        for i, f in enumerate(self.facts):
            if f.co == e.co:
                if e.c < f.c:
                    self.facts[i] = e      # tighter bound replaces weaker
                return
        self.facts.append(e)

    def rng(self, a: Arr) -> tuple:
        return self.ranges.get(id(a), a.clone_range())

    def set_rng(self, a: Arr, r: tuple) -> None:
        self.ranges[id(a)] = r


@dataclass
class Obligation:
    node: ast.AST
    func: FuncInfo
    desc: str
    ok: bool
    detail: str
    path: str = ""


class Contract:
    """What a kernel may assume about its parameters."""

    def __init__(self) -> None:
        self.arrays: dict[str, dict[str, Any]] = {}
        self.ints: dict[str, tuple[Any, Any]] = {}
        self.facts: list[Callable[[dict[str, Lin]], list[Lin]]] = []
        self.lemmas: list[str] = []
        self.callables: dict[str, list[FuncInfo]] = {}


def relevant_names(repo: Repo, fi: FuncInfo, index_arrays: set[str],
                   _memo: dict | None = None) -> set[str]:
    """
    Names of `fi` whose values can flow into an index, a slice / range
    bound, or into an array whose elements are later used as indices
    (`index_arrays`: parameter names of such arrays, e.g. bin_starts).
    """
    memo = _memo if _memo is not None else {}
    if fi in memo:
        return memo[fi]
    memo[fi] = set()
    rel: set[str] = set()

    def names(e: ast.AST | None) -> set[str]:
        return {n.id for n in ast.walk(e) if isinstance(n, ast.Name)} \
            if e is not None else set()

    assigns: list[tuple[set[str], ast.expr]] = []
    for n in ast.walk(fi.node):
        if isinstance(n, ast.Subscript):
            rel |= names(n.slice)
        if isinstance(n, ast.For):
            rel |= names(n.iter) if isinstance(n.iter, ast.Call) and \
                isinstance(n.iter.func, ast.Name) and \
                n.iter.func.id == "range" else set()
        if isinstance(n, ast.Call) and isinstance(
                n.func, ast.Attribute) and n.func.attr in (
                "empty", "zeros", "ones", "full", "reshape"):
            for a in n.args:
                rel |= names(a)
        if isinstance(n, ast.Call) and isinstance(n.func, ast.Name):
            if n.func.id in ("range",):
                for a in n.args:
                    rel |= names(a)
            r = repo.resolve(fi.module, n.func.id)
            if isinstance(r, FuncInfo) and r is not fi:
                sub = relevant_names(repo, r, index_arrays, memo)
                for p_, a in zip(r.params, n.args):
                    if p_ in sub:
                        rel |= names(a)
        if isinstance(n, (ast.Assign, ast.AnnAssign, ast.AugAssign)):
            tg = n.targets if isinstance(n, ast.Assign) else [n.target]
            if getattr(n, "value", None) is None:
                continue
            tn: set[str] = set()
            for t in tg:
                if isinstance(t, ast.Subscript):
                    b = t.value
                    while isinstance(b, ast.Subscript):
                        b = b.value
                    if isinstance(b, ast.Name) and (
                            b.id in index_arrays):
                        rel |= names(n.value)
                else:
                    tn |= {x.id for x in ast.walk(t)
                           if isinstance(x, ast.Name)}
            if isinstance(n, ast.AugAssign):
                assigns.append((tn, n.value))
                assigns.append((tn, n.target))
            else:
                assigns.append((tn, n.value))
        if isinstance(n, ast.For):
            tn = {x.id for x in ast.walk(n.target)
                  if isinstance(x, ast.Name)}
            assigns.append((tn, n.iter))
    changed = True
    while changed:
        changed = False
        for tn, v in assigns:
            if tn & rel:
                new = names(v) - rel
                if new:
                    rel |= new
                    changed = True
    memo[fi] = rel
    return rel


class Analyzer:
    """Analyses one kernel (callees are inlined)."""

    def __init__(self, repo: Repo, fi: FuncInfo, contract: Contract,
                 infeasible: Callable[["Analyzer", ast.AST, State], bool]
                 | None = None, peel: bool = False) -> None:
        self.repo = repo
        self.fi = fi
        self.contract = contract
        self.obligations: list[Obligation] = []
        self._sym = itertools.count()
        self.infeasible = infeasible
        self.peel = peel
        self.call_stack: list[FuncInfo] = []
        self.n_index_positions = 0
        self.notes: list[str] = []
        self.quiet = 0       # >0: do not record obligations (Houdini runs)
        self.cur: FuncInfo = fi
        self.loop_syms: list[str] = []
        self.shape_syms: list[str] = []
        self._rel_memo: dict = {}
        #: subscripts reached by the (non-quiet) analysis under consistent
        #: facts
        self.visited: set[tuple[str, int, int]] = set()
        #: optional callbacks (analyzer, state, array, {axis: index}, node)
        self.load_hook: Any = None
        self.store_hook: Any = None
        idx_arrays = {p for p, sp in contract.arrays.items()
                      if sp.get("scratch") or sp.get("store_cols")}
        self._idx_arrays = idx_arrays
        self._entail_cache: dict = {}

    def _dim_syms(self) -> list[str]:
        """Shape symbols that are array extents (not scalar parameters)."""
        out: list[str] = []
        for spec in self.contract.arrays.values():
            for d in spec["dims"]:
                nm = d if isinstance(d, str) else (
                    d[0] if isinstance(d, tuple) else None)
                if nm is not None and nm not in out:
                    out.append(nm)
        for p_, (lo, hi) in self.contract.ints.items():
            if getattr(self.contract, "index_ints", None) and \
                    p_ in self.contract.index_ints and p_ not in out:
                out.append(p_)
        return out

    def _all_index_arrays(self) -> set[str]:
        # parameter names (in any inlined function) bound to index-feeding
        # arrays: conservatively the contract's names plus common aliases
        return self._idx_arrays

    # ------------------------------------------------------------ helpers
    def fresh(self, hint: str) -> Lin:
        return Lin.sym(f"{hint}@{next(self._sym)}")

    def _note_summarised(self, sym: dict[str, Lin]) -> None:
        """Symbols that stand for a loop-carried scalar at a loop head: all
        that is known about them is the inferred invariant, which may be
        weaker than what the program guarantees."""
        if not hasattr(self, "summarised"):
            self.summarised: set[str] = set()
        for v in sym.values():
            self.summarised |= v.syms()

    def const(self, node: ast.expr) -> Any:
        return self.repo.const(self.cur.module, node)

    def ob(self, node: ast.AST, desc: str, ok: bool, detail: str) -> None:
        if self.quiet:
            return
        self.obligations.append(Obligation(node, self.cur, desc, ok, detail))

    # -------------------------------------------------------------- entry
    def run(self) -> None:
        st = State()
        syms: dict[str, Lin] = {}
        for p in self.fi.params:
            spec = self.contract.arrays.get(p)
            if spec is not None:
                dims = []
                for d in spec["dims"]:
                    if isinstance(d, Lin):
                        dims.append(d)
                    elif isinstance(d, int):
                        dims.append(Lin.const(d))
                    elif isinstance(d, tuple):
                        if d[0] not in syms:
                            syms[d[0]] = Lin.sym(d[0])
                            self.shape_syms.append(d[0])
                        dims.append(syms[d[0]] + d[1])
                    else:
                        if d not in syms:
                            syms[d] = Lin.sym(d)
                            self.shape_syms.append(d)
                        dims.append(syms[d])
                a = Arr(p, dims)
                st.vals[p] = a
                a._spec = spec    # type: ignore[attr-defined]
            elif p in self.contract.ints:
                v = Lin.sym(p)
                syms[p] = v
                st.vals[p] = v
                self.shape_syms.append(p)
            else:
                st.vals[p] = UNK
        for d in list(syms):
            pass
        # element ranges and integer ranges may mention shape symbols
        def L(x: Any) -> Lin | None:
            if x is None:
                return None
            if isinstance(x, Lin):
                return x
            if isinstance(x, int):
                return Lin.const(x)
            if isinstance(x, str):
                if x not in syms:
                    syms[x] = Lin.sym(x)
                    self.shape_syms.append(x)
                return syms[x]
            if isinstance(x, tuple):       # ("sym", k) = sym + k
                return L(x[0]) + x[1]
            raise TypeError(x)
        for p, spec in self.contract.arrays.items():
            a = st.vals.get(p)
            if not isinstance(a, Arr):
                continue
            a.lo, a.hi = L(spec.get("lo")), L(spec.get("hi"))
            if spec.get("scratch"):
                st.set_rng(a, ("empty", None, None, None))
            a.abs_lo, a.abs_hi = L(spec.get("abs_lo")), L(spec.get("abs_hi"))
            a.perm = bool(spec.get("perm"))
            for d in a.dims:
                st.add(d - L(spec.get("min_dim", 0)))
        for p, (lo, hi) in self.contract.ints.items():
            v = st.vals.get(p)
            if isinstance(v, Lin):
                if lo is not None:
                    st.add(v - L(lo))
                if hi is not None:
                    st.add(L(hi) - v)
        for f in self.contract.facts:
            for e in f(syms):
                st.add(e)
        self.syms = syms
        self.block([st], func_body(self.fi))

    # -------------------------------------------------------- expressions
    def ev(self, st: State, e: ast.expr) -> Any:
        """Abstract value of an expression (records index obligations)."""
        if isinstance(e, ast.Constant):
            if isinstance(e.value, bool):
                return UNK
            if isinstance(e.value, int):
                return Lin.const(e.value)
            return UNK
        if isinstance(e, ast.Name):
            if e.id in st.vals:
                return st.vals[e.id]
            c = self.const(e)
            if isinstance(c, int) and not isinstance(c, bool):
                return Lin.const(c)
            return UNK
        if isinstance(e, ast.Attribute):
            c = self.const(e)
            if isinstance(c, int) and not isinstance(c, bool):
                return Lin.const(c)
            if e.attr == "shape":
                b = self.ev(st, e.value)
                if isinstance(b, Arr):
                    return ("tuple", list(b.dims))
                if isinstance(b, View):
                    return ("tuple", [b.base.dims[a] for a in b.free])
            self.ev(st, e.value)
            return UNK
        if isinstance(e, ast.UnaryOp):
            v = self.ev(st, e.operand)
            if isinstance(e.op, ast.USub) and isinstance(v, Lin):
                return -v
            if isinstance(e.op, ast.UAdd) and isinstance(v, Lin):
                return v
            return UNK
        if isinstance(e, ast.BinOp):
            return self.binop(st, e)
        if isinstance(e, ast.Subscript):
            return self.subscript(st, e, store=False)
        if isinstance(e, ast.IfExp):
            self.ev(st, e.test)
            a = self.ev(st, e.body)
            b = self.ev(st, e.orelse)
            if isinstance(a, Lin) and isinstance(b, Lin):
                if a == b:
                    return a
                # join two linear values under the (split) condition
                z = self.fresh("ite")
                sa = self.assume(st.copy(), e.test, True)
                sb = self.assume(st.copy(), e.test, False)
                for cand_lo in (a, b):
                    if all(s.dead or entails(s.facts, v - cand_lo)
                           for s, v in ((sa, a), (sb, b))):
                        st.add(z - cand_lo)
                for cand_hi in (a, b):
                    if all(s.dead or entails(s.facts, cand_hi - v)
                           for s, v in ((sa, a), (sb, b))):
                        st.add(cand_hi - z)
                # generic template bounds
                self._template_bounds(st, z, [(sa, a), (sb, b)])
                return z
            return UNK
        if isinstance(e, ast.Compare):
            self.ev(st, e.left)
            for c in e.comparators:
                self.ev(st, c)
            return UNK
        if isinstance(e, ast.BoolOp):
            for v in e.values:
                self.ev(st, v)
            return UNK
        if isinstance(e, ast.Call):
            return self.call(st, e)
        if isinstance(e, ast.Tuple):
            return ("tuple", [self.ev(st, x) for x in e.elts])
        for sub in ast.iter_child_nodes(e):
            if isinstance(sub, ast.expr):
                self.ev(st, sub)
        return UNK

    def _template_bounds(self, st: State, z: Lin,
                         branches: list[tuple[State, Lin]]) -> None:
        cands: list[Lin] = [ZERO, ONE, -ONE]
        for s in self.shape_syms:
            cands += [Lin.sym(s), Lin.sym(s) - 1]
        for s in self.loop_syms:
            cands += [Lin.sym(s), Lin.sym(s) - 1, Lin.sym(s) + 1]
        for c in cands:
            if all(s.dead or entails(s.facts, v - c) for s, v in branches):
                st.add(z - c)
            if all(s.dead or entails(s.facts, c - v) for s, v in branches):
                st.add(c - z)

    def binop(self, st: State, e: ast.BinOp) -> Any:
        a = self.ev(st, e.left)
        b = self.ev(st, e.right)
        if not (isinstance(a, Lin) and isinstance(b, Lin)):
            return UNK
        op = e.op
        if isinstance(op, ast.Add):
            return a + b
        if isinstance(op, ast.Sub):
            return a - b
        if isinstance(op, ast.Mult):
            if a.is_const():
                return b.scale(a.c)
            if b.is_const():
                return a.scale(b.c)
            return self._product(st, a, b)
        if isinstance(op, ast.FloorDiv):
            if b.is_const() and b.c > 0:
                # triangular numbers:  a*(a-1)//2
                tri = self._triangular(st, e, a, b)
                if tri is not None:
                    return tri
                q = self.fresh("div")
                st.add(a - q.scale(b.c))                    # b*q <= a
                st.add(q.scale(b.c) + (b.c - 1) - a)        # a <= b*q + b-1
                return q
            if entails(st.facts, b - 1):
                q = self.fresh("div")
                if entails(st.facts, a):
                    st.add(q)              # a >= 0, b >= 1  =>  q >= 0
                    st.add(a - q)          # q <= a
                return q
            return self.fresh("div")
        if isinstance(op, ast.Mod):
            r = self.fresh("mod")
            if entails(st.facts, b - 1):
                st.add(r)
                st.add(b - 1 - r)
                if entails(st.facts, a):
                    st.add(a - r)
            return r
        return UNK

    def _product(self, st: State, a: Lin, b: Lin) -> Lin:
        """A fresh symbol for a*b with sign / monotonicity lemmas."""
        p = self.fresh("mul")
        a_nn, b_nn = entails(st.facts, a), entails(st.facts, b)
        if a_nn and b_nn:
            st.add(p)
            if entails(st.facts, b - 1):
                st.add(p - a)
            if entails(st.facts, a - 1):
                st.add(p - b)
        p_info = getattr(self, "_products", None)
        if p_info is None:
            self._products = p_info = {}
        p_info[next(iter(p.co))] = (a, b)
        return p

    def _triangular(self, st: State, e: ast.BinOp, a: Lin, b: Lin) \
            -> Lin | None:
        """Recognise `(t * (t - 1)) // 2` -> tri(t) with its lemmas."""
        if b.c != 2:
            return None
        prods = getattr(self, "_products", {})
        if len(a.co) != 1 or a.c != 0:
            return None
        (s, coef), = a.co.items()
        if coef != 1 or s not in prods:
            return None
        x, y = prods[s]
        if y - x == ONE:
            x, y = y, x
        if not (x - y == ONE):
            return None
        # tri(x) = x(x-1)/2
        t = self.fresh("tri")
        tris = getattr(self, "_tris", None)
        if tris is None:
            self._tris = tris = {}
        tris[next(iter(t.co))] = x
        if entails(st.facts, x):
            st.add(t)
        return t

    # ---------------------------------------------------------- subscripts
    def _index_ok(self, st: State, node: ast.AST, idx: Lin, dim: Lin,
                  what: str) -> None:
        if self.quiet:
            return        # invariant inference: obligations are not judged
        self.n_index_positions += 1
        lo_ok = entails(st.facts, idx + dim)     # idx >= -dim (N3)
        hi_ok = entails(st.facts, dim - 1 - idx)
        if not hi_ok:
            hi_ok = self._tri_upper(st, idx, dim)
        ok = lo_ok and hi_ok
        wit = None
        if not ok and not self.quiet:
            wit = self._small_model(st, idx, dim)
        detail = f"index {idx} into {what} of extent {dim}: "
        if ok:
            detail += "proved -extent <= index <= extent-1"
        else:
            detail += ("cannot prove " + ("index >= -extent; " if not lo_ok
                                          else "")
                       + ("index <= extent-1; " if not hi_ok else "")
                       + "facts: " + "; ".join(
                           f"{f} >= 0" for f in st.facts
                           if f.syms() & (idx.syms() | dim.syms()))[:600])
            weak = idx.syms() & getattr(self, "summarised", set())
            if weak:
                # the index depends on a value carried around a loop: only
                # the inferred loop invariant is known about it - failing
                # to prove the bound is then not a refutation
                detail += ("; the loop invariant inferred for "
                           + ", ".join(sorted(x.split("@")[0] for x in weak))
                           + " may be too weak: cannot be normalised into a "
                           "decidable bound (not recognised)")
            elif wit is not None:
                detail += ("; REFUTED by the integer model " + ", ".join(
                    f"{k}={v}" for k, v in sorted(wit.items()))
                    + " (satisfies every fact, index out of range)")
        self.ob(node, f"{what}[{idx}]", ok, detail)

    def _small_model(self, st: State, idx: Lin, dim: Lin) \
            -> dict[str, int] | None:
        """Search a small integer model of the facts in which the index is
        out of range (index arithmetic only - no repository code runs)."""
        from sa.lin import cone
        goal = idx - dim
        facts = cone(st.facts, goal)
        tris = getattr(self, "_tris", {})
        prods = getattr(self, "_products", {})
        syms: set[str] = set(goal.syms())
        for f in facts:
            syms |= f.syms()
        derived: dict[str, Any] = {}
        for s_ in list(syms):
            if s_ in tris:
                derived[s_] = ("tri", tris[s_])
                syms |= tris[s_].syms()
            elif s_ in prods:
                derived[s_] = ("mul", prods[s_])
                syms |= prods[s_][0].syms() | prods[s_][1].syms()
            elif s_.startswith("tri(") and s_.endswith(")"):
                derived[s_] = ("tri", Lin.sym(s_[4:-1]))
                syms.add(s_[4:-1])
        free = sorted(s_ for s_ in syms if s_ not in derived)
        if len(free) > 6:
            return None

        def val(e: Lin, m: dict[str, int]) -> Fraction | None:
            t = e.c
            for k_, c_ in e.co.items():
                if k_ not in m:
                    return None
                t += c_ * m[k_]
            return t
        rng = range(-2, 6)
        for combo in itertools.product(rng, repeat=len(free)):
            m = dict(zip(free, combo))
            okm = True
            for _ in range(3):
                for s_, d in derived.items():
                    if s_ in m:
                        continue
                    if d[0] == "tri":
                        x = val(d[1], m)
                        if x is not None and x.denominator == 1:
                            m[s_] = int(x) * (int(x) - 1) // 2
                    else:
                        a, b = val(d[1][0], m), val(d[1][1], m)
                        if a is not None and b is not None:
                            m[s_] = int(a * b)
            if any(s_ not in m for s_ in derived):
                continue
            for f in facts:
                v = val(f, m)
                if v is None or v < 0:
                    okm = False
                    break
            if not okm:
                continue
            iv, dv = val(idx, m), val(dim, m)
            if iv is None or dv is None or dv < 0:
                continue
            if iv > dv - 1 or iv < -dv:
                return {k_.split("@")[0] + ("@" + k_.split("@")[1]
                                            if "@" in k_ else ""): v_
                        for k_, v_ in m.items()}
        return None

    def _tri_upper(self, st: State, idx: Lin, dim: Lin) -> bool:
        """idx = tri(a) + r, dim = tri(N):  a+1 <= N, r <= a-1 => in range."""
        tris = getattr(self, "_tris", {})
        ts = [s for s in idx.co if s in tris and idx.co[s] == 1]
        dn = [s for s in dim.co if s.startswith("tri(")]
        if len(ts) != 1 or len(dn) != 1 or dim.co[dn[0]] != 1 or \
                dim.c != 0 or len(dim.co) != 1:
            return False
        a = tris[ts[0]]
        r = idx - Lin.sym(ts[0])
        nsym = dn[0][4:-1]
        n = Lin.sym(nsym)
        return entails(st.facts, n - a - 1) and entails(
            st.facts, a - 1 - r) and entails(st.facts, a)

    def subscript(self, st: State, e: ast.Subscript, store: bool,
                  value: Any = None) -> Any:
        if not self.quiet:
            self.visited.add((self.cur.qualname, e.lineno, e.col_offset))
        base = self.ev(st, e.value)
        sl = e.slice
        parts = list(sl.elts) if isinstance(sl, ast.Tuple) else [sl]
        if isinstance(base, tuple) and base and base[0] == "tuple":
            idx = self.ev(st, sl)
            if isinstance(idx, Lin) and idx.is_const():
                k = int(idx.c)
                if -len(base[1]) <= k < len(base[1]):
                    return base[1][k]
            return UNK
        if isinstance(base, Arr):
            arr, axes, fixed = base, list(range(len(base.dims))), {}
        elif isinstance(base, View):
            arr, axes, fixed = base.base, list(base.free), dict(base.fixed)
        else:
            for p in parts:
                if not isinstance(p, ast.Slice):
                    self.ev(st, p)
            if base is UNK and not self.quiet:
                self.notes.append(
                    f"{self.cur.name}: subscript of untracked value "
                    f"`{ast.unparse(e.value)}` at line {e.lineno}")
                self.ob(e, f"{ast.unparse(e)}", False,
                        "subscript of a value the analysis does not track "
                        "as an array")
            return UNK
        what = arr.name
        if len(parts) > len(axes):
            self.ob(e, ast.unparse(e), False, "too many indices")
            return UNK
        free: list[int] = []
        scalar = True
        for pos, p in enumerate(parts):
            ax = axes[pos]
            dim = arr.dims[ax]
            if isinstance(p, ast.Slice):
                scalar = False
                free.append(ax)
                for b in (p.lower, p.upper, p.step):
                    if b is not None:
                        self.ev(st, b)
                if not self.quiet:
                    self.n_index_positions += 1
                continue
            iv = self.ev(st, p)
            if isinstance(iv, Arr):
                # fancy indexing with an index array
                scalar = False
                free.append(ax)
                r = st.rng(iv)
                ok = (iv.perm and iv.dims[0] == dim) or (
                    r[0] is not None and r[1] is not None
                    and entails(st.facts, r[0]) and entails(
                        st.facts, dim - 1 - r[1]))
                if not self.quiet:
                    self.n_index_positions += 1
                self.ob(p, f"{what}[<index array {iv.name}>]", ok,
                        "index array is a permutation of 0..len-1 of the "
                        "same length" if ok else
                        "index array elements not proven inside the axis")
                continue
            if not isinstance(iv, Lin):
                if not self.quiet:
                    self.n_index_positions += 1
                self.ob(p, f"{what}[{ast.unparse(p)}]", False,
                        "index value is not tracked as an integer")
                continue
            lem = getattr(self.contract, "index_lemmas", {}).get(
                (self.cur.name, what, ax))
            if lem is not None:
                # a documented lemma about every index into this axis
                if lem[0] is not None:
                    st.add(iv - self._L(lem[0]))
                if lem[1] is not None:
                    st.add(self._L(lem[1]) - iv)
            self._index_ok(st, p, iv, dim, f"{what} axis {ax}")
            fixed[ax] = iv
        free += axes[len(parts):]
        if free:
            scalar = False
        col = None
        if len(arr.dims) == 2 and 1 in fixed and fixed[1].is_const():
            col = int(fixed[1].c)
        if not scalar:
            if store and value is not None:
                self._store_range(st, arr, value)
            return View(arr, fixed, free)
        if store:
            if self.store_hook is not None and not self.quiet:
                self.store_hook(self, st, arr, fixed, e)
            self._store_col(st, e, arr, col, value)
            return None
        if self.load_hook is not None and not self.quiet:
            self.load_hook(self, st, arr, fixed, e)
        return self._load(st, arr, col)

    def _store_col(self, st: State, node: ast.AST, arr: Arr, col: int | None,
                   value: Any) -> None:
        spec = getattr(arr, "_spec", None) or {}
        sc = spec.get("store_cols")
        if sc is not None and col is not None and col in sc:
            lo, hi = sc[col]
            lo = self._L(lo)
            hi = self._L(hi)
            ok = isinstance(value, Lin) and (
                lo is None or entails(st.facts, value - lo)) and (
                hi is None or entails(st.facts, hi - value))
            self.ob(node, f"store {arr.name}[., {col}] = {value}", ok,
                    f"value stored into column {col} of {arr.name} must be "
                    f"in [{lo}, {hi}] (the consumers' contract)"
                    + ("" if ok else "; facts: " + "; ".join(
                        f"{f} >= 0" for f in st.facts if isinstance(
                            value, Lin) and f.syms() & value.syms())[:500]))
            return
        if sc is not None and col is not None:
            return        # other columns carry no index-relevant contract
        self._store_range(st, arr, value)

    def _L(self, x: Any) -> Lin | None:
        if x is None:
            return None
        if isinstance(x, Lin):
            return x
        if isinstance(x, int):
            return Lin.const(x)
        if isinstance(x, str):
            return self.syms.get(x, Lin.sym(x))
        if isinstance(x, tuple):
            return self._L(x[0]) + x[1]
        raise TypeError(x)

    def _load(self, st: State, arr: Arr, col: int | None = None) -> Any:
        spec0 = getattr(arr, "_spec", None) or {}
        if col is not None and "cols" in spec0:
            if col in spec0["cols"]:
                clo, chi = spec0["cols"][col]
                v = self.fresh(f"elem_{arr.name}_{col}")
                if clo is not None:
                    st.add(v - self._L(clo))
                if chi is not None:
                    st.add(self._L(chi) - v)
                return v
            return self.fresh(f"elem_{arr.name}_{col}")
        lo, hi, alo, ahi = st.rng(arr)
        if lo == "empty":
            lo = None
        if arr.perm:
            lo, hi = ZERO, arr.dims[0] - 1
        if lo is None and hi is None and alo is None:
            spec = getattr(arr, "_spec", None)
            if spec is not None and spec.get("float"):
                return UNK
            return self.fresh(f"elem_{arr.name}") if (
                spec is None or not spec.get("float")) else UNK
        v = self.fresh(f"elem_{arr.name}")
        if lo is not None:
            st.add(v - lo)
        if hi is not None:
            st.add(hi - v)
        if alo is not None or ahi is not None:
            info = getattr(self, "_abs", None)
            if info is None:
                self._abs = info = {}
            info[next(iter(v.co))] = (alo, ahi)
            if ahi is not None:
                st.add(ahi - v)
                st.add(v + ahi)
        return v

    def _store_range(self, st: State, arr: Arr, value: Any) -> None:
        arr.written = True
        lo, hi, alo, ahi = st.rng(arr)
        if lo == "empty":
            if isinstance(value, Lin):
                st.set_rng(arr, (value, value, None, None))
            else:
                st.set_rng(arr, (None, None, None, None))
            return
        spec = getattr(arr, "_spec", None)
        if spec is not None and spec.get("float"):
            return
        if not isinstance(value, Lin):
            if lo is not None or hi is not None or alo is not None:
                st.set_rng(arr, (None, None, None, None))
            return
        nlo = lo if lo is not None and entails(st.facts, value - lo) \
            else (value if lo is not None and entails(st.facts, lo - value)
                  else None)
        nhi = hi if hi is not None and entails(st.facts, hi - value) \
            else (value if hi is not None and entails(st.facts, value - hi)
                  else None)
        if getattr(arr, "_fresh_range", False):
            nlo = value if lo is None else nlo
            nhi = value if hi is None else nhi
            arr._fresh_range = False    # type: ignore[attr-defined]
        st.set_rng(arr, (nlo, nhi, None, None))

    # --------------------------------------------------------------- calls
    def call(self, st: State, e: ast.Call) -> Any:
        f = e.func
        name = None
        if isinstance(f, ast.Name):
            name = f.id
        elif isinstance(f, ast.Attribute):
            name = f.attr
        # numpy / builtins summaries
        if isinstance(f, ast.Name) and f.id in ("int", "float") and \
                len(e.args) == 1:
            v = self.ev(st, e.args[0])
            return v if f.id == "int" and isinstance(v, Lin) else (
                v if isinstance(v, Lin) else UNK)
        if isinstance(f, ast.Name) and f.id == "len" and len(e.args) == 1:
            v = self.ev(st, e.args[0])
            if isinstance(v, Arr):
                return v.dims[0]
            if isinstance(v, View) and v.free:
                return v.base.dims[v.free[0]]
            return UNK
        if isinstance(f, ast.Name) and f.id in ("min", "max") and \
                len(e.args) >= 2:
            vals = [self.ev(st, a) for a in e.args]
            if all(isinstance(v, Lin) for v in vals):
                z = self.fresh(f.id)
                for v in vals:
                    st.add((v - z) if f.id == "min" else (z - v))
                # z equals one of them: lower (upper) template bounds
                for c in self._cands():
                    if all(entails(st.facts, (v - c) if f.id == "min"
                                   else (c - v)) for v in vals):
                        st.add((z - c) if f.id == "min" else (c - z))
                return z
            return UNK
        if isinstance(f, ast.Name) and f.id in ("max", "min") and \
                len(e.args) == 1:
            v = self.ev(st, e.args[0])
            return self._reduce(st, v)
        if isinstance(f, ast.Name) and f.id == "abs" and len(e.args) == 1:
            v = self.ev(st, e.args[0])
            if isinstance(v, Lin):
                z = self.fresh("abs")
                st.add(z)
                st.add(z - v)
                st.add(z + v)
                return z
            return UNK
        if isinstance(f, ast.Name) and f.id in ("range", "enumerate"):
            for a in e.args:
                self.ev(st, a)
            return UNK
        if isinstance(f, ast.Attribute) and isinstance(
                f.value, ast.Name) and f.value.id in ("np", "numpy") and \
                f.value.id not in st.vals:
            return self._numpy(st, e, f.attr)
        if isinstance(f, ast.Attribute):
            base = self.ev(st, f.value)
            if f.attr in ("max", "min") and not e.args:
                return self._reduce(st, base)
            if f.attr == "fill" and isinstance(base, (Arr, View)) and \
                    len(e.args) == 1:
                v = self.ev(st, e.args[0])
                arr = base if isinstance(base, Arr) else base.base
                if isinstance(base, Arr) and isinstance(v, Lin):
                    st.set_rng(arr, (v, v, None, None))
                    arr.written = True
                else:
                    self._store_range(st, arr, v)
                return UNK
            if f.attr in ("sum", "mean", "copy", "flatten", "sort",
                          "argsort", "astype", "reshape", "ravel", "any",
                          "all", "tobytes"):
                for a in e.args:
                    self.ev(st, a)
                if f.attr in ("copy", "flatten") and isinstance(base, Arr):
                    return base
                return UNK
            mod = f.value.id if isinstance(f.value, ast.Name) else None
            if mod in ("np", "numpy", "math"):
                return self._numpy(st, e, f.attr)
        # repository function -> inline
        tgt = None
        if isinstance(f, ast.Name) and f.id not in st.vals:
            r = self.repo.resolve(self.cur.module, f.id)
            if isinstance(r, FuncInfo):
                tgt = r
        if tgt is not None:
            return self.inline(st, tgt, e)
        if isinstance(f, ast.Name) and f.id in self.contract.callables:
            # a kernel passed as a parameter: analyse every known callee
            res = UNK
            for cal in self.contract.callables[f.id]:
                res = self.inline(st, cal, e)
            return res
        for a in e.args:
            self.ev(st, a)
        for kw in e.keywords:
            self.ev(st, kw.value)
        if not self.quiet:
            self.notes.append(f"{self.cur.name}: call "
                              f"`{ast.unparse(f)}` treated as opaque")
        del name
        return UNK

    def _cands(self) -> list[Lin]:
        c = [ZERO, ONE, -ONE]
        for s in self.shape_syms:
            c += [Lin.sym(s), Lin.sym(s) - 1]
        for s in self.loop_syms:
            c += [Lin.sym(s), Lin.sym(s) + 1, Lin.sym(s) - 1]
        return c

    def _reduce(self, st: State, v: Any) -> Any:
        arr = v if isinstance(v, Arr) else (
            v.base if isinstance(v, View) else None)
        if arr is None:
            return UNK
        return self._load(st, arr)

    def _numpy(self, st: State, e: ast.Call, fn: str) -> Any:
        args = [self.ev(st, a) for a in e.args]
        for kw in e.keywords:
            self.ev(st, kw.value)
        if fn == "argsort" and args and isinstance(args[0], Arr):
            a = Arr(f"argsort({args[0].name})", [args[0].dims[0]])
            a.perm = True
            return a
        if fn in ("ones", "zeros", "empty") and args:
            size = args[0]
            if isinstance(size, Lin):
                a = Arr(f"np.{fn}", [size])
                a._spec = {"float": True}   # type: ignore[attr-defined]
                return a
            if isinstance(size, tuple) and size[0] == "tuple" and all(
                    isinstance(x, Lin) for x in size[1]):
                a = Arr(f"np.{fn}", list(size[1]))
                a._spec = {"float": True}   # type: ignore[attr-defined]
                return a
            return UNK
        if fn == "reshape" and len(args) == 2 and isinstance(
                args[0], Arr) and isinstance(args[1], tuple) and all(
                isinstance(x, Lin) for x in args[1][1]):
            src = args[0]
            a = Arr(f"reshape({src.name})", list(args[1][1]))
            a._spec = getattr(src, "_spec", None)  # type: ignore
            # the product of the new dims must equal the old size
            return a
        return UNK

    def inline(self, st: State, callee: FuncInfo, e: ast.Call) -> Any:
        if callee in self.call_stack or len(self.call_stack) > 5:
            for a in e.args:
                self.ev(st, a)
            return UNK
        args = [self.ev(st, a) for a in e.args]
        saved_vals = st.vals
        saved_cur = self.cur
        st.vals = {}
        for p, a in zip(callee.params, args):
            st.vals[p] = a
        self.call_stack.append(callee)
        self.cur = callee
        self._returns: list[Any] = []
        try:
            outs = self.block([st], func_body(callee))
        finally:
            self.call_stack.pop()
            self.cur = saved_cur
        rets = self._returns
        # merge the callee's exit states back into `st` (facts only)
        alive = [s for s in outs if not s.dead] + [
            s for s, _ in rets if not s.dead]
        # a `return` of the callee ends the callee, not the caller: the
        # caller goes on iff some exit of the callee is reachable
        st.dead = not alive
        if alive:
            common = [f for f in alive[0].facts
                      if all(f in s.facts for s in alive[1:])]
            st.facts = common
            rng0 = alive[0].ranges
            st.ranges = {k: v for k, v in rng0.items()
                         if all(s.ranges.get(k) == v for s in alive[1:])}
            for s in alive[1:]:
                for k in s.ranges:
                    if k not in st.ranges:
                        st.ranges[k] = (None, None, None, None)
            for k in rng0:
                if k not in st.ranges:
                    st.ranges[k] = (None, None, None, None)
        st.vals = saved_vals
        vals = [v for _, v in rets]
        if vals and all(isinstance(v, Lin) for v in vals) and all(
                v == vals[0] for v in vals):
            return vals[0]
        if vals and all(isinstance(v, (Arr, View)) for v in vals) and all(
                v is vals[0] for v in vals):
            return vals[0]
        return UNK

    # ---------------------------------------------------------- conditions
    def assume(self, st: State, cond: ast.expr, truth: bool) -> State:
        """Refine `st` in place with the outcome of a condition."""
        if st.dead:
            return st
        if isinstance(cond, ast.UnaryOp) and isinstance(cond.op, ast.Not):
            return self.assume(st, cond.operand, not truth)
        if isinstance(cond, ast.BoolOp):
            is_and = isinstance(cond.op, ast.And)
            if is_and == truth:
                # all operands have outcome `truth`
                for v in cond.values:
                    self.assume(st, v, truth)
            # otherwise a disjunction of outcomes: no refinement (sound)
            return st
        if isinstance(cond, ast.Name) and cond.id in st.conds:
            # a flag that holds the outcome of an earlier comparison whose
            # variables still have the values they had then
            expr, snap = st.conds[cond.id]
            if all(isinstance(v, Lin) and st.vals.get(k) == v
                   for k, v in snap.items()):
                return self.assume(st, expr, truth)
            return st
        if isinstance(cond, ast.Compare):
            left = cond.left
            q = self.quiet
            self.quiet += 1
            try:
                vals = [self.ev(st, left)] + [
                    self.ev(st, c) for c in cond.comparators]
            finally:
                self.quiet = q
            if len(cond.ops) > 1 and not truth:
                return st
            for (a, op, b) in zip(vals, cond.ops, vals[1:]):
                if isinstance(a, Lin) and isinstance(b, Lin):
                    self._assume_cmp(st, a, op, b, truth)
            return st
        return st

    def _assume_cmp(self, st: State, a: Lin, op: ast.cmpop, b: Lin,
                    truth: bool) -> None:
        kinds = {ast.Lt: "lt", ast.LtE: "le", ast.Gt: "gt", ast.GtE: "ge",
                 ast.Eq: "eq", ast.NotEq: "ne"}
        k = kinds.get(type(op))
        if k is None:
            return
        if not truth:
            k = {"lt": "ge", "le": "gt", "gt": "le", "ge": "lt",
                 "eq": "ne", "ne": "eq"}[k]
        d = b - a
        if k == "lt":
            st.add(d - 1)
        elif k == "le":
            st.add(d)
        elif k == "gt":
            st.add(-d - 1)
        elif k == "ge":
            st.add(-d)
        elif k == "eq":
            st.add(d)
            st.add(-d)
        elif k == "ne":
            # integer: if one side of the disequality is already excluded
            if entails(st.facts, d):
                st.add(d - 1)
            elif entails(st.facts, -d):
                st.add(-d - 1)
            else:
                st.ne.append(d)
        # pending disequalities may now be decided on one side
        if k != "ne" and st.ne:
            for dd in list(st.ne):
                if entails(st.facts, dd):
                    st.add(dd - 1)
                    st.ne.remove(dd)
                elif entails(st.facts, -dd):
                    st.add(-dd - 1)
                    st.ne.remove(dd)
        # abs-range refinement: once the sign of a signed id is known
        for v in (a, b):
            info = getattr(self, "_abs", {})
            for s in v.co:
                if s in info:
                    alo, ahi = info[s]
                    x = Lin.sym(s)
                    if alo is not None:
                        if entails(st.facts, x - 1) or entails(
                                st.facts, x) and self._nonzero(st, x):
                            st.add(x - alo)
                        if entails(st.facts, -x - 1) or entails(
                                st.facts, -x) and self._nonzero(st, x):
                            st.add(-x - alo)

    def _nonzero(self, st: State, x: Lin) -> bool:
        return any(d == x or d == -x for d in st.ne)

    # ---------------------------------------------------------- statements
    def block(self, states: list[State], stmts: list[ast.stmt]) \
            -> list[State]:
        for s in stmts:
            states = [x for x in states if not x.dead]
            if not states:
                break
            states = self.stmt(states, s)
            states = self._merge_equal(states)
        return states

    @staticmethod
    def _merge_equal(states: list[State]) -> list[State]:
        out: list[State] = []
        for s in states:
            if s.dead:
                continue
            for o in out:
                if o.vals == s.vals and o.ranges == s.ranges:
                    o.facts = [f for f in o.facts if f in s.facts]
                    o.ne = [d for d in o.ne if d in s.ne]
                    break
            else:
                out.append(s)
        return out

    def stmt(self, states: list[State], s: ast.stmt) -> list[State]:
        if isinstance(s, (ast.Assign, ast.AnnAssign)):
            if getattr(s, "value", None) is None:
                return states
            if isinstance(s.value, ast.IfExp):
                tg = s.targets if isinstance(s, ast.Assign) else [s.target]
                mk = lambda v: ast.copy_location(  # noqa: E731
                    ast.Assign(targets=tg, value=v), s)
                split = ast.copy_location(ast.If(
                    test=s.value.test, body=[mk(s.value.body)],
                    orelse=[mk(s.value.orelse)]), s)
                return self.stmt(states, split)
            for st in states:
                self._assign(st, s)
            return states
        if isinstance(s, ast.AugAssign):
            for st in states:
                tgt_load = ast.copy_location(_as_load(s.target), s.target)
                val = self.ev(st, ast.BinOp(left=tgt_load, op=s.op,
                                            right=s.value))
                self._bind(st, s.target, val, s)
            return states
        if isinstance(s, ast.Expr):
            for st in states:
                self.ev(st, s.value)
            return states
        if isinstance(s, ast.If):
            out: list[State] = []
            for st in states:
                self.ev(st, s.test)
                t = self.assume(st.copy(), s.test, True)
                f = self.assume(st.copy(), s.test, False)
                if self.infeasible is not None:
                    verdict = self.infeasible(self, s, t)
                    if verdict == "else":
                        f.dead = True     # the test cannot fail here
                    elif verdict:
                        t.dead = True
                for br, body in ((t, s.body), (f, s.orelse)):
                    if br.dead:
                        continue
                    new = [x for x in br.facts if x not in st.facts]
                    if new:
                        from sa.lin import cone as _cone
                        probe = Lin()
                        for x in new:
                            probe = probe + Lin(
                                {k_: 1 for k_ in x.co})
                        if not consistent(_cone(br.facts, probe)):
                            continue
                    out += self.block([br], body)
            return out
        if isinstance(s, ast.For):
            return self.for_loop(states, s)
        if isinstance(s, ast.While):
            return self.while_loop(states, s)
        if isinstance(s, ast.Return):
            for st in states:
                v = self.ev(st, s.value) if s.value is not None else UNK
                if hasattr(self, "_returns"):
                    self._returns.append((st.copy(), v))
                st.dead = True
            return []
        if isinstance(s, ast.Break):
            self._breaks[-1] += [x.copy() for x in states]
            return []
        if isinstance(s, ast.Continue):
            self._continues[-1] += [x.copy() for x in states]
            return []
        if isinstance(s, (ast.Pass, ast.Raise)):
            return [] if isinstance(s, ast.Raise) else states
        return states

    def _assign(self, st: State, s: ast.Assign | ast.AnnAssign) -> None:
        targets = s.targets if isinstance(s, ast.Assign) else [s.target]
        val = self.ev(st, s.value)
        for t in targets:
            self._bind(st, t, val, s)

    def _bind(self, st: State, t: ast.expr, val: Any, s: ast.stmt) -> None:
        if isinstance(t, ast.Name):
            rel = relevant_names(self.repo, self.cur, self._all_index_arrays(),
                                 self._rel_memo)
            if t.id not in rel and isinstance(val, Lin):
                val = UNK
            st.vals[t.id] = val if val is not None else UNK
            st.conds.pop(t.id, None)
            sv = getattr(s, "value", None)
            if isinstance(s, (ast.Assign, ast.AnnAssign)) and isinstance(
                    sv, (ast.Compare, ast.BoolOp, ast.UnaryOp)) and not any(
                    isinstance(x, (ast.Subscript, ast.Call, ast.Attribute))
                    for x in ast.walk(sv)):
                nm = {x.id for x in ast.walk(sv) if isinstance(x, ast.Name)}
                if t.id not in nm:
                    st.conds[t.id] = (sv, {k: st.vals.get(k) for k in nm})
            lem = getattr(self.contract, "var_lemmas", {}).get(
                (self.cur.name, t.id))
            if lem is not None:
                if not isinstance(val, Lin):
                    val = self.fresh(t.id)
                    st.vals[t.id] = val
                lo, hi = lem
                if lo is not None:
                    st.add(val - self._L(lo))
                if hi is not None:
                    st.add(self._L(hi) - val)
        elif isinstance(t, ast.Tuple):
            if isinstance(val, tuple) and val and val[0] == "tuple" and \
                    len(val[1]) == len(t.elts):
                for tt, v in zip(t.elts, val[1]):
                    self._bind(st, tt, v, s)
            else:
                for tt in t.elts:
                    self._bind(st, tt, UNK, s)
        elif isinstance(t, ast.Subscript):
            self.subscript(st, t, store=True, value=val)
        del s

    # --------------------------------------------------------------- loops
    _breaks: list[list[State]] = []
    _continues: list[list[State]] = []

    def _carried(self, body: list[ast.stmt]) -> list[str]:
        out = []
        for n in ast.walk(ast.Module(body=body, type_ignores=[])):
            if isinstance(n, ast.Name) and isinstance(n.ctx, ast.Store) \
                    and n.id not in out:
                out.append(n.id)
        return out

    def _iter_space(self, st: State, s: ast.For) \
            -> tuple[Lin | None, Lin | None, dict[str, Any]] | None:
        """(lo, hi, bindings at index symbol k)."""
        it = s.iter
        k = self.fresh("k")
        ksym = next(iter(k.co))
        binds: dict[str, Any] = {}
        if isinstance(it, ast.Call) and isinstance(it.func, ast.Name) and \
                it.func.id == "range":
            a = [self.ev(st, x) for x in it.args]
            if len(a) == 3 and all(isinstance(x, Lin) for x in a) and \
                    a[2].is_const() and a[2].c == -1:
                # range(a, b, -1) visits a, a-1, .., b+1: the round number
                # k runs over [0, a - b) and the target is a - k
                if isinstance(s.target, ast.Name):
                    binds[s.target.id] = a[0] - k
                return ZERO, a[0] - a[1], {"k": k, "ksym": ksym,
                                           "binds": binds}
            if len(a) == 3 and all(isinstance(x, Lin) for x in a) and \
                    a[2].is_const() and a[2].c == 1:
                a = a[:2]
            if not all(isinstance(x, Lin) for x in a) or len(a) > 2:
                return None
            lo, hi = (ZERO, a[0]) if len(a) == 1 else (a[0], a[1])
            if isinstance(s.target, ast.Name):
                binds[s.target.id] = k
            return lo, hi, {"k": k, "ksym": ksym, "binds": binds}
        src = None
        tgt_i = tgt_v = None
        if isinstance(it, ast.Call) and isinstance(it.func, ast.Name) and \
                it.func.id == "enumerate" and len(it.args) == 1 and \
                isinstance(s.target, ast.Tuple) and len(
                s.target.elts) == 2:
            src = self.ev(st, it.args[0])
            tgt_i, tgt_v = s.target.elts
        elif isinstance(s.target, ast.Name):
            src = self.ev(st, it)
            tgt_v = s.target
        if isinstance(src, Arr):
            arr, fixed, free = src, {}, list(range(len(src.dims)))
        elif isinstance(src, View):
            arr, fixed, free = src.base, dict(src.fixed), list(src.free)
        else:
            return None
        hi = arr.dims[free[0]]
        if isinstance(tgt_i, ast.Name):
            binds[tgt_i.id] = k
        if isinstance(tgt_v, ast.Name):
            if len(free) == 1:
                binds[tgt_v.id] = ("elem", arr)
            else:
                fx = dict(fixed)
                fx[free[0]] = k
                binds[tgt_v.id] = View(arr, fx, free[1:])
        return ZERO, hi, {"k": k, "ksym": ksym, "binds": binds}

    def _dead_at_head(self, s: ast.For | ast.While) -> set[str]:
        """Names assigned in the loop body before any read of them in the
        body, and never read outside the loop: their value at the loop head
        is irrelevant."""
        key = ("dead", id(s))
        memo = self._rel_memo
        if key in memo:
            return memo[key]
        exposed = _upward_exposed(s.body)
        if isinstance(s, ast.While):
            exposed |= {n.id for n in ast.walk(s.test)
                        if isinstance(n, ast.Name)}
        assigned = set(self._carried(s.body))
        inside = {id(n) for n in ast.walk(s)}
        outside_reads = {n.id for n in ast.walk(self.cur.node)
                         if isinstance(n, ast.Name) and isinstance(
                             n.ctx, ast.Load) and id(n) not in inside}
        dead = {v for v in assigned
                if v not in exposed and v not in outside_reads}
        memo[key] = dead
        return dead

    def for_loop(self, states: list[State], s: ast.For) -> list[State]:
        if isinstance(s.iter, (ast.Tuple, ast.List)) and isinstance(
                s.target, ast.Name) and not s.orelse and len(
                s.iter.elts) <= 8 and not any(
                isinstance(x, (ast.Break, ast.Continue))
                for b in s.body for x in ast.walk(b)):
            # a loop over a short literal list: one pass per entry
            cur = states
            for e in s.iter.elts:
                for st in cur:
                    self._bind(st, s.target, self.ev(st, e), s)
                cur = self.block(cur, s.body)
            return cur
        dead = self._dead_at_head(s)
        if dead:
            for st in states:
                for v in dead:
                    if v in st.vals:
                        st.vals[v] = UNK
            states = self._merge_equal(states)
        out: list[State] = []
        for st in states:
            out += self._for_one(st, s)
        return out

    def _for_one(self, st: State, s: ast.For) -> list[State]:
        sp = self._iter_space(st, s)
        if sp is None:
            self.ev(st, s.iter)
            if not self.quiet:
                self.notes.append(f"{self.cur.name}: loop at line "
                                  f"{s.lineno} has an untracked iteration "
                                  "space; body analysed with unknown target")
            lo = hi = None
            info = {"k": self.fresh("k"), "binds": {
                t.id: UNK for t in ast.walk(s.target)
                if isinstance(t, ast.Name)}}
            info["ksym"] = next(iter(info["k"].co))
        else:
            lo, hi, info = sp
        entry = [st]
        if self.peel and lo is not None and hi is not None and \
                not self.loop_syms and not self.call_stack:
            # peel the first iteration: analyse the body with k = lo
            pst = st.copy()
            if entails(pst.facts, hi - lo - 1) or True:
                first = pst.copy()
                first.add(hi - lo - 1)
                if consistent(first.facts):
                    # the peeled iteration gets its own index symbol
                    sp0 = self._iter_space(first, s)
                    info0 = sp0[2] if sp0 is not None else info
                    ends = self._body_once(first, s, lo, hi, info0,
                                           k_value=lo)
                    entry = []
                    for e_ in ends[0] + ends[2]:
                        entry.append(e_)
                    brk = ends[1]
                    # loop continues from lo+1
                    res: list[State] = list(brk)
                    skip = st.copy()
                    skip.add(lo - hi)          # zero iterations
                    if consistent(skip.facts):
                        res.append(skip)
                    dead = self._dead_at_head(s)
                    for e_ in entry:
                        for v in dead:
                            if v in e_.vals:
                                e_.vals[v] = UNK
                    entry = self._merge_equal(entry)
                    for e_ in entry:
                        res += self._loop_from(e_, s, lo + 1, hi, info)
                    return self._after_loop(res, s)
        res = []
        for e_ in entry:
            res += self._loop_from(e_, s, lo, hi, info)
        return self._after_loop(res, s)

    def _after_loop(self, res: list[State], s: ast.AST) -> list[State]:
        del s
        return self._merge_equal([r for r in res if not r.dead])

    def _body_once(self, st: State, s: ast.For | ast.While, lo: Any, hi: Any,
                   info: dict[str, Any], k_value: Lin | None = None) \
            -> tuple[list[State], list[State], list[State]]:
        """Run the loop body once from `st`; (normal, break, continue)."""
        b = st.copy()
        k = info["k"]
        if k_value is not None:
            b.add(k - k_value)
            b.add(k_value - k)
        elif lo is not None:
            b.add(k - lo)
            b.add(hi - 1 - k)
        for nm, v in info["binds"].items():
            if isinstance(v, tuple) and v and v[0] == "elem":
                b.vals[nm] = self._load(b, v[1])
            else:
                b.vals[nm] = v
        from sa.lin import cone as _cone
        if lo is not None and not consistent(_cone(b.facts, k)):
            # the loop body cannot be entered from this state
            return [], [], []
        self._breaks.append([])
        self._continues.append([])
        self.loop_syms.append(info["ksym"])
        try:
            ends = self.block([b], s.body)
        finally:
            brk = self._breaks.pop()
            cont = self._continues.pop()
            self.loop_syms.pop()
        return ends, brk, cont

    def _loop_from(self, st: State, s: ast.For, lo: Any, hi: Any,
                   info: dict[str, Any]) -> list[State]:
        """Houdini invariants for iterations k in [lo, hi)."""
        carried = [c for c in self._carried(s.body)
                   if isinstance(st.vals.get(c), Lin)
                   and c not in info["binds"]]
        k = info["k"]
        arrays = [a for a in set(
            v for v in st.vals.values() if isinstance(v, Arr))]
        ranged = [a for a in arrays if st.rng(a)[0] is not None
                  or st.rng(a)[1] is not None]
        if not carried and not ranged:
            inv = {"sym": {}, "facts": [], "ranges": {}}
        elif self.quiet:
            # inside the invariant inference of an enclosing loop: havoc
            # (sound, merely less precise)
            inv = self._houdini(st, s, lo, hi, info, carried, arrays,
                                scalars=False)
        else:
            inv = self._houdini(st, s, lo, hi, info, carried, arrays)
        # final analysis of the body with the surviving invariants,
        # recording obligations
        head = self._head_state(st, carried, arrays, inv, k, lo, hi,
                                at_entry=False)
        ends, brk, cont = self._body_once(head, s, lo, hi, info)
        # after the loop: invariants with k := k_exit in [lo, hi]
        after = self._head_state(st, carried, arrays, inv, k, lo, hi,
                                 at_entry=False, exit_state=True)
        del ends, cont
        return self._bind_after(st, after, s, lo, hi, info) + brk

    def _read_after(self, s: ast.For) -> set[str]:
        """Loop-target names read outside every loop that binds them."""
        memo = self.__dict__.setdefault("_read_after_memo", {})
        key = id(s)
        if key in memo:
            return memo[key]
        tg = {t.id for t in ast.walk(s.target) if isinstance(t, ast.Name)}
        covered: set[int] = set()
        for n in ast.walk(self.cur.node):
            if isinstance(n, ast.For):
                tn = {t.id for t in ast.walk(n.target)
                      if isinstance(t, ast.Name)}
                if tn & tg:
                    for b in n.body:
                        for m in ast.walk(b):
                            if isinstance(m, ast.Name) and m.id in tn:
                                covered.add(id(m))
        out = {n.id for n in ast.walk(self.cur.node)
               if isinstance(n, ast.Name) and isinstance(n.ctx, ast.Load)
               and n.id in tg and id(n) not in covered}
        memo[key] = out
        return out

    def _bind_after(self, st: State, after: State, s: ast.For, lo: Any,
                    hi: Any, info: dict[str, Any]) -> list[State]:
        """The loop target keeps its last value after normal exhaustion."""
        if lo is None or hi is None:
            return [after]
        live = self._read_after(s)
        if not live:
            return [after]
        ks = info["ksym"]
        out: list[State] = []
        some = after.copy()
        some.add(hi - lo - 1)
        if consistent(some.facts):
            for nm, v in info["binds"].items():
                if nm in live:
                    some.vals[nm] = v.subst({ks: hi - 1}) if isinstance(
                        v, Lin) else UNK
            out.append(some)
        if not entails(after.facts, hi - lo - 1):
            none = after.copy()
            none.add(lo - hi)
            if consistent(none.facts):
                for nm in info["binds"]:
                    if nm in live:
                        none.vals[nm] = st.vals.get(nm, UNK)
                out.append(none)
        return out or [after]

    def _havoc(self, st: State, carried: list[str], arrays: list[Arr],
               body: list[ast.stmt], test: ast.expr | None = None) \
            -> dict[str, Any]:
        written = self._arrays_written(st, body)
        if test is not None:
            written |= self._arrays_written_expr(st, test)
        hs = {c: self.fresh(c) for c in carried}
        self._note_summarised(hs)
        return {"sym": hs, "facts": [],
                "ranges": {id(a): (None, None, None, None)
                           for a in arrays if a in written}}

    def _head_state(self, st: State, carried: list[str], arrays: list[Arr],
                    inv: dict[str, Any], k: Lin, lo: Any, hi: Any,
                    at_entry: bool, exit_state: bool = False) -> State:
        del at_entry
        h = st.copy()
        for c in carried:
            h.vals[c] = inv["sym"][c]
        if exit_state and lo is not None:
            h.add(k - lo)
            h.add(hi - k) if entails(st.facts, hi - lo) else None
        for f in inv["facts"]:
            h.add(f)
        for a in arrays:
            if id(a) in inv["ranges"]:
                h.set_rng(a, inv["ranges"][id(a)])
        return h

    def _houdini(self, st: State, s: ast.For | ast.While, lo: Any, hi: Any,
                 info: dict[str, Any], carried: list[str],
                 arrays: list[Arr], scalars: bool = True) -> dict[str, Any]:
        k = info["k"]
        sym = {c: self.fresh(c) for c in carried}
        self._note_summarised(sym)
        init = {c: st.vals[c] for c in carried}
        # ---- candidate scalar invariants: list of (Lin over sym/k) >= 0
        cands: list[Lin] = []
        bases = [ZERO, ONE, -ONE]
        for sname in self._dim_syms():
            bases += [Lin.sym(sname), Lin.sym(sname) - 1]
        for ls in self.loop_syms:
            bases += [Lin.sym(ls), Lin.sym(ls) - 1, Lin.sym(ls) + 1]
        for c in carried:
            x = sym[c]
            i0 = init[c]
            for b in bases + [i0]:
                cands += [x - b, b - x]
            if lo is not None:
                for off in (-1, 0, 1):
                    cands += [x - k - off, k + off - x]
                # x <= init + (k - lo)   /  x >= init - (k - lo)
                cands += [i0 + (k - lo) - x, x - i0 + (k - lo)]
            for c2 in carried:
                if c2 != c:
                    cands += [x - sym[c2], sym[c2] - x]
        # must hold on entry (k = lo, carried = init)
        m_entry = {next(iter(sym[c].co)): init[c] for c in carried}
        if lo is not None:
            m_entry[info["ksym"]] = lo
        if not scalars:
            cands = []
        cands = [c for c in dict.fromkeys(cands)
                 if entails(st.facts, c.subst(m_entry))]
        # ---- candidate element ranges for arrays written in the loop
        written = self._arrays_written(st, s.body)
        rng_c: dict[int, list[tuple[str, Lin]]] = {}
        for a in arrays:
            if a not in written:
                continue
            lo0, hi0, _, _ = st.rng(a)
            cl: list[tuple[str, Lin]] = []
            for b in bases + ([k, k - 1, k + 1] if lo is not None else []):
                cl += [("lo", b), ("hi", b)]
            keep = []
            if lo0 == "empty":
                keep = list(cl)      # no cell written yet: all bounds hold
                cl = []
            for kind, b in cl:
                be = b.subst(m_entry)
                if kind == "lo" and lo0 is not None and entails(
                        st.facts, lo0 - be):
                    keep.append((kind, b))
                if kind == "hi" and hi0 is not None and entails(
                        st.facts, be - hi0):
                    keep.append((kind, b))
            rng_c[id(a)] = keep
        self.quiet += 1
        try:
            for _round in range(12):
                head = st.copy()
                for c in carried:
                    head.vals[c] = sym[c]
                for f in cands:
                    head.add(f)
                if lo is not None:
                    head.add(k - lo)
                    head.add(hi - 1 - k)
                for a in arrays:
                    if id(a) in rng_c:
                        head.set_rng(a, self._range_from(head, rng_c[id(a)]))
                ends, brk, cont = self._body_once(head, s, lo, hi, info)
                del brk
                ends = [e for e in ends + cont if not e.dead]
                changed = False
                nxt = {info["ksym"]: k + 1} if lo is not None else {}
                keep_c = []
                for f in cands:
                    ok = True
                    for e_ in ends:
                        m = dict(nxt)
                        good = True
                        for c in carried:
                            v = e_.vals.get(c)
                            cs = next(iter(sym[c].co))
                            if not isinstance(v, Lin):
                                if cs in f.co:
                                    good = False
                                    break
                                continue
                            m[cs] = v
                        if not good or not entails(e_.facts, f.subst(m)):
                            ok = False
                            break
                    if ok:
                        keep_c.append(f)
                    else:
                        changed = True
                cands = keep_c
                for a in arrays:
                    if id(a) not in rng_c:
                        continue
                    keep = []
                    for kind, b in rng_c[id(a)]:
                        ok = True
                        for e_ in ends:
                            r = e_.rng(a)
                            m = dict(nxt)
                            for c in carried:
                                v = e_.vals.get(c)
                                if isinstance(v, Lin):
                                    m[next(iter(sym[c].co))] = v
                            bb = b.subst(m)
                            if r[0] == "empty":
                                continue
                            if kind == "lo":
                                if r[0] is None or not entails(
                                        e_.facts, r[0] - bb):
                                    ok = False
                            else:
                                if r[1] is None or not entails(
                                        e_.facts, bb - r[1]):
                                    ok = False
                            if not ok:
                                break
                        if ok:
                            keep.append((kind, b))
                        else:
                            changed = True
                    rng_c[id(a)] = keep
                if not changed:
                    break
        finally:
            self.quiet -= 1
        final = st.copy()
        for f in cands:
            final.add(f)
        if lo is not None:
            final.add(k - lo)
            final.add(hi - 1 - k)
        ranges = {aid: self._range_from(final, cl)
                  for aid, cl in rng_c.items()}
        return {"sym": sym, "facts": cands, "ranges": ranges}

    def _range_from(self, st: State, cl: list[tuple[str, Lin]]) -> tuple:
        """Tightest lo / hi among candidate bounds (by entailment)."""
        los = [b for kind, b in cl if kind == "lo"]
        his = [b for kind, b in cl if kind == "hi"]
        lo = None
        for b in los:
            if lo is None or entails(st.facts, b - lo):
                lo = b
        hi = None
        for b in his:
            if hi is None or entails(st.facts, hi - b):
                hi = b
        return (lo, hi, None, None)

    def _arrays_written(self, st: State, body: list[ast.stmt]) -> set[Arr]:
        out: set[Arr] = set()
        for n in ast.walk(ast.Module(body=body, type_ignores=[])):
            tgt = None
            if isinstance(n, (ast.Assign, ast.AugAssign)):
                for t in (n.targets if isinstance(n, ast.Assign)
                          else [n.target]):
                    if isinstance(t, ast.Subscript):
                        tgt = t.value
            if isinstance(n, ast.Call) and isinstance(
                    n.func, ast.Attribute) and n.func.attr == "fill":
                tgt = n.func.value
            while isinstance(tgt, ast.Subscript):
                tgt = tgt.value
            if isinstance(tgt, ast.Name):
                v = st.vals.get(tgt.id)
                if isinstance(v, Arr):
                    out.add(v)
                elif isinstance(v, View):
                    out.add(v.base)
        # arrays written by inlined callees: conservatively every array
        # passed to a repository function
        for n in ast.walk(ast.Module(body=body, type_ignores=[])):
            if isinstance(n, ast.Call) and isinstance(n.func, ast.Name):
                r = self.repo.resolve(self.cur.module, n.func.id)
                if isinstance(r, FuncInfo):
                    for a in n.args:
                        if isinstance(a, ast.Name):
                            v = st.vals.get(a.id)
                            if isinstance(v, Arr) and _writes_param(
                                    r, n.args.index(a)):
                                out.add(v)
        return out

    def while_loop(self, states: list[State], s: ast.While) -> list[State]:
        out: list[State] = []
        for st in states:
            carried = [c for c in self._carried(s.body)
                       if isinstance(st.vals.get(c), Lin)]
            arrays = list({v for v in st.vals.values()
                           if isinstance(v, Arr)})
            info = {"k": self.fresh("w"), "binds": {}}
            info["ksym"] = next(iter(info["k"].co))
            wrapper = _WhileBody(s)
            ranged = [a for a in arrays if st.rng(a)[0] is not None
                      or st.rng(a)[1] is not None]
            if not carried and not ranged:
                inv = {"sym": {}, "facts": [], "ranges": {}}
            elif self.quiet:
                inv = self._houdini_while(st, s, wrapper, info, carried,
                                          arrays, scalars=False)
            else:
                inv = self._houdini_while(st, s, wrapper, info, carried,
                                          arrays)
            head = self._head_state(st, carried, arrays, inv, info["k"],
                                    None, None, at_entry=False)
            # evaluate the test at the head (records obligations of calls)
            self.ev(head, s.test)
            body_in = self.assume(head.copy(), s.test, True)
            ends, brk, cont = self._body_once_while(body_in, s, info)
            del ends, cont
            after = self.assume(head.copy(), s.test, False)
            out += [after] + brk
        return self._after_loop(out, s)

    def _body_once_while(self, st: State, s: ast.While,
                         info: dict[str, Any]) \
            -> tuple[list[State], list[State], list[State]]:
        self._breaks.append([])
        self._continues.append([])
        try:
            ends = self.block([st], s.body)
        finally:
            brk = self._breaks.pop()
            cont = self._continues.pop()
        del info
        return ends, brk, cont

    def _houdini_while(self, st: State, s: ast.While, wrapper: Any,
                       info: dict[str, Any], carried: list[str],
                       arrays: list[Arr], scalars: bool = True) \
            -> dict[str, Any]:
        del wrapper
        sym = {c: self.fresh(c) for c in carried}
        init = {c: st.vals[c] for c in carried}
        bases = [ZERO, ONE, -ONE]
        for sname in self._dim_syms():
            bases += [Lin.sym(sname), Lin.sym(sname) - 1]
        for ls in self.loop_syms:
            bases += [Lin.sym(ls), Lin.sym(ls) - 1, Lin.sym(ls) + 1]
        cands: list[Lin] = []
        for c in carried:
            x = sym[c]
            for b in bases + [init[c]]:
                cands += [x - b, b - x]
            for c2 in carried:
                if c2 != c:
                    cands += [x - sym[c2], sym[c2] - x]
        m_entry = {next(iter(sym[c].co)): init[c] for c in carried}
        if not scalars:
            cands = []
        cands = [c for c in dict.fromkeys(cands)
                 if entails(st.facts, c.subst(m_entry))]
        written = self._arrays_written(st, s.body) | \
            self._arrays_written_expr(st, s.test)
        rng_c: dict[int, list[tuple[str, Lin]]] = {}
        for a in arrays:
            if a not in written:
                continue
            lo0, hi0, _, _ = st.rng(a)
            keep = []
            for b in bases:
                if lo0 == "empty":
                    keep += [("lo", b), ("hi", b)]
                    continue
                if lo0 is not None and entails(st.facts, lo0 - b):
                    keep.append(("lo", b))
                if hi0 is not None and entails(st.facts, b - hi0):
                    keep.append(("hi", b))
            rng_c[id(a)] = keep
        self.quiet += 1
        try:
            for _round in range(12):
                head = st.copy()
                for c in carried:
                    head.vals[c] = sym[c]
                for f in cands:
                    head.add(f)
                for a in arrays:
                    if id(a) in rng_c:
                        head.set_rng(a, self._range_from(head, rng_c[id(a)]))
                self.ev(head, s.test)
                body_in = self.assume(head.copy(), s.test, True)
                ends, brk, cont = self._body_once_while(body_in, s, info)
                del brk
                ends = [e for e in ends + cont if not e.dead]
                changed = False
                keep_c = []
                for f in cands:
                    ok = True
                    for e_ in ends:
                        m = {}
                        for c in carried:
                            v = e_.vals.get(c)
                            if not isinstance(v, Lin):
                                ok = False
                                break
                            m[next(iter(sym[c].co))] = v
                        if not ok or not entails(e_.facts, f.subst(m)):
                            ok = False
                            break
                    if ok:
                        keep_c.append(f)
                    else:
                        changed = True
                cands = keep_c
                for a in arrays:
                    if id(a) not in rng_c:
                        continue
                    keep = []
                    for kind, b in rng_c[id(a)]:
                        ok = True
                        for e_ in ends + [head]:
                            r = e_.rng(a)
                            if r[0] == "empty":
                                continue
                            if kind == "lo" and (r[0] is None or not entails(
                                    e_.facts, r[0] - b)):
                                ok = False
                            if kind == "hi" and (r[1] is None or not entails(
                                    e_.facts, b - r[1])):
                                ok = False
                        if ok:
                            keep.append((kind, b))
                        else:
                            changed = True
                    rng_c[id(a)] = keep
                if not changed:
                    break
        finally:
            self.quiet -= 1
        final = st.copy()
        for f in cands:
            final.add(f)
        ranges = {aid: self._range_from(final, cl)
                  for aid, cl in rng_c.items()}
        return {"sym": sym, "facts": cands, "ranges": ranges}

    def _arrays_written_expr(self, st: State, e: ast.expr) -> set[Arr]:
        out: set[Arr] = set()
        for n in ast.walk(e):
            if isinstance(n, ast.Call) and isinstance(n.func, ast.Name):
                r = self.repo.resolve(self.cur.module, n.func.id)
                if isinstance(r, FuncInfo):
                    for i, a in enumerate(n.args):
                        if isinstance(a, ast.Name):
                            v = st.vals.get(a.id)
                            if isinstance(v, Arr) and _writes_param(r, i):
                                out.add(v)
        return out


def _upward_exposed(body: list[ast.stmt]) -> set[str]:
    """Names that may be read in `body` before being (definitely) written
    in the same pass through the body."""
    exposed: set[str] = set()

    def reads(e: ast.AST | None) -> set[str]:
        return {n.id for n in ast.walk(e) if isinstance(n, ast.Name)
                and isinstance(n.ctx, ast.Load)} if e is not None else set()

    def block(stmts: list[ast.stmt], defined: set[str]) -> set[str]:
        d = set(defined)
        for s in stmts:
            d = stmt(s, d)
        return d

    def stmt(s: ast.stmt, d: set[str]) -> set[str]:
        nonlocal exposed
        if isinstance(s, (ast.Assign, ast.AnnAssign)):
            exposed |= reads(getattr(s, "value", None)) - d
            for t in (s.targets if isinstance(s, ast.Assign)
                      else [s.target]):
                if isinstance(t, ast.Name):
                    if getattr(s, "value", None) is not None:
                        d = d | {t.id}
                elif isinstance(t, ast.Tuple) and all(
                        isinstance(x, ast.Name) for x in t.elts):
                    d = d | {x.id for x in t.elts}
                else:
                    exposed |= reads(t) - d
            return d
        if isinstance(s, ast.AugAssign):
            exposed |= (reads(s.value) | reads(s.target) | (
                {s.target.id} if isinstance(s.target, ast.Name)
                else set())) - d
            return d
        if isinstance(s, ast.If):
            exposed |= reads(s.test) - d
            a = block(s.body, d)
            b = block(s.orelse, d)
            return a & b
        if isinstance(s, ast.For):
            exposed |= reads(s.iter) - d
            tg = {n.id for n in ast.walk(s.target)
                  if isinstance(n, ast.Name)}
            block(s.body, d | tg)
            return d
        if isinstance(s, ast.While):
            exposed |= reads(s.test) - d
            block(s.body, d)
            return d
        exposed |= reads(s) - d
        return d

    block(body, set())
    return exposed


class _WhileBody:
    def __init__(self, s: ast.While) -> None:
        self.s = s


def _writes_param(fi: FuncInfo, pos: int) -> bool:
    if pos >= len(fi.params):
        return False
    p = fi.params[pos]
    for n in ast.walk(fi.node):
        if isinstance(n, (ast.Assign, ast.AugAssign)):
            for t in (n.targets if isinstance(n, ast.Assign)
                      else [n.target]):
                b = t
                while isinstance(b, ast.Subscript):
                    b = b.value
                if isinstance(t, ast.Subscript) and isinstance(
                        b, ast.Name) and b.id == p:
                    return True
        if isinstance(n, ast.Call) and isinstance(
                n.func, ast.Attribute) and n.func.attr == "fill" and \
                isinstance(n.func.value, ast.Name) and n.func.value.id == p:
            return True
    return False


def _as_load(t: ast.expr) -> ast.expr:
    import copy
    n = copy.deepcopy(t)
    for sub in ast.walk(n):
        if hasattr(sub, "ctx"):
            sub.ctx = ast.Load()
    return n
