"""E4 - symbolic term normaliser.

Abstract values are canonical polynomials with exact rational coefficients
over *atoms*. Atoms are hashable tuples:

* ``("var", name)``                        - an input scalar / symbol
* ``("cell", array, (idx polys...))``      - an array element
* ``("app", fname, (arg polys...))``       - uninterpreted application
* ``("ite", cond, poly_a, poly_b)``        - conditional value
* ``("red", kind, bound-vars, ...)``       - a recognised loop reduction

Conditions are tuples ``("lt", a, b)``, ``("le", a, b)``, ``("eq", a, b)``,
``("not", c)``, ``("and", c...)``, ``("or", c...)`` or ``("true",)`` /
``("false",)`` over polynomials.
"""
from __future__ import annotations

import ast
from fractions import Fraction
from typing import Any, Callable, Iterable

Atom = tuple
Mono = tuple  # sorted tuple of (atom, exponent)


class Unsupported(Exception):
    """A construct the normaliser does not model (rule reports 'cannot
    normalise' - never a silent pass)."""

    def __init__(self, msg: str, node: ast.AST | None = None) -> None:
        super().__init__(msg)
        self.node = node


def _akey(a: Any) -> str:
    return repr(a)


class Poly:
    """An immutable multivariate polynomial with Fraction coefficients."""

    __slots__ = ("terms", "_hash", "_key")

    def __init__(self, terms: dict[Mono, Fraction] | None = None) -> None:
        self.terms: dict[Mono, Fraction] = {
            m: c for m, c in (terms or {}).items() if c != 0}
        self._hash: int | None = None
        self._key: tuple | None = None

    # ------------------------------------------------------ construction
    @staticmethod
    def const(c: Any) -> "Poly":
        if isinstance(c, float):
            c = Fraction(repr(c)) if c == c and abs(c) != float("inf") \
                else None
            if c is None:
                raise Unsupported("non-finite float constant")
        return Poly({(): Fraction(c)})

    @staticmethod
    def atom(a: Atom) -> "Poly":
        return Poly({((a, 1),): Fraction(1)})

    @staticmethod
    def var(name: str) -> "Poly":
        return Poly.atom(("var", name))

    # -------------------------------------------------------- inspection
    def key(self) -> tuple:
        if self._key is None:
            self._key = tuple(sorted(
                ((_akey(m), m, c) for m, c in self.terms.items()),
                key=lambda t: t[0]))
        return self._key

    def __hash__(self) -> int:
        if self._hash is None:
            self._hash = hash(tuple((k, c) for k, _, c in self.key()))
        return self._hash

    def __eq__(self, other: object) -> bool:
        return isinstance(other, Poly) and self.terms == other.terms

    def is_const(self) -> bool:
        return all(m == () for m in self.terms)

    def const_value(self) -> Fraction | None:
        if self.is_const():
            return self.terms.get((), Fraction(0))
        return None

    def is_zero(self) -> bool:
        return not self.terms

    def as_atom(self) -> Atom | None:
        """The atom if the polynomial is exactly `1*atom`."""
        if len(self.terms) == 1:
            (m, c), = self.terms.items()
            if c == 1 and len(m) == 1 and m[0][1] == 1:
                return m[0][0]
        return None

    def atoms(self) -> set[Atom]:
        return {a for m in self.terms for a, _ in m}

    def degree_in(self, pred: Callable[[Atom], bool]) -> int:
        return max((sum(e for a, e in m if pred(a)) for m in self.terms),
                   default=0)

    def __repr__(self) -> str:
        return show(self)

    # -------------------------------------------------------- arithmetic
    def __add__(self, o: "Poly") -> "Poly":
        t = dict(self.terms)
        for m, c in o.terms.items():
            t[m] = t.get(m, Fraction(0)) + c
        return Poly(t)

    def __neg__(self) -> "Poly":
        return Poly({m: -c for m, c in self.terms.items()})

    def __sub__(self, o: "Poly") -> "Poly":
        return self + (-o)

    def __mul__(self, o: "Poly") -> "Poly":
        t: dict[Mono, Fraction] = {}
        for m1, c1 in self.terms.items():
            for m2, c2 in o.terms.items():
                m = _mul_mono(m1, m2)
                t[m] = t.get(m, Fraction(0)) + c1 * c2
        return Poly(t)

    def scale(self, c: Fraction) -> "Poly":
        return Poly({m: v * c for m, v in self.terms.items()})

    def pow(self, n: int) -> "Poly":
        r = Poly.const(1)
        for _ in range(n):
            r = r * self
        return r

    def subst(self, mapping: dict[Atom, "Poly"]) -> "Poly":
        """Substitute atoms (deeply, also inside nested atoms)."""
        if not mapping:
            return self
        res = Poly()
        for m, c in self.terms.items():
            t = Poly.const(c)
            for a, e in m:
                t = t * subst_atom(a, mapping).pow(e)
            res = res + t
        return res


ZERO = Poly()
ONE = Poly.const(1)


def _mul_mono(m1: Mono, m2: Mono) -> Mono:
    if not m1:
        return m2
    if not m2:
        return m1
    d: dict[Atom, int] = {}
    for a, e in m1:
        d[a] = d.get(a, 0) + e
    for a, e in m2:
        d[a] = d.get(a, 0) + e
    return tuple(sorted(d.items(), key=lambda t: _akey(t[0])))


def subst_atom(a: Atom, mapping: dict[Atom, Poly]) -> Poly:
    if a in mapping:
        return mapping[a]
    return Poly.atom(map_atom(a, lambda p: p.subst(mapping)))


def map_atom(a: Any, f: Callable[[Poly], Poly]) -> Any:
    """Rebuild an atom / condition applying `f` to all nested polys."""
    if isinstance(a, Poly):
        return f(a)
    if isinstance(a, tuple):
        return tuple(map_atom(x, f) for x in a)
    return a


def nested_polys(a: Any) -> Iterable[Poly]:
    if isinstance(a, Poly):
        yield a
    elif isinstance(a, tuple):
        for x in a:
            yield from nested_polys(x)


def all_atoms(p: Any) -> set[Atom]:
    """All atoms of a poly/atom/cond including nested ones."""
    out: set[Atom] = set()
    stack = [p]
    while stack:
        x = stack.pop()
        if isinstance(x, Poly):
            for a in x.atoms():
                if a not in out:
                    out.add(a)
                    stack.append(a)
        elif isinstance(x, tuple):
            stack.extend(x)
    return out


def show_atom(a: Any) -> str:
    if not isinstance(a, tuple) or not a:
        return str(a)
    k = a[0]
    if k == "var":
        return str(a[1])
    if k == "cell":
        return f"{a[1]}[{', '.join(show(i) for i in a[2])}]"
    if k == "app":
        return f"{a[1]}({', '.join(show(i) for i in a[2])})"
    if k == "ite":
        return f"ite({show_cond(a[1])}, {show(a[2])}, {show(a[3])})"
    return f"{k}<" + ", ".join(
        show(x) if isinstance(x, Poly) else show_atom(x) for x in a[1:]) + ">"


def show_cond(c: Any) -> str:
    k = c[0]
    if k in ("lt", "le", "eq"):
        op = {"lt": "<", "le": "<=", "eq": "=="}[k]
        return f"{show(c[1])} {op} {show(c[2])}"
    if k == "not":
        return f"not({show_cond(c[1])})"
    if k in ("and", "or"):
        return "(" + f" {k} ".join(show_cond(x) for x in c[1:]) + ")"
    return k


def show(p: Any) -> str:
    if not isinstance(p, Poly):
        return show_atom(p)
    if not p.terms:
        return "0"
    parts = []
    for _, m, c in p.key():
        fs = [show_atom(a) + (f"^{e}" if e != 1 else "") for a, e in m]
        if c != 1 or not fs:
            cs = str(c)
            if c == -1 and fs:
                cs = "-"
                parts.append(cs + "*".join(fs))
                continue
            fs.insert(0, cs)
        parts.append("*".join(fs))
    return " + ".join(parts)


# ---------------------------------------------------------------- conditions
def c_not(c: tuple) -> tuple:
    if c[0] == "not":
        return c[1]
    if c[0] == "true":
        return ("false",)
    if c[0] == "false":
        return ("true",)
    if c[0] == "lt":
        return ("le", c[2], c[1])
    if c[0] == "le":
        return ("lt", c[2], c[1])
    return ("not", c)


def c_and(*cs: tuple) -> tuple:
    flat: list[tuple] = []
    for c in cs:
        if c[0] == "true":
            continue
        if c[0] == "false":
            return ("false",)
        if c[0] == "and":
            flat.extend(c[1:])
        else:
            flat.append(c)
    if not flat:
        return ("true",)
    if len(flat) == 1:
        return flat[0]
    return ("and", *flat)


def c_or(*cs: tuple) -> tuple:
    flat: list[tuple] = []
    for c in cs:
        if c[0] == "false":
            continue
        if c[0] == "true":
            return ("true",)
        if c[0] == "or":
            flat.extend(c[1:])
        else:
            flat.append(c)
    if not flat:
        return ("false",)
    if len(flat) == 1:
        return flat[0]
    return ("or", *flat)


def c_cmp(op: ast.cmpop, a: Poly, b: Poly) -> tuple:
    d = (a - b).const_value()
    if d is not None:
        res = {ast.Lt: d < 0, ast.LtE: d <= 0, ast.Gt: d > 0,
               ast.GtE: d >= 0, ast.Eq: d == 0, ast.NotEq: d != 0}.get(
            type(op))
        if res is not None:
            return ("true",) if res else ("false",)
    if isinstance(op, ast.Lt):
        return ("lt", a, b)
    if isinstance(op, ast.LtE):
        return ("le", a, b)
    if isinstance(op, ast.Gt):
        return ("lt", b, a)
    if isinstance(op, ast.GtE):
        return ("le", b, a)
    if isinstance(op, ast.Eq):
        return _eq(a, b)
    if isinstance(op, ast.NotEq):
        return ("not", _eq(a, b))
    raise Unsupported(f"comparison {type(op).__name__}")


def _eq(a: Poly, b: Poly) -> tuple:
    if repr(a.key()) > repr(b.key()):
        a, b = b, a
    return ("eq", a, b)


def ite(cond: tuple, a: Any, b: Any) -> Any:
    """Merge two values under a condition."""
    if cond[0] == "true":
        return a
    if cond[0] == "false":
        return b
    if isinstance(a, Poly) and isinstance(b, Poly):
        if a == b:
            return a
        if cond[0] == "not":
            return Poly.atom(("ite", cond[1], b, a))
        return Poly.atom(("ite", cond, a, b))
    if isinstance(a, tuple) and isinstance(b, tuple) and len(a) == len(b) \
            and not (a and isinstance(a[0], str)):
        return tuple(ite(cond, x, y) for x, y in zip(a, b))
    if a == b:
        return a
    if isinstance(a, tuple) and isinstance(b, tuple) and a and b and \
            isinstance(a[0], str) and isinstance(b[0], str) and a[0] in (
            "true", "false", "lt", "le", "eq", "not", "and", "or") and \
            b[0] in ("true", "false", "lt", "le", "eq", "not", "and", "or"):
        # boolean values: (cond and a) or (not cond and b)
        return c_or(c_and(cond, a), c_and(c_not(cond), b))
    raise Unsupported("cannot merge non-numeric values under a condition")


# ------------------------------------------------------------------ evaluator
class Env:
    """Variable bindings and array stores of a symbolic execution."""

    def __init__(self) -> None:
        self.vars: dict[str, Any] = {}
        #: (array, idx-key) -> value;  insertion order = store order
        self.stores: dict[tuple[str, tuple], Poly] = {}
        self.returned: Any = None
        self.ret_cond: tuple | None = None   # condition under which returned

    def copy(self) -> "Env":
        e = Env()
        e.vars = dict(self.vars)
        e.stores = dict(self.stores)
        e.returned = self.returned
        e.ret_cond = self.ret_cond
        return e


MATH_FUNCS = {
    "sqrt", "exp", "tanh", "arctan", "atan", "sin", "cos", "acos", "arccos",
    "log", "log1p", "floor", "ceil", "isfinite", "cbrt", "radians",
    "degrees", "hypot",
}


class Evaluator:
    """Symbolically executes loop-free code (loops via hooks)."""

    def __init__(self, *, const_of: Callable[[ast.expr], Any] | None = None,
                 call_hook: Callable[["Evaluator", Env, ast.Call], Any]
                 | None = None,
                 loop_hook: Callable[["Evaluator", Env, ast.stmt], bool]
                 | None = None,
                 arrays: set[str] | None = None,
                 int_transparent: bool = False) -> None:
        self.int_transparent = int_transparent
        self.tolerant_loops = False
        self.const_of = const_of
        self.call_hook = call_hook
        self.loop_hook = loop_hook
        #: names that denote arrays (subscripts become cells)
        self.arrays = arrays
        self.fresh = 0
        #: conditions assumed because the other branch raises
        self.assumed: list[tuple] = []

    # ---------------------------------------------------------- expressions
    def expr(self, env: Env, n: ast.expr) -> Any:
        if isinstance(n, ast.Constant):
            if isinstance(n.value, bool):
                return ("true",) if n.value else ("false",)
            if isinstance(n.value, (int, float)):
                return Poly.const(n.value)
            raise Unsupported(f"constant {n.value!r}", n)
        if isinstance(n, ast.Name):
            if n.id in env.vars:
                return env.vars[n.id]
            if self.const_of is not None:
                c = self.const_of(n)
                if isinstance(c, Poly):
                    return c
                if isinstance(c, (int, float, Fraction)) and not isinstance(
                        c, bool):
                    return Poly.const(c)
            return Poly.var(n.id)
        if isinstance(n, ast.Attribute):
            dk = _dotted(n)
            if dk is not None and dk in env.vars:
                return env.vars[dk]
            if isinstance(n.value, ast.Name) and n.value.id in env.vars:
                b = env.vars[n.value.id]
                at = b.as_atom() if isinstance(b, Poly) else None
                if at is not None and at[0] == "var":
                    return Poly.var(f"{at[1]}.{n.attr}")
                raise Unsupported(f"attribute of {n.value.id}", n)
            if self.const_of is not None:
                c = self.const_of(n)
                if isinstance(c, Poly):
                    return c
                if isinstance(c, (int, float, Fraction)) and not isinstance(
                        c, bool):
                    return Poly.const(c)
            return Poly.var(ast.unparse(n))
        if isinstance(n, ast.UnaryOp):
            if isinstance(n.op, ast.Not):
                return c_not(self.cond(env, n.operand))
            v = self.num(env, n.operand)
            if isinstance(n.op, ast.USub):
                return -v
            if isinstance(n.op, ast.UAdd):
                return v
            raise Unsupported("unary op", n)
        if isinstance(n, ast.BinOp):
            return self.binop(env, n)
        if isinstance(n, ast.Subscript):
            return self.load(env, n)
        if isinstance(n, ast.IfExp):
            c = self.cond(env, n.test)
            return ite(c, self.expr(env, n.body), self.expr(env, n.orelse))
        if isinstance(n, (ast.Compare, ast.BoolOp)):
            return self.cond(env, n)
        if isinstance(n, ast.Call):
            return self.call(env, n)
        if isinstance(n, ast.Tuple):
            return tuple(self.expr(env, e) for e in n.elts)
        raise Unsupported(f"expression {type(n).__name__}", n)

    def _arr(self, env: Env, base: ast.expr) -> str:
        """The canonical name of an array expression."""
        if isinstance(base, ast.Name):
            bound = env.vars.get(base.id)
            if isinstance(bound, tuple) and bound and bound[0] == "array":
                return bound[1]
            if isinstance(bound, Poly):
                at = bound.as_atom()
                if at is not None and at[0] == "var":
                    return at[1]
                if at is not None and at[0] == "cell":
                    return show_atom(at)
                raise Unsupported(f"{base.id} is not an array", base)
            if bound is None:
                return base.id
            raise Unsupported(f"{base.id} is not an array", base)
        if isinstance(base, ast.Attribute):
            return ast.unparse(base)
        raise Unsupported("array expression", base)

    def _reduction_call(self, env: Env, kind: str, sub: ast.Subscript) \
            -> Poly:
        """`a[:, c].max()` / `a[lo:hi].min()` as reduction atoms."""
        arr = self._arr(env, sub.value)
        sl = sub.slice
        if isinstance(sl, ast.Tuple) and len(sl.elts) == 2 and isinstance(
                sl.elts[0], ast.Slice) and sl.elts[0].lower is None and \
                sl.elts[0].upper is None and sl.elts[0].step is None:
            col = self.num(env, sl.elts[1])
            return Poly.atom(("colred", kind, arr, col))
        if isinstance(sl, ast.Slice) and sl.step is None:
            lo = self.num(env, sl.lower) if sl.lower is not None \
                else Poly.const(0)
            hi = self.num(env, sl.upper) if sl.upper is not None \
                else Poly.atom(("app", "len", (Poly.var(arr),)))
            summ = env.stores.get((arr, ("summary",)))
            content = summ if summ is not None else Poly.var(arr)
            return Poly.atom(("slicered", kind, content, lo, hi))
        raise Unsupported("reduction over this slice", sub)

    def num(self, env: Env, n: ast.expr) -> Poly:
        v = self.expr(env, n)
        if not isinstance(v, Poly):
            raise Unsupported("numeric value expected", n)
        return v

    def binop(self, env: Env, n: ast.BinOp) -> Poly:
        a = self.num(env, n.left)
        b = self.num(env, n.right)
        op = n.op
        if isinstance(op, ast.Add):
            return a + b
        if isinstance(op, ast.Sub):
            return a - b
        if isinstance(op, ast.Mult):
            return a * b
        if isinstance(op, ast.Div):
            bv = b.const_value()
            if bv is not None:
                if bv == 0:
                    raise Unsupported("division by zero", n)
                return a.scale(1 / bv)
            return Poly.atom(("app", "div", (a, b)))
        if isinstance(op, ast.Pow):
            bv = b.const_value()
            if bv is not None and bv.denominator == 1 and 0 <= bv <= 8:
                return a.pow(int(bv))
            return Poly.atom(("app", "pow", (a, b)))
        if isinstance(op, ast.FloorDiv):
            av, bv = a.const_value(), b.const_value()
            if av is not None and bv is not None and bv != 0 and \
                    av.denominator == 1 and bv.denominator == 1:
                return Poly.const(int(av) // int(bv))
            return Poly.atom(("app", "floordiv", (a, b)))
        if isinstance(op, ast.Mod):
            av, bv = a.const_value(), b.const_value()
            if av is not None and bv is not None and bv != 0 and \
                    av.denominator == 1 and bv.denominator == 1:
                return Poly.const(int(av) % int(bv))
            return Poly.atom(("app", "mod", (a, b)))
        raise Unsupported(f"operator {type(op).__name__}", n)

    def index(self, env: Env, sl: ast.expr) -> tuple:
        if isinstance(sl, ast.Tuple):
            return tuple(self.num(env, e) for e in sl.elts)
        if isinstance(sl, ast.Slice):
            raise Unsupported("slice", sl)
        if isinstance(sl, (ast.Name, ast.Attribute)) and not (
                isinstance(sl, ast.Name) and sl.id in env.vars) and \
                self.const_of is not None:
            # an index tuple held in a module constant: a[_LAST] with
            # _LAST = (-1, -1)
            c = self.const_of(sl)
            if isinstance(c, tuple) and c and all(
                    isinstance(x, int) and not isinstance(x, bool)
                    for x in c):
                return tuple(Poly.const(x) for x in c)
        return (self.num(env, sl),)

    def load(self, env: Env, n: ast.Subscript) -> Any:
        base = n.value
        prefix: tuple = ()
        if getattr(self, "compose_rows", False) and isinstance(
                n.slice, ast.Tuple) and isinstance(
                base, ast.Name) and any(
                isinstance(x, ast.Slice) and x.lower is None
                and x.upper is None and x.step is None
                for x in n.slice.elts) and not any(
                isinstance(x, ast.Slice) and not (
                    x.lower is None and x.upper is None and x.step is None)
                for x in n.slice.elts):
            # m[:, j]: a view of one column (row); its elements are cells
            # of m - composed when the view is indexed
            nm = base.id
            bnd = env.vars.get(nm)
            if isinstance(bnd, tuple) and bnd and bnd[0] == "array":
                nm = bnd[1]
            elif bnd is not None:
                raise Unsupported("view of a bound name", n)
            return ("view", nm, tuple(
                None if isinstance(x, ast.Slice) else self.num(env, x)
                for x in n.slice.elts))
        if isinstance(base, ast.Name):
            name = base.id
            bound = env.vars.get(name)
            if isinstance(bound, tuple) and bound and bound[0] == "view":
                got = list(self.index(env, n.slice))
                full = []
                for x in bound[2]:
                    if x is None:
                        if not got:
                            raise Unsupported("partial index of a view", n)
                        full.append(got.pop(0))
                    else:
                        full.append(x)
                if got:
                    raise Unsupported("too many indices for a view", n)
                name, idx0 = bound[1], tuple(full)
                k0 = (name, idx0)
                if k0 in env.stores:
                    return env.stores[k0]
                for (an, ai) in env.stores:
                    if an == name and ai not in (("fill",), ("summary",)) \
                            and len(ai) == len(idx0) and not _distinct(
                            ai, idx0):
                        raise Unsupported("load through a view may alias "
                                          "an earlier store", n)
                if (name, ("summary",)) in env.stores:
                    raise Unsupported("load through a view from a "
                                      "loop-written array", n)
                return Poly.atom(("cell", name, idx0))
            if isinstance(bound, tuple) and bound and bound[0] == "array":
                name = bound[1]
            elif isinstance(bound, tuple) and not (
                    bound and isinstance(bound[0], str)):
                idx = self.index(env, n.slice)
                iv = idx[0].const_value() if len(idx) == 1 else None
                if iv is None or iv.denominator != 1:
                    raise Unsupported("non-constant tuple index", n)
                return bound[int(iv)]
            elif bound is not None and not isinstance(bound, Poly):
                raise Unsupported(f"subscript of {name}", n)
            elif isinstance(bound, Poly):
                at = bound.as_atom()
                if at is not None and at[0] == "cell" and getattr(
                        self, "compose_rows", False):
                    # a row taken out of a matrix: m[i][j] is m[i, j]
                    name, prefix = at[1], tuple(at[2])
                elif at is not None and at[0] == "cell":
                    name = show_atom(at)      # element of a list of lists
                elif at is None or at[0] != "var":
                    raise Unsupported(f"subscript of scalar {name}", n)
                else:
                    name = at[1]
        elif isinstance(base, ast.Attribute):
            name = ast.unparse(base)
        elif isinstance(base, ast.Subscript) and getattr(
                self, "compose_rows", False):
            inner = self.load(env, base)
            at = inner.as_atom() if isinstance(inner, Poly) else None
            if at is None or at[0] != "cell":
                raise Unsupported("subscript base", n)
            name, prefix = at[1], tuple(at[2])
        else:
            raise Unsupported("subscript base", n)
        idx = prefix + self.index(env, n.slice)
        k = (name, idx)
        if k in env.stores:
            return env.stores[k]
        if (name, ("summary",)) in env.stores:
            raise Unsupported(f"element load from loop-written array "
                              f"{name}", n)
        if (name, ("fill",)) in env.stores and not any(
                kk[0] == name and kk[1] != ("fill",) for kk in env.stores):
            return env.stores[(name, ("fill",))]
        # a store with a non-identical index to the same array may alias
        for (an, ai) in env.stores:
            if ai in (("fill",), ("summary",)):
                continue
            if an == name and len(ai) == len(idx) and not _distinct(ai, idx):
                raise Unsupported(
                    f"load {name}{[show(i) for i in idx]} may alias an "
                    "earlier store", n)
        return Poly.atom(("cell", name, idx))

    def cond(self, env: Env, n: ast.expr) -> tuple:
        if isinstance(n, ast.Compare) and len(n.ops) == 1 and isinstance(
                n.ops[0], (ast.Is, ast.IsNot)):
            # `x is None` / `x is not None`: an atomic condition on x
            sides = [n.left, n.comparators[0]]
            nones = [isinstance(x, ast.Constant) and x.value is None
                     for x in sides]
            if any(nones) and not all(nones):
                other = self.expr(env, sides[0 if nones[1] else 1])
                if isinstance(other, Poly):
                    c = _eq(other, Poly.var("None$"))
                    return c if isinstance(n.ops[0], ast.Is) else ("not", c)
            raise Unsupported("identity comparison", n)
        if isinstance(n, ast.Compare) and len(n.ops) == 1 and isinstance(
                n.ops[0], (ast.In, ast.NotIn)) and isinstance(
                n.comparators[0], (ast.Tuple, ast.List, ast.Set)):
            # membership in a display of values: a disjunction of equalities
            # (component-wise for tuples of equal length)
            if isinstance(n.left, ast.Tuple):
                alts = []
                for e_ in n.comparators[0].elts:
                    if not (isinstance(e_, ast.Tuple) and len(
                            e_.elts) == len(n.left.elts)):
                        raise Unsupported("tuple membership", n)
                    alts.append(c_and(*[
                        _eq(self.num(env, a_), self.num(env, b_))
                        for a_, b_ in zip(n.left.elts, e_.elts)]))
                c = c_or(*alts) if alts else ("false",)
                return c if isinstance(n.ops[0], ast.In) else c_not(c)
            left = self.num(env, n.left)
            alts = [_eq(left, self.num(env, e_))
                    for e_ in n.comparators[0].elts]
            c = c_or(*alts) if alts else ("false",)
            return c if isinstance(n.ops[0], ast.In) else c_not(c)
        if isinstance(n, ast.Compare):
            parts = []
            left = self.num(env, n.left)
            for op, rn in zip(n.ops, n.comparators):
                right = self.num(env, rn)
                parts.append(c_cmp(op, left, right))
                left = right
            return c_and(*parts)
        if isinstance(n, ast.BoolOp):
            cs = [self.cond(env, v) for v in n.values]
            return c_and(*cs) if isinstance(n.op, ast.And) else c_or(*cs)
        if isinstance(n, ast.UnaryOp) and isinstance(n.op, ast.Not):
            return c_not(self.cond(env, n.operand))
        v = self.expr(env, n)
        if isinstance(v, tuple) and v and isinstance(v[0], str):
            return v
        if isinstance(v, Poly):
            return ("not", _eq(v, ZERO))
        raise Unsupported("condition", n)

    def call(self, env: Env, n: ast.Call) -> Any:
        if self.call_hook is not None:
            r = self.call_hook(self, env, n)
            if r is not NotImplemented:
                return r
        fn = n.func
        name = None
        if isinstance(fn, ast.Attribute) and fn.attr in ("max", "min") \
                and not n.args and isinstance(fn.value, ast.Subscript):
            return self._reduction_call(env, fn.attr, fn.value)
        red_of = fn.value if isinstance(fn, ast.Attribute) and fn.attr in (
            "max", "min") and not n.args else (
            n.args[0] if isinstance(fn, ast.Name) and fn.id in (
                "max", "min") and len(n.args) == 1 and not n.keywords
            else None)
        if isinstance(red_of, ast.Name):
            sv = env.vars.get(red_of.id)
            if isinstance(sv, tuple) and sv and sv[0] == "sliceview":
                kind = fn.attr if isinstance(fn, ast.Attribute) else fn.id
                summ = env.stores.get((sv[1], ("summary",)))
                content = summ if summ is not None else Poly.var(sv[1])
                return Poly.atom(("slicered", kind, content, sv[2], sv[3]))
        if isinstance(fn, ast.Name) and fn.id in ("max", "min") and len(
                n.args) == 1 and isinstance(n.args[0], ast.Subscript) \
                and not n.keywords:
            return self._reduction_call(env, fn.id, n.args[0])
        if isinstance(fn, ast.Attribute) and isinstance(
                fn.value, ast.Name) and fn.value.id in ("np", "numpy") \
                and fn.attr in ("max", "min", "amax", "amin") and len(
                n.args) == 1 and isinstance(n.args[0], ast.Subscript) \
                and not n.keywords:
            return self._reduction_call(env, fn.attr[-3:], n.args[0])
        if isinstance(fn, ast.Name):
            name = fn.id
        elif isinstance(fn, ast.Attribute) and isinstance(
                fn.value, ast.Name) and fn.value.id in (
                "np", "numpy", "math"):
            name = fn.attr
        if name in ("int", "float") and len(n.args) == 1 and not n.keywords:
            v = self.num(env, n.args[0])
            if name == "float" or self.int_transparent:
                return v
            return Poly.atom(("app", "int", (v,))) if not _is_integral(v) \
                else v
        if name in ("min", "max") and len(n.args) >= 2 and not n.keywords:
            args = sorted({self.num(env, a) for a in n.args},
                          key=lambda p: repr(p.key()))
            if len(args) == 1:
                return args[0]
            return Poly.atom(("app", name, tuple(args)))
        if name == "len" and len(n.args) == 1 and not n.keywords:
            a0 = n.args[0]
            nm = None
            if isinstance(a0, ast.Name):
                b = env.vars.get(a0.id)
                if b is None:
                    nm = a0.id
                elif isinstance(b, tuple) and b and b[0] == "array":
                    nm = b[1]
                elif isinstance(b, Poly) and b.as_atom() is not None and \
                        b.as_atom()[0] == "var":
                    nm = b.as_atom()[1]
            elif isinstance(a0, ast.Attribute):
                nm = ast.unparse(a0)
            if nm is not None:
                return Poly.atom(("app", "len", (Poly.var(nm),)))
        if name == "abs" and len(n.args) == 1:
            return Poly.atom(("app", "abs", (self.num(env, n.args[0]),)))
        if name in MATH_FUNCS and not n.keywords:
            cn = {"atan": "arctan", "arccos": "acos"}.get(name, name)
            return Poly.atom(("app", cn, tuple(
                self.num(env, a) for a in n.args)))
        raise Unsupported(f"call {ast.unparse(n.func)}", n)

    # ----------------------------------------------------------- statements
    def assign(self, env: Env, target: ast.expr, value: Any) -> None:
        if isinstance(target, ast.Name):
            env.vars[target.id] = value
        elif isinstance(target, ast.Attribute) and _dotted(
                target) is not None:
            env.vars[_dotted(target)] = value
        elif isinstance(target, ast.Tuple):
            at = value.as_atom() if isinstance(value, Poly) else None
            if at is not None and at[0] == "cell":
                # unpacking a row (an element of a list of lists / a row of
                # a matrix) is indexing it position by position
                value = tuple(Poly.atom(("cell", show_atom(at), (
                    Poly.const(k),))) for k in range(len(target.elts)))
            elif at is not None and at[0] == "var" and isinstance(
                    at[1], str) and at[1].endswith(".shape"):
                # rows, cols = a.shape
                value = tuple(Poly.atom(("cell", at[1], (
                    Poly.const(k),))) for k in range(len(target.elts)))
            if not isinstance(value, tuple) or len(value) != len(
                    target.elts):
                raise Unsupported("tuple assignment", target)
            for t, v in zip(target.elts, value):
                self.assign(env, t, v)
        elif isinstance(target, ast.Subscript):
            base = target.value
            if isinstance(base, (ast.Name, ast.Attribute)):
                name = self._arr(env, base)
            else:
                raise Unsupported("store base", target)
            if not isinstance(value, Poly):
                raise Unsupported("non-numeric store", target)
            idx = self.index(env, target.slice)
            for (an, ai) in list(env.stores):
                if ai in (("fill",), ("summary",)):
                    continue
                if an == name and ai != idx and not _distinct(ai, idx):
                    raise Unsupported(
                        f"store {name}{[show(i) for i in idx]} may alias an "
                        "earlier store", target)
            env.stores[(name, idx)] = value
        else:
            raise Unsupported(f"assignment target {type(target).__name__}",
                              target)

    def block(self, env: Env, stmts: list[ast.stmt]) -> Env:
        for i, s in enumerate(stmts):
            if env.ret_cond is not None and env.ret_cond[0] == "true":
                break
            if isinstance(s, ast.If) and _has_exit(s) and i + 1 < len(stmts):
                # "if c: ...return...; rest"  ==  "if c: ... else: rest"
                rest = stmts[i + 1:]
                c = self.cond(env, s.test)
                if c[0] == "true":
                    return self.block(env, list(s.body) + rest)
                if c[0] == "false":
                    return self.block(env, list(s.orelse) + rest)
                e1 = self.block(env.copy(), list(s.body) + rest)
                e2 = self.block(env.copy(), list(s.orelse) + rest)
                return self.merge(c, e1, e2)
            env = self.stmt(env, s)
        return env

    def _slice_view(self, env: Env, s: ast.stmt) -> bool:
        """`v = a[lo:hi]` (a view that is only reduced later): remember the
        array and the bounds as they are now."""
        val = getattr(s, "value", None)
        tgs = s.targets if isinstance(s, ast.Assign) else [
            getattr(s, "target", None)]
        if not (len(tgs) == 1 and isinstance(tgs[0], ast.Name)
                and isinstance(val, ast.Subscript) and isinstance(
                    val.slice, ast.Slice) and val.slice.step is None
                and isinstance(val.value, (ast.Name, ast.Attribute))):
            return False
        try:
            arr = self._arr(env, val.value)
            lo = self.num(env, val.slice.lower) \
                if val.slice.lower is not None else Poly.const(0)
            hi = self.num(env, val.slice.upper) \
                if val.slice.upper is not None else Poly.atom(
                    ("app", "len", (Poly.var(arr),)))
        except Unsupported:
            return False
        env.vars[tgs[0].id] = ("sliceview", arr, lo, hi)
        return True

    def stmt(self, env: Env, s: ast.stmt) -> Env:
        if isinstance(s, (ast.Assign, ast.AnnAssign)) and \
                self._slice_view(env, s):
            return env
        if isinstance(s, ast.Import) and all(
                a.asname is None and a.name in ("math", "numpy")
                for a in s.names):
            return env          # `import math` inside a function
        if isinstance(s, ast.Assign):
            v = self.expr(env, s.value)
            for t in s.targets:
                self.assign(env, t, v)
            return env
        if isinstance(s, ast.AnnAssign):
            if s.value is not None:
                self.assign(env, s.target, self.expr(env, s.value))
            return env
        if isinstance(s, ast.AugAssign):
            cur = self.expr(env, _as_load(s.target))
            val = self.expr(env, ast.BinOp(left=_as_load(s.target), op=s.op,
                                           right=s.value))
            del cur
            self.assign(env, s.target, val)
            return env
        if isinstance(s, ast.Expr):
            if isinstance(s.value, ast.Constant):
                return env
            c = s.value
            if isinstance(c, ast.Call) and isinstance(
                    c.func, ast.Attribute) and c.func.attr == "fill" and \
                    len(c.args) == 1 and isinstance(
                    c.func.value, (ast.Name, ast.Attribute)):
                arr = self._arr(env, c.func.value)
                v = self.num(env, c.args[0])
                for key in list(env.stores):
                    if key[0] == arr:
                        del env.stores[key]
                env.stores[(arr, ("fill",))] = v
                return env
            if isinstance(s.value, ast.Call):
                self.expr(env, s.value)
                return env
            raise Unsupported("expression statement", s)
        if isinstance(s, ast.Pass):
            return env
        if isinstance(s, ast.Return):
            v = self.expr(env, s.value) if s.value is not None else None
            self._ret(env, v)
            return env
        if isinstance(s, ast.If):
            c = self.cond(env, s.test)
            if c[0] == "true":
                return self.block(env, s.body)
            if c[0] == "false":
                return self.block(env, s.orelse)
            e1 = self.block(env.copy(), s.body)
            e2 = self.block(env.copy(), s.orelse)
            return self.merge(c, e1, e2)
        if isinstance(s, ast.For) and isinstance(
                s.iter, (ast.Tuple, ast.List)) and isinstance(
                s.target, ast.Name) and not s.orelse and len(
                s.iter.elts) <= 8 and not any(
                isinstance(x, (ast.Break, ast.Continue, ast.Return))
                for b in s.body for x in ast.walk(b)):
            # a loop over a short literal list: one pass per entry
            for e_ in s.iter.elts:
                self.assign(env, s.target, self.expr(env, e_))
                env = self.block(env, s.body)
            return env
        if isinstance(s, (ast.For, ast.While)):
            saved_vars, saved_stores = dict(env.vars), dict(env.stores)
            try:
                if self.loop_hook is not None and self.loop_hook(
                        self, env, s):
                    return env
                why = "no recogniser"
            except Unsupported as u:
                if not self.tolerant_loops:
                    raise
                why = str(u)
                env.vars, env.stores = saved_vars, saved_stores
            if not self.tolerant_loops:
                raise Unsupported(
                    f"loop at line {s.lineno} not recognised", s)
            # havoc everything the loop may assign
            for sub in ast.walk(s):
                if isinstance(sub, ast.Name) and isinstance(
                        sub.ctx, ast.Store):
                    env.vars[sub.id] = Poly.atom(
                        ("opaque", sub.id, f"loop not summarised: {why}"))
                if isinstance(sub, ast.Subscript) and isinstance(
                        sub.ctx, ast.Store) and isinstance(
                        sub.value, ast.Name):
                    for key in list(env.stores):
                        if key[0] == sub.value.id:
                            del env.stores[key]
                    env.stores[(sub.value.id, ("summary",))] = Poly.atom(
                        ("opaque", sub.value.id, "written in a loop"))
            return env
        if isinstance(s, ast.Raise):
            # a raising path yields no value: model as 'returned' bottom
            self._ret(env, ("raise",))
            return env
        if isinstance(s, ast.Continue):
            self._ret(env, ("continue",))
            return env
        raise Unsupported(f"statement {type(s).__name__}", s)

    def _ret(self, env: Env, v: Any) -> None:
        if env.ret_cond is None:
            env.returned = v
            env.ret_cond = ("true",)
        elif env.ret_cond[0] != "true":
            env.returned = _merge_ret(env.ret_cond, env.returned, v)
            env.ret_cond = ("true",)

    def merge(self, c: tuple, e1: Env, e2: Env) -> Env:
        # a branch that certainly raises contributes no value: the rest of
        # the computation happens under the other branch only
        if e1.ret_cond == ("true",) and e1.returned == ("raise",):
            self.assumed.append(c_not(c))
            return e2
        if e2.ret_cond == ("true",) and e2.returned == ("raise",):
            self.assumed.append(c)
            return e1
        out = Env()
        for k in set(e1.vars) | set(e2.vars):
            if k in e1.vars and k in e2.vars:
                try:
                    out.vars[k] = ite(c, e1.vars[k], e2.vars[k])
                except Unsupported:
                    out.vars[k] = ("undef",)
            # variable defined on one side only: undefined afterwards
        for k in list(e1.stores) + [k for k in e2.stores
                                    if k not in e1.stores]:
            a = e1.stores.get(k)
            b = e2.stores.get(k)
            if a is None:
                a = Poly.atom(("cell", k[0], k[1]))
            if b is None:
                b = Poly.atom(("cell", k[0], k[1]))
            out.stores[k] = ite(c, a, b)
        r1 = e1.ret_cond
        r2 = e2.ret_cond
        if r1 is None and r2 is None:
            return out
        # partial returns: remember condition
        t1 = r1 if r1 is not None else ("false",)
        t2 = r2 if r2 is not None else ("false",)
        rc = c_or(c_and(c, t1), c_and(c_not(c), t2))
        if t1[0] == "true" and t2[0] == "true":
            out.returned = _merge_ret(c, e1.returned, e2.returned)
            out.ret_cond = ("true",)
        elif t2[0] == "false":
            out.returned = e1.returned
            out.ret_cond = rc
        elif t1[0] == "false":
            out.returned = e2.returned
            out.ret_cond = rc
        else:
            # both sides may have returned (under t1 / t2): when the merged
            # path has returned, the value is r1 under c and r2 otherwise
            out.returned = _merge_ret(c, e1.returned, e2.returned)
            out.ret_cond = rc
        return out


def _dotted(n: ast.AST) -> str | None:
    parts: list[str] = []
    while isinstance(n, ast.Attribute):
        parts.append(n.attr)
        n = n.value
    if isinstance(n, ast.Name):
        parts.append(n.id)
        return ".".join(reversed(parts))
    return None


def _has_exit(s: ast.stmt) -> bool:
    for n in ast.walk(s):
        if isinstance(n, (ast.Return, ast.Raise, ast.Continue)):
            return True
    return False


def _merge_ret(c: tuple, a: Any, b: Any) -> Any:
    if isinstance(a, tuple) and a == ("raise",):
        return b
    if isinstance(b, tuple) and b == ("raise",):
        return a
    if a is None and b is None:
        return None
    if a == ("continue",) or b == ("continue",):
        if a in (None, ("continue",)) and b in (None, ("continue",)):
            return ("continue",)
        raise Unsupported("return and continue on sibling paths")
    return ite(c, a, b)


def _as_load(t: ast.expr) -> ast.expr:
    import copy
    n = copy.deepcopy(t)
    for sub in ast.walk(n):
        if hasattr(sub, "ctx"):
            sub.ctx = ast.Load()
    return n


def _is_integral(p: Poly) -> bool:
    """Conservatively: integer constants only."""
    v = p.const_value()
    return v is not None and v.denominator == 1


def _distinct(i1: tuple, i2: tuple) -> bool:
    """Are two index tuples provably different (constant difference != 0 in
    some position)?"""
    for a, b in zip(i1, i2):
        dp = a - b
        d = dp.const_value()
        if d is not None and d != 0:
            return True
        # parity: odd constant + even multiples of integer atoms is never 0
        c0 = dp.terms.get((), Fraction(0))
        if c0.denominator == 1 and c0 % 2 == 1 and all(
                c.denominator == 1 and c % 2 == 0
                for m, c in dp.terms.items() if m != ()):
            return True
    return False


def run_function(fn_node: ast.FunctionDef, ev: Evaluator,
                 init: dict[str, Any] | None = None) -> Env:
    """Symbolically execute a function body (docstring skipped)."""
    env = Env()
    if init:
        env.vars.update(init)
    body = fn_node.body
    if body and isinstance(body[0], ast.Expr) and isinstance(
            body[0].value, ast.Constant) and isinstance(
            body[0].value.value, str):
        body = body[1:]
    return ev.block(env, body)
