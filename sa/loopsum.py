"""E4 reduction recognisers: closed forms for `for` loops.

The loop body is executed once symbolically with the loop-carried variables
bound to placeholder atoms ``("carried", name, depth)``.  Each carried
variable's update term is then classified:

* previous-value   ``p' = e(k)``                -> value at k is e(k-1)
* sum              ``a' = a + t(k)``            -> a0 + ("sum", k, lo, hi, t)
* max / min        ``m' = max(m, t(k))`` (also ite forms, guarded forms)
                                                -> ("maxred"/"minred", ...)
Everything else becomes an ``("opaque", name, why)`` atom, so that a rule
that needs the value reports "cannot normalise" instead of guessing.
"""
from __future__ import annotations

import ast
from fractions import Fraction
from typing import Any

from sa.symterm import (Env, Evaluator, Poly, Unsupported, all_atoms, c_and,
                        c_not, ite, map_atom, show)


def kvar(depth: int) -> Poly:
    return Poly.var(f"#k{depth}")


def length_of(name: str) -> Poly:
    return Poly.atom(("app", "len", (Poly.var(name),)))


def _uses(p: Any, atom: tuple) -> bool:
    return atom in all_atoms(p)


def _carried_in(p: Any, depth: int) -> set[tuple]:
    return {a for a in all_atoms(p) if a[0] == "carried" and a[2] == depth}


class LoopSummariser:
    """Use `.hook` as the `loop_hook` of an Evaluator."""

    def __init__(self) -> None:
        self.depth = 0
        self.loops: list[dict[str, Any]] = []

    def hook(self, ev: Evaluator, env: Env, s: ast.stmt) -> bool:
        if not isinstance(s, ast.For) or s.orelse:
            return False
        depth = self.depth
        k = kvar(depth)
        body_env = env.copy()
        lo, hi = Poly.const(0), None
        desc = False
        it = s.iter
        # ------------------------------------------------ iteration space
        if isinstance(it, ast.Call) and isinstance(it.func, ast.Name) and \
                it.func.id == "range" and not it.keywords:
            args = [ev.num(env, a) for a in it.args]
            if len(args) == 1:
                hi = args[0]
            elif len(args) == 2:
                lo, hi = args
            elif args[2] == Poly.const(1):
                lo, hi = args[0], args[1]
            elif args[2] == Poly.const(-1):
                # range(a, b, -1) visits {b+1, .., a}: summarised as the
                # ascending scan of the same set - sound for reductions
                # whose result does not depend on the order (checked below)
                lo, hi = args[1] + Poly.const(1), args[0] + Poly.const(1)
                desc = True
            else:
                raise Unsupported("range with step", s)
            if not isinstance(s.target, ast.Name):
                raise Unsupported("loop target", s)
            body_env.vars[s.target.id] = k
        elif isinstance(it, ast.Call) and isinstance(it.func, ast.Name) \
                and it.func.id == "enumerate" and len(it.args) == 1 and \
                isinstance(s.target, ast.Tuple) and len(
                s.target.elts) == 2 and all(
                isinstance(t, ast.Name) for t in s.target.elts):
            arr = self._array_name(env, it.args[0])
            hi = length_of(arr)
            body_env.vars[s.target.elts[0].id] = k
            body_env.vars[s.target.elts[1].id] = Poly.atom(
                ("cell", arr, (k,)))
        elif isinstance(it, (ast.Name, ast.Attribute)) and isinstance(
                s.target, ast.Name):
            arr = self._array_name(env, it)
            hi = length_of(arr)
            body_env.vars[s.target.id] = Poly.atom(("cell", arr, (k,)))
        else:
            raise Unsupported("iteration space not recognised", s)
        targets = {t.id for t in ast.walk(s.target)
                   if isinstance(t, ast.Name)}
        # --------------------------------------------------- carried vars
        assigned: list[str] = []
        for n in ast.walk(ast.Module(body=s.body, type_ignores=[])):
            if isinstance(n, ast.Name) and isinstance(n.ctx, ast.Store) \
                    and n.id not in assigned and n.id not in targets:
                assigned.append(n.id)
        carried = [nm for nm in assigned if nm in env.vars]
        for nm in carried:
            body_env.vars[nm] = Poly.atom(("carried", nm, depth))
        for nm in assigned:
            if nm not in carried:
                body_env.vars.pop(nm, None)
        stored_arrays = _stored_arrays(ev, body_env, s.body)
        fills: dict[str, Poly] = {}
        for key in list(body_env.stores):
            if key[0] in stored_arrays:
                if key[1] == ("fill",):
                    fills[key[0]] = body_env.stores[key]
                del body_env.stores[key]
        n_stores_before = dict(body_env.stores)
        self.depth += 1
        try:
            out = ev.block(body_env, s.body)
        finally:
            self.depth -= 1
        if out.returned not in (None, ("continue",)):
            raise Unsupported("return inside a summarised loop", s)
        new_stores = {kk: v for kk, v in out.stores.items()
                      if n_stores_before.get(kk) is not v
                      and n_stores_before.get(kk) != v}
        arr_summaries: dict[str, Poly] = {}
        for (arr, idx), val in new_stores.items():
            if arr in arr_summaries or len(idx) != 1:
                raise Unsupported("several stores to one array in a loop", s)
            cur = Poly.atom(("cell", arr, idx))
            t = val - cur
            if _uses(t, cur.as_atom()) or _carried_in(t, depth) or \
                    _carried_in(idx[0], depth):
                raise Unsupported("store in loop is not a per-key "
                                  "accumulation", s)
            base = fills.get(arr)
            arr_summaries[arr] = Poly.atom(
                ("keyacc", k, lo, hi, idx[0], t,
                 base if base is not None else _opaque(arr, "not filled")))
        for arr in stored_arrays:
            if arr not in arr_summaries:
                raise Unsupported(f"array {arr} written in loop in an "
                                  "unrecognised way", s)
        # ------------------------------------------------ classification
        updates: dict[str, Any] = {}
        for nm in carried:
            updates[nm] = out.vars.get(nm, ("undef",))
        resolved: dict[tuple, Poly] = {}   # carried atom -> value at iter k
        final: dict[str, Any] = {}
        # pass 1: previous-value pattern
        for nm in carried:
            u = updates[nm]
            ca = ("carried", nm, depth)
            if isinstance(u, Poly) and not _carried_in(u, depth):
                init = env.vars[nm]
                prev = u.subst({k.as_atom(): k - Poly.const(1)})
                at_lo = _wrap_simplify(prev.subst({k.as_atom(): lo}), lo)
                if isinstance(init, Poly) and at_lo == init:
                    resolved[ca] = prev
                elif isinstance(init, Poly):
                    resolved[ca] = Poly.atom(("first", k, lo, init, prev))
                final[nm] = Poly.atom(("last", k, lo, hi, u, init)) \
                    if isinstance(init, Poly) else ("undef",)
        # arg-max group accumulation: (m, a) with m' = max(m, key) and
        # a' = key > m ? t : key == m ? a + t : a
        for nm_m in carried:
            if nm_m in final:
                continue
            um = updates[nm_m]
            if not isinstance(um, Poly):
                continue
            cm = ("carried", nm_m, depth)
            st = self._step(um, cm)
            if st is None or st[0] != "maxred":
                continue
            key = st[1]
            for nm_a in carried:
                if nm_a in final or nm_a == nm_m:
                    continue
                ua = updates[nm_a]
                ca = ("carried", nm_a, depth)
                if not isinstance(ua, Poly) or cm not in all_atoms(ua):
                    continue
                t = _argmax_group(ua, Poly.atom(cm), Poly.atom(ca), key)
                if t is not None and not _carried_in(t, depth):
                    final[nm_a] = Poly.atom(
                        ("argmaxgroup", k, lo, hi, key, t))
        # substitute resolved carried atoms into the remaining updates
        for nm in carried:
            if nm in final:
                continue
            u = updates[nm]
            ca = ("carried", nm, depth)
            if not isinstance(u, Poly):
                final[nm] = _opaque(nm, "non-numeric update")
                continue
            u = u.subst(resolved)
            others = _carried_in(u, depth) - {ca}
            if others:
                final[nm] = _opaque(nm, "depends on other carried values")
                continue
            init = env.vars[nm]
            if not isinstance(init, Poly):
                final[nm] = _opaque(nm, "non-numeric initial value")
                continue
            final[nm] = self._close(nm, u, ca, k, lo, hi, init)
        if desc:
            for nm, v in final.items():
                kinds = {a[0] for a in all_atoms(v)} if isinstance(
                    v, Poly) else {"?"}
                if kinds & {"last", "first", "argmaxgroup", "opaque", "?"}:
                    raise Unsupported("descending loop with an update that "
                                      "depends on the order", s)
        for nm, v in final.items():
            env.vars[nm] = v
        for arr, summ in arr_summaries.items():
            for key in list(env.stores):
                if key[0] == arr:
                    del env.stores[key]
            env.stores[(arr, ("summary",))] = summ
        for nm in assigned:
            if nm not in carried:
                env.vars[nm] = _opaque(nm, "defined only inside a loop")
        for t in targets:
            env.vars[t] = _opaque(t, "loop variable after the loop")
        self.loops.append({"node": s, "depth": depth, "lo": lo, "hi": hi,
                           "updates": updates, "final": final})
        return True

    @staticmethod
    def _array_name(env: Env, e: ast.expr) -> str:
        if isinstance(e, ast.Name):
            b = env.vars.get(e.id)
            if b is None:
                return e.id
            if isinstance(b, tuple) and b and b[0] == "array":
                return b[1]
            if isinstance(b, Poly):
                at = b.as_atom()
                if at is not None and at[0] == "var":
                    return at[1]
            raise Unsupported(f"iteration over {e.id}", e)
        if isinstance(e, ast.Attribute):
            return ast.unparse(e)
        raise Unsupported("iteration source", e)

    def _close(self, nm: str, u: Poly, ca: tuple, k: Poly, lo: Poly,
               hi: Poly, init: Poly) -> Poly:
        cp = Poly.atom(ca)
        # ---- sum:  u = carried + t
        t = u - cp
        if not _uses(t, ca):
            return init + Poly.atom(("sum", k, lo, hi, _lift_guard(t)))
        # ---- ite forms
        a = u.as_atom()
        if a is not None and a[0] == "ite":
            cond, x, y = a[1], a[2], a[3]
            if _uses(cond, ca):
                # if t > m: m = t   /   if t < m: m = t
                red = _minmax_ite(cond, x, y, cp) or _minmax_enum(u, cp)
                if red is not None:
                    kind, term = red
                    if not _uses(term, ca):
                        return Poly.atom((kind, k, lo, hi, term, init,
                                          ("true",)))
                return _opaque(nm, "conditional update on its own value")
            # guard independent of the carried value: distribute
            xs = self._step(x, ca)
            ys = self._step(y, ca)
            if xs is not None and ys is not None and xs[0] == ys[0] == "sum":
                return init + Poly.atom(("sum", k, lo, hi, ite(
                    cond, xs[1], ys[1])))
            for (p, q, c) in ((xs, ys, cond), (ys, xs, c_not(cond))):
                if p is not None and q is not None and p[0] in (
                        "maxred", "minred") and q == ("sum", Poly()):
                    return Poly.atom((p[0], k, lo, hi, p[1], init, c))
            for kind in ("min", "max"):
                tt = _piecewise_step(u, cp, kind)
                if tt is not None and not _uses(tt, ca):
                    return Poly.atom((kind + "red", k, lo, hi, tt, init,
                                      ("true",)))
            return _opaque(nm, "guarded update not recognised")
        st = self._step(u, ca)
        if st is not None and st[0] in ("maxred", "minred"):
            return Poly.atom((st[0], k, lo, hi, st[1], init, ("true",)))
        for kind in ("min", "max"):
            tt = _piecewise_step(u, cp, kind)
            if tt is not None and not _uses(tt, ca):
                return Poly.atom((kind + "red", k, lo, hi, tt, init,
                                  ("true",)))
        return _opaque(nm, "update is not a sum / max / min step")

    @staticmethod
    def _step(u: Poly, ca: tuple) -> tuple | None:
        """Classify a single-step update of the carried value `ca`."""
        cp = Poly.atom(ca)
        t = u - cp
        if not _uses(t, ca):
            return ("sum", t)
        a = u.as_atom()
        if a is not None and a[0] == "app" and a[1] in ("max", "min"):
            rest = [x for x in a[2] if x != cp]
            if len(rest) + 1 == len(a[2]) and not any(
                    _uses(x, ca) for x in rest):
                term = rest[0] if len(rest) == 1 else Poly.atom(
                    ("app", a[1], tuple(rest)))
                return ("maxred" if a[1] == "max" else "minred", term)
        if a is not None and a[0] == "ite":
            red = _minmax_ite(a[1], a[2], a[3], cp)
            if red is not None and not _uses(red[1], ca):
                return red
            red = _minmax_enum(u, cp)
            if red is not None and not _uses(red[1], ca):
                return red
        return None


#: the neutral element of a guarded min (max) step: "no update"
INF = Poly.var("+inf")
NEG_INF = Poly.var("-inf")


def _piecewise_step(u: Poly, cp: Poly, kind: str) -> Poly | None:
    """Write u as min(cp, T) (max(cp, T)) with T an ite-tree whose leaves
    are terms or +inf (-inf) = no update.  None if not of that form."""
    if u == cp:
        return INF if kind == "min" else NEG_INF
    a = u.as_atom()
    if a is None:
        return None
    if a[0] == "app" and a[1] == kind:
        rest = [x for x in a[2] if x != cp]
        if len(rest) + 1 != len(a[2]):
            return None
        return rest[0] if len(rest) == 1 else Poly.atom(
            ("app", kind, tuple(rest)))
    if a[0] == "ite":
        if cp.as_atom() in all_atoms(a[1]):
            # a leaf written as a comparison: `if t < m: m = t`
            red = _minmax_ite(a[1], a[2], a[3], cp) or _minmax_enum(u, cp)
            if red is not None and red[0] == kind + "red" and \
                    cp.as_atom() not in all_atoms(red[1]):
                return red[1]
            return None
        x = _piecewise_step(a[2], cp, kind)
        y = _piecewise_step(a[3], cp, kind)
        if x is None or y is None:
            return None
        return ite(a[1], x, y)
    return None


def _minmax_enum(u: Poly, cp: Poly) -> tuple[str, Poly] | None:
    """Decide by the 3 orderings of (key, m) whether an ite-tree computes
    max(m, key) or min(m, key)."""
    from sa import ordenum
    terms = ordenum.ite_cond_terms(u)
    others = [t for t in terms if t != cp]
    if cp not in terms or len(others) != 1:
        return None
    key = others[0]
    om = ordenum.OrderModel([key, cp])
    sel = {}
    try:
        for name, ranks in (("lt", (0, 1)), ("eq", (0, 0)), ("gt", (1, 0))):
            om.ranks = ranks
            sel[name] = om.select(u)
    except Unsupported:
        return None
    if sel["lt"] == cp and sel["gt"] == key and sel["eq"] in (cp, key):
        return "maxred", key
    if sel["lt"] == key and sel["gt"] == cp and sel["eq"] in (cp, key):
        return "minred", key
    return None


def _stored_arrays(ev: Evaluator, env: Env, body: list[ast.stmt]) \
        -> set[str]:
    out: set[str] = set()
    for n in ast.walk(ast.Module(body=body, type_ignores=[])):
        if isinstance(n, (ast.Assign, ast.AugAssign)):
            for t in (n.targets if isinstance(n, ast.Assign)
                      else [n.target]):
                if isinstance(t, ast.Subscript) and isinstance(
                        t.value, ast.Name):
                    b = env.vars.get(t.value.id)
                    nm = t.value.id
                    if isinstance(b, tuple) and b and b[0] == "array":
                        nm = b[1]
                    elif isinstance(b, Poly) and b.as_atom() and \
                            b.as_atom()[0] == "var":
                        nm = b.as_atom()[1]
                    out.add(nm)
    del ev
    return out


def _argmax_group(ua: Poly, m: Poly, a: Poly, key: Poly) -> Poly | None:
    """Decide by enumerating the 3 orderings of (key, m) whether `ua` is the
    group accumulator; returns the per-element term t or None."""
    from sa import ordenum
    om = ordenum.OrderModel([key, m])
    sel = {}
    try:
        for name, ranks in (("lt", (0, 1)), ("eq", (0, 0)), ("gt", (1, 0))):
            om.ranks = ranks
            sel[name] = om.select(ua)
    except Unsupported:
        return None
    if not all(isinstance(v, Poly) for v in sel.values()):
        return None
    if sel["lt"] != a:
        return None
    t = sel["eq"] - a
    if _uses(t, a.as_atom()) or _uses(t, m.as_atom()):
        return None
    if sel["gt"] != t:
        return None
    return t


def _minmax_ite(cond: tuple, x: Poly, y: Poly, cp: Poly) \
        -> tuple[str, Poly] | None:
    """ite(t > m, t, m) -> max ; ite(t < m, t, m) -> min (and <=, >=)."""
    if cond[0] not in ("lt", "le"):
        return None
    a, b = cond[1], cond[2]
    # cond: a < b
    if x == b and y == a:      # a<b ? b : a  -> max(a,b)
        kind = "maxred"
    elif x == a and y == b:    # a<b ? a : b  -> min(a,b)
        kind = "minred"
    else:
        return None
    if a == cp:
        return kind, b
    if b == cp:
        return kind, a
    return None


def _lift_guard(t: Poly) -> Poly:
    return t


def _opaque(nm: str, why: str) -> Poly:
    return Poly.atom(("opaque", nm, why))


def _wrap_simplify(p: Poly, lo: Poly) -> Poly:
    """x[lo-1] with lo == 0 is x[-1]: nothing to rewrite, kept for clarity."""
    del lo
    return p


def has_opaque(p: Any) -> list[tuple]:
    return [a for a in all_atoms(p) if a and a[0] in ("opaque", "carried")]


# --------------------------------------------------------- reference builders
def r_sum(depth: int, lo: Poly | int, hi: Poly, term: Poly) -> Poly:
    lo = Poly.const(lo) if isinstance(lo, int) else lo
    return Poly.atom(("sum", kvar(depth), lo, hi, term))


def r_red(kind: str, depth: int, lo: Poly | int, hi: Poly, term: Poly,
          init: Poly | int | Fraction, guard: tuple = ("true",)) -> Poly:
    lo = Poly.const(lo) if isinstance(lo, int) else lo
    init = init if isinstance(init, Poly) else Poly.const(init)
    return Poly.atom((kind, kvar(depth), lo, hi, term, init, guard))


def r_cell(arr: str, *idx: Poly | int) -> Poly:
    return Poly.atom(("cell", arr, tuple(
        Poly.const(i) if isinstance(i, int) else i for i in idx)))


def rename_bound(p: Poly, mapping: dict[int, int]) -> Poly:
    """Rename bound loop variables #k<i> -> #k<j> (for commuting sums)."""
    sub = {kvar(a).as_atom(): Poly.var(f"#tmp{b}")
           for a, b in mapping.items()}
    p = p.subst(sub)
    sub2 = {Poly.var(f"#tmp{b}").as_atom(): kvar(b)
            for b in mapping.values()}
    return p.subst(sub2)


__all__ = ["LoopSummariser", "kvar", "length_of", "has_opaque", "r_sum",
           "r_red", "r_cell", "rename_bound", "show", "c_and", "map_atom"]
