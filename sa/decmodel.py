"""Path model of the improved-bottom-left decoders (`_decode` kernels).

The body of the per-item loop is normalised *path by path*: straight-line
code runs through the term normaliser (`sa.symterm`), every comparison that
the facts of the path do not decide forks the path (atomic outcomes become
linear facts, pruned exactly by Fourier-Motzkin, `sa.casesplit`), and the
two kinds of inner loops of the decoders are summarised:

* a MOVE LOOP - a loop that calls the move kernels on the current row - is
  an event: the coordinates the row has on entry are recorded together with
  the arguments of the kernel calls, and the four coordinates are replaced
  by fresh symbols (what the kernels guarantee about them is proven on the
  kernels themselves, C01 D1.2/D1.3/D1.7 and C14 D14.3);
* a SEARCH LOOP - a `for` over a range that contains a move loop (the
  first-fit loop over the open bins) - is executed for one symbolic
  iteration; the paths that `break` continue behind the loop with their
  state, the exhausted loop continues with the state before the loop in
  which every variable and cell that a non-breaking iteration changes is
  unknown (cells of the current row become explicit garbage symbols).

Nothing here depends on the spelling of local names, on `if`/conditional
expression/early-exit forms, operand orders or temporaries: obligations are
stated over the values at the events and at the end of the iteration.
"""
from __future__ import annotations

import ast
from dataclasses import dataclass, field
from typing import Any

from sa.casesplit import Splitter
from sa.kern import make_evaluator
from sa.lin import Lin, consistent
from sa.srcmodel import FuncInfo, Repo, func_body
from sa.symterm import Env, Poly, Unsupported, c_not

ARRAYS = ("x", "y", "instance", "bin_starts", "bin_ends")
SCALARS = ("bin_width", "bin_height")


@dataclass
class Move:
    """A move loop reached on some path."""

    node: ast.stmt
    coords: dict[int, Any]            # column -> value on entry (or None)
    calls: list[tuple[FuncInfo, list[Any], ast.Call]]
    facts: list[Lin]
    trail: tuple
    sym: dict[int, Poly]              # column -> value after the loop
    serial: int
    in_search: bool = False
    env: Env | None = None
    search: int | None = None


@dataclass
class State:
    env: Env
    facts: list[Lin] = field(default_factory=list)
    trail: tuple = ()
    moves: list[Move] = field(default_factory=list)
    status: str = "run"               # run | break | continue | return
    ret: Any = None
    found_in: Any = None              # search-loop variable of a break path

    def fork(self) -> "State":
        return State(self.env.copy(), list(self.facts), self.trail,
                     list(self.moves), self.status, self.ret, self.found_in)


class DecodeModel:
    """See module docstring."""

    def __init__(self, repo: Repo, dec: FuncInfo, kernels: list[FuncInfo],
                 C: dict[str, int]) -> None:
        self.repo = repo
        self.dec = dec
        self.kernels = kernels
        self.C = C
        self.coord_cols = [C["IDX_LEFT_X"], C["IDX_BOTTOM_Y"],
                           C["IDX_RIGHT_X"], C["IDX_TOP_Y"]]
        self.ev = make_evaluator(repo, dec)
        self.ev.int_transparent = True
        self.sp = Splitter(max_cases=200000)
        self.problems: list[tuple[ast.AST, str]] = []
        self.moves: list[Move] = []
        self.finals: list[State] = []
        self.iter_paths = 0
        self._serial = 0
        self.searches: list[dict[str, Any]] = []
        self.garbage: set[Poly] = set()
        self._build()

    # ------------------------------------------------------------------ setup
    def _is_kernel_call(self, n: ast.AST) -> FuncInfo | None:
        if isinstance(n, ast.Call) and isinstance(n.func, ast.Name):
            r = self.repo.resolve(self.dec.module, n.func.id)
            if any(r is k for k in self.kernels):
                return r
        return None

    def _calls_kernel(self, n: ast.AST) -> bool:
        return any(self._is_kernel_call(c) is not None for c in ast.walk(n))

    def _is_move_loop(self, s: ast.stmt) -> bool:
        if not isinstance(s, (ast.While, ast.For)):
            return False
        if not self._calls_kernel(s):
            return False
        # the innermost loop around the kernel calls
        return not any(isinstance(c, (ast.While, ast.For)) and c is not s
                       and self._calls_kernel(c) for c in ast.walk(s))

    def _build(self) -> None:
        dec = self.dec
        P = dec.params
        body = func_body(dec)
        self.params = P
        env = Env()
        for p, canon in zip(P, ("x", "y", "instance", "bin_width",
                                "bin_height", "bin_starts", "bin_ends")):
            if canon in ARRAYS:
                env.vars[p] = ("array", canon)
            else:
                env.vars[p] = Poly.var(canon)
        loop = next((s for s in body if isinstance(s, ast.For)
                     and self._calls_kernel(s)), None)
        if loop is None:
            raise Unsupported("no loop over the items that calls the move "
                              "kernels")
        self.loop = loop
        # ---- before the loop
        pre = env.copy()
        for s in body:
            if s is loop:
                break
            try:
                pre = self.ev.stmt(pre, s)
            except Unsupported as u:
                self.problems.append((s, f"before the item loop: {u}"))
        self.pre = pre
        # ---- loop header: index and item
        xarr = P[0]
        it = loop.iter
        self.i = Poly.var("i")
        self.item = Poly.atom(("cell", "x", (self.i,)))
        env_it = env.copy()
        ok_head = False
        if isinstance(it, ast.Call) and isinstance(it.func, ast.Name):
            if it.func.id == "enumerate" and len(it.args) == 1 and \
                    not it.keywords and ast.unparse(it.args[0]) == xarr and \
                    isinstance(loop.target, ast.Tuple) and len(
                    loop.target.elts) == 2 and all(isinstance(
                        t, ast.Name) for t in loop.target.elts):
                env_it.vars[loop.target.elts[0].id] = self.i
                env_it.vars[loop.target.elts[1].id] = self.item
                ok_head = True
            elif it.func.id == "range" and len(it.args) == 1 and \
                    not it.keywords and ast.unparse(it.args[0]).replace(
                    " ", "") == f"len({xarr})" and isinstance(
                    loop.target, ast.Name):
                env_it.vars[loop.target.id] = self.i
                ok_head = True
        self.head_ok = ok_head
        # ---- loop-carried scalars: symbolic at the start of an iteration
        assigned = set()
        for n in ast.walk(loop):
            if isinstance(n, ast.Name) and isinstance(n.ctx, ast.Store):
                assigned.add(n.id)
        self.carried = sorted(v for v in assigned if v in pre.vars
                              and v not in P)
        self.carried_sym = {}
        for v in self.carried:
            self.carried_sym[v] = Poly.var(f"{v}@in")
            env_it.vars[v] = self.carried_sym[v]
        # other pre-loop scalars that the loop does not assign keep their
        # value
        for k, v in pre.vars.items():
            env_it.vars.setdefault(k, v)
        st = State(env_it)
        # the item is a signed id: never 0 (P2); index facts
        st.facts += self.sp.facts_of(("le", Poly.const(0), self.i), True)[0]
        outs = self._exec([st], loop.body)
        for o in outs:
            if o.status in ("run", "continue"):
                self.finals.append(o)
            else:
                self.problems.append((loop, f"a path of the item loop ends "
                                      f"with `{o.status}`"))
        # ---- after the loop
        after = body[body.index(loop) + 1:]
        self.ret = None
        env_after = env.copy()
        for k, v in pre.vars.items():
            env_after.vars.setdefault(k, v)
        for v in self.carried:
            env_after.vars[v] = Poly.var(f"{v}@out")
        for s in after:
            if isinstance(s, ast.Return) and s.value is not None:
                try:
                    self.ret = self.ev.expr(env_after, s.value)
                except Unsupported as u:
                    self.problems.append((s, f"return value: {u}"))
            else:
                try:
                    env_after = self.ev.stmt(env_after, s)
                except Unsupported as u:
                    self.problems.append((s, f"after the item loop: {u}"))

    # ------------------------------------------------------------- execution
    def _exec(self, states: list[State], stmts: list[ast.stmt]) \
            -> list[State]:
        for s in stmts:
            nxt: list[State] = []
            for st in states:
                if st.status != "run":
                    nxt.append(st)
                else:
                    nxt += self._stmt(st, s)
            states = nxt
            if len(states) > 4000:
                raise Unsupported("too many paths through the decoder")
        return states

    def _branch(self, st: State, c: tuple) -> list[tuple[State, bool]]:
        k = c[0]
        if k == "true":
            return [(st, True)]
        if k == "false":
            return [(st, False)]
        if k == "opaque":
            return [(st, True), (st.fork(), False)]
        if k == "not":
            return [(s, not t) for s, t in self._branch(st, c[1])]
        if k in ("and", "or"):
            stop = k == "or"
            done: list[tuple[State, bool]] = []
            cur = [(st, not stop)]
            for x in c[1:]:
                nxt: list[tuple[State, bool]] = []
                for s, t in cur:
                    if t == stop:
                        done.append((s, t))
                    else:
                        nxt += self._branch(s, x)
                cur = nxt
            return done + cur
        d = self.sp.decide(c, st.facts)
        if d is not None:
            return [(st, d)]
        u = self.sp._undecided(c, st.facts)
        if u is None:
            raise Unsupported("cannot decide a condition of the decoder")
        out: list[tuple[State, bool]] = []
        for truth in (True, False):
            for alt in self.sp.facts_of(u, truth):
                nf = st.facts + alt
                if consistent(nf):
                    s2 = st.fork()
                    s2.facts = nf
                    s2.trail = st.trail + ((u, truth),)
                    out += self._branch(s2, c)
        return out

    def _cond(self, st: State, test: ast.expr) -> tuple:
        try:
            return self.ev.cond(st.env, test)
        except Unsupported as u:
            self.problems.append((test, f"condition not normalised: {u}"))
            return ("opaque", ast.unparse(test))

    def _stmt(self, st: State, s: ast.stmt) -> list[State]:
        if isinstance(s, ast.If):
            out: list[State] = []
            for s2, truth in self._branch(st, self._cond(st, s.test)):
                out += self._exec([s2], s.body if truth else s.orelse)
            return out
        if isinstance(s, (ast.Break, ast.Continue)):
            st.status = "break" if isinstance(s, ast.Break) else "continue"
            return [st]
        if isinstance(s, ast.Return):
            st.status = "return"
            return [st]
        if isinstance(s, (ast.Pass,)):
            return [st]
        if isinstance(s, (ast.While, ast.For)):
            if self._is_move_loop(s):
                return [self._move(st, s)]
            if isinstance(s, ast.For) and self._calls_kernel(s):
                return self._search(st, s)
            self.problems.append((s, "a loop of the decoder that is neither "
                                     "a move loop nor the search over the "
                                     "bins"))
            self._havoc_names(st, s)
            return [st]
        try:
            st.env = self.ev.stmt(st.env, s)
        except Unsupported as u:
            self.problems.append((s, f"statement not normalised: {u}"))
            self._havoc_names(st, s)
        return [st]

    def _havoc_names(self, st: State, s: ast.stmt) -> None:
        for n in ast.walk(s):
            if isinstance(n, ast.Name) and isinstance(n.ctx, ast.Store):
                self._serial += 1
                st.env.vars[n.id] = Poly.var(f"{n.id}?{self._serial}")

    # ------------------------------------------------------------- move loop
    def row_key(self, col: int) -> tuple:
        return ("y", (self.i, Poly.const(col)))

    def _move(self, st: State, s: ast.stmt) -> State:
        self._serial += 1
        n = self._serial
        coords = {c: st.env.stores.get(self.row_key(c))
                  for c in self.coord_cols}
        calls = []
        for c in ast.walk(s):
            k = self._is_kernel_call(c)
            if k is not None:
                try:
                    if c.keywords:
                        raise Unsupported("keyword arguments")
                    args = [self.ev.expr(st.env, a) for a in c.args]
                except Unsupported as u:
                    self.problems.append((c, f"kernel arguments: {u}"))
                    args = []
                calls.append((k, args, c))
        # nothing but the kernels may write into arrays inside the loop
        for x in ast.walk(s):
            if isinstance(x, (ast.Assign, ast.AugAssign, ast.AnnAssign)):
                tg = x.targets if isinstance(x, ast.Assign) else [x.target]
                if any(isinstance(t, (ast.Subscript, ast.Attribute))
                       for t in tg):
                    self.problems.append((x, "a store inside the move loop"))
        sym = {c: Poly.var(f"moved{n}.{c}") for c in self.coord_cols}
        mv = Move(s, coords, calls, list(st.facts), st.trail, sym, n,
                  env=st.env.copy())
        self.moves.append(mv)
        st.moves = st.moves + [mv]
        for c in self.coord_cols:
            st.env.stores[self.row_key(c)] = sym[c]
        self._havoc_names(st, s)
        return st

    # ----------------------------------------------------------- search loop
    def _search(self, st: State, s: ast.For) -> list[State]:
        it = s.iter
        lo = hi = None
        if isinstance(it, ast.Call) and isinstance(it.func, ast.Name) and \
                it.func.id == "range" and not it.keywords and len(
                it.args) in (1, 2) and isinstance(s.target, ast.Name):
            try:
                if len(it.args) == 1:
                    lo, hi = Poly.const(0), self.ev.num(st.env, it.args[0])
                else:
                    lo = self.ev.num(st.env, it.args[0])
                    hi = self.ev.num(st.env, it.args[1])
            except Unsupported:
                lo = hi = None
        if lo is None or s.orelse:
            self.problems.append((s, "the loop over the bins is not a plain "
                                     "`for b in range(...)`"))
            self._havoc_names(st, s)
            return [st]
        self._serial += 1
        tag = self._serial
        b = Poly.var(f"{s.target.id}@{tag}")
        assigned = sorted({n.id for n in ast.walk(s) if isinstance(
            n, ast.Name) and isinstance(n.ctx, ast.Store)} - {s.target.id})
        arrays_written = set()
        for x in ast.walk(s):
            tg = []
            if isinstance(x, ast.Assign):
                tg = x.targets
            elif isinstance(x, (ast.AugAssign, ast.AnnAssign)):
                tg = [x.target]
            for t in tg:
                if isinstance(t, ast.Subscript):
                    try:
                        arrays_written.add(self.ev._arr(st.env, t.value))
                    except Unsupported:
                        self.problems.append((x, "store into an unknown "
                                                 "array"))
        if self._calls_kernel(s):
            arrays_written.add("y")

        def start(keep: set[tuple], dirty: set[tuple]) -> State:
            s0 = st.fork()
            s0.env.vars[s.target.id] = b
            for v in assigned:
                if v in s0.env.vars:
                    s0.env.vars[v] = Poly.var(f"{v}@it{tag}")
            for k in list(s0.env.stores):
                if k[0] in arrays_written and k not in keep:
                    del s0.env.stores[k]
            for k in dirty:
                g = Poly.var(f"garbage{tag}.{k[0]}."
                             + ".".join(str(x) for x in k[1]))
                self.garbage.add(g)
                s0.env.stores[k] = g
            s0.facts = s0.facts + self.sp.facts_of(("le", lo, b), True)[0] \
                + self.sp.facts_of(("lt", b, hi), True)[0]
            s0.moves = list(st.moves)
            return s0
        n_moves = len(self.moves)
        n_prob = len(self.problems)
        outs = self._exec([start(set(), set())], s.body)
        cont = [o for o in outs if o.status in ("run", "continue")]
        brk = [o for o in outs if o.status == "break"]

        def written(states: list[State], base: Env) -> set[tuple]:
            w: set[tuple] = set()
            for o in states:
                for k, v in o.env.stores.items():
                    if k[0] in arrays_written and base.stores.get(k) != v:
                        w.add(k)
            return w
        s_probe = start(set(), set())
        dirty = written(cont, s_probe.env)
        touched = dirty | written(brk, s_probe.env)
        keep = {k for k in st.env.stores if k[0] in arrays_written
                and k not in touched}
        # second pass with the exact iteration-start state
        del self.moves[n_moves:]
        del self.problems[n_prob:]
        s1 = start(keep | (touched - dirty), dirty)
        outs = self._exec([s1], s.body)
        cont = [o for o in outs if o.status in ("run", "continue")]
        brk = [o for o in outs if o.status == "break"]
        rest = [o for o in outs if o.status == "return"]
        self.iter_paths += len(outs)
        for mv in self.moves[n_moves:]:
            mv.in_search = True
            if mv.search is None:
                mv.search = tag
        # ---- exhausted loop
        ex = st.fork()
        changed = set()
        for o in cont:
            for v in assigned:
                if o.env.vars.get(v) != s1.env.vars.get(v):
                    changed.add(v)
        for v in assigned:
            if v in changed or v not in st.env.vars:
                self._serial += 1
                ex.env.vars[v] = Poly.var(f"{v}?{self._serial}")
        self._serial += 1
        ex.env.vars[s.target.id] = Poly.var(f"{s.target.id}?{self._serial}")
        for k in dirty:
            g = Poly.var(f"garbage{tag}x.{k[0]}."
                         + ".".join(str(x) for x in k[1]))
            self.garbage.add(g)
            ex.env.stores[k] = g
        self.searches.append({"node": s, "lo": lo, "hi": hi, "var": b,
                              "tag": tag,
                              "continuing": cont, "breaking": brk,
                              "start": s1, "pre": st, "changed": changed})
        out = [ex]
        for o in brk:
            o.status = "run"
            o.found_in = b
            out.append(o)
        return out + rest

    # --------------------------------------------------------------- queries
    def coords_of(self, env: Env) -> dict[int, Any]:
        return {c: env.stores.get(self.row_key(c)) for c in self.coord_cols}

    def is_garbage(self, v: Any) -> bool:
        if not isinstance(v, Poly):
            return True
        return any(Poly.atom(a) in self.garbage for a in v.atoms())


def negate(c: tuple) -> tuple:
    return c_not(c)
