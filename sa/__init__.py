"""Static-analysis machinery for the moptipyapps properties (see DESIGN.md)."""
