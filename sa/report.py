"""Obligation bookkeeping, known findings, evidence and exit codes (G2/G3)."""
from __future__ import annotations

import ast
import hashlib
import json
import re
import os
import time
from dataclasses import dataclass, field
from typing import Any

from sa.srcmodel import AnalysisError, FuncInfo, Module, Repo

VERIF_DIR = os.path.dirname(os.path.dirname(os.path.abspath(__file__)))
EVIDENCE_DIR = os.environ.get("VERIF_EVIDENCE_DIR",
                              os.path.join(VERIF_DIR, "evidence"))
KNOWN_FINDINGS = os.path.join(VERIF_DIR, "known_findings.json")


@dataclass
class Obligation:
    rule: str
    where: str
    function: str
    construct: str
    ok: bool
    detail: str = ""
    witness: Any = None
    nontrivial: bool = True

    def key(self) -> str:
        return f"{self.rule}|{self.function}|{self.construct}"

    def as_dict(self) -> dict[str, Any]:
        d = {"rule": self.rule, "where": self.where,
             "function": self.function, "construct": self.construct,
             "status": "discharged" if self.ok else "REFUTED/UNDISCHARGED",
             "detail": self.detail}
        if self.witness is not None:
            d["witness"] = self.witness
        return d


def norm_construct(node: ast.AST | str) -> str:
    """A position-independent rendering of a construct (G3)."""
    if isinstance(node, str):
        return " ".join(node.split())
    try:
        return " ".join(ast.unparse(node).split())[:200]
    except Exception:  # noqa: BLE001
        return type(node).__name__


@dataclass
class Ctx:
    """The state of one check run."""

    prop: str
    tier: str
    repo: Repo
    obligations: list[Obligation] = field(default_factory=list)
    counters: dict[str, int] = field(default_factory=dict)
    notes: list[str] = field(default_factory=list)
    assumptions: list[str] = field(default_factory=list)
    explanation: str = ""
    rules: dict[str, str] = field(default_factory=dict)
    exhaustive: bool = False
    t0: float = field(default_factory=time.time)

    # --------------------------------------------------------------- api
    def count(self, key: str, n: int = 1) -> None:
        self.counters[key] = self.counters.get(key, 0) + n

    def rule(self, rid: str, text: str) -> None:
        self.rules[rid] = text

    def ob(self, rule: str, mod: Module | FuncInfo | None, node: Any,
           ok: bool, detail: str = "", *, function: str | None = None,
           construct: str | None = None, witness: Any = None,
           nontrivial: bool = True) -> bool:
        """Record one obligation."""
        fi = mod if isinstance(mod, FuncInfo) else None
        module = fi.module if fi else mod
        if module is not None and node is not None and hasattr(
                node, "lineno"):
            where = (f"{module.relpath}:{node.lineno}:"
                     f"{getattr(node, 'col_offset', 0)}")
        elif fi is not None:
            where = fi.where
        elif module is not None:
            where = module.relpath
        else:
            where = "-"
        fn = function or (fi.qualname if fi else "-")
        cons = construct if construct is not None else (
            norm_construct(node) if node is not None else "-")
        self.obligations.append(Obligation(
            rule, where, fn, norm_construct(cons), bool(ok), detail,
            witness, nontrivial))
        return bool(ok)

    def floor(self, what: str, got: int, minimum: int) -> None:
        """G5: a rule must match at least the hand-confirmed count."""
        self.counters[what] = got
        if got < minimum:
            raise AnalysisError(
                f"rule-instance floor: {what} matched {got} < {minimum}")

    def need(self, cond: Any, msg: str) -> Any:
        """An anchor the rules rely on must exist."""
        if not cond:
            raise AnalysisError(f"anchor vanished: {msg}")
        return cond


def load_known() -> dict[str, Any]:
    if not os.path.isfile(KNOWN_FINDINGS):
        return {"open": [], "fixed": []}
    with open(KNOWN_FINDINGS, encoding="utf-8") as fh:
        return json.load(fh)


#: wording of obligations that failed because the analysis could not bring
#: a construct into a decidable form (as opposed to: decided, and wrong)
_UNDECIDED = re.compile(
    r"cannot normalise|not normalised|cannot be normalised|cannot be "
    r"modelled|case analysis failed|cannot summarise|"
    r"not understood|cannot be case-split|cannot model|could not be "
    r"normalised|analysis does not track|not recognised")


def is_undecided(o: Obligation) -> bool:
    return bool(_UNDECIDED.search(o.detail or ""))


def finish(ctx: Ctx) -> int:
    """Print the reports, write evidence and return the exit code."""
    known = load_known()
    open_keys = {e["key"]: e for e in known.get("open", [])
                 if e.get("property") == ctx.prop}
    bad = [o for o in ctx.obligations if not o.ok]
    reported_known: set[str] = set()
    fresh: list[Obligation] = []
    for o in bad:
        k = o.key()
        if k in open_keys:
            if k not in reported_known:
                reported_known.add(k)
                print(f"KNOWN-FINDING: property={ctx.prop} "
                      f"{open_keys[k].get('what', k)}")
        else:
            fresh.append(o)
    n_ob = len(ctx.obligations)
    n_ok = sum(1 for o in ctx.obligations if o.ok)
    print(f"[{ctx.prop}] tier={ctx.tier} obligations={n_ob} "
          f"discharged={n_ok} counters={json.dumps(ctx.counters)}")
    rc = 0
    os.makedirs(os.path.join(EVIDENCE_DIR, "replay"), exist_ok=True)
    seen: set[str] = set()
    if fresh and all(is_undecided(o) for o in fresh):
        # Nothing was found to be wrong, but some construct could not be
        # brought into the form a rule decides (e.g. after a refactoring):
        # that is no violation - the check declares itself unable to decide
        # this tree (exit 2), it does not pass silently either.
        for o in fresh:
            if o.key() in seen:
                continue
            seen.add(o.key())
            print(f"  {o.where}: [{o.rule}] in {o.function}: {o.construct}")
            print(f"      {o.detail}")
        print(f"ANALYSIS-ERROR property={ctx.prop}: undecided - "
              f"{len(seen)} construct(s) could not be normalised; no "
              "violation was found")
        write_evidence(ctx, 0, sorted(reported_known))
        return 2
    for o in fresh:
        if o.key() in seen:
            continue
        seen.add(o.key())
        digest = hashlib.sha1(o.key().encode()).hexdigest()[:12]
        path = os.path.join(EVIDENCE_DIR, "replay",
                            f"{ctx.prop}-{digest}.json")
        with open(path, "w", encoding="utf-8") as fh:
            json.dump({"property": ctx.prop, "key": o.key(),
                       **o.as_dict()}, fh, indent=1, default=str)
        print(f"  {o.where}: [{o.rule}] in {o.function}: {o.construct}")
        print(f"      {o.detail}")
        if o.witness is not None:
            print(f"      witness: {json.dumps(o.witness, default=str)}")
        print(f"VIOLATION property={ctx.prop} replay={path}")
        rc = 1
    write_evidence(ctx, len(fresh), sorted(reported_known))
    return rc


def write_evidence(ctx: Ctx, n_viol: int, known: list[str]) -> None:
    n_ob = len(ctx.obligations)
    n_ok = sum(1 for o in ctx.obligations if o.ok)
    distinct = len({o.key() for o in ctx.obligations if o.nontrivial})
    samples: list[dict[str, Any]] = []
    per_rule: dict[str, int] = {}
    for o in ctx.obligations:
        per_rule[o.rule] = per_rule.get(o.rule, 0) + 1
        if per_rule[o.rule] <= 2 and len(samples) < 40:
            samples.append(o.as_dict())
    for o in ctx.obligations:
        if not o.ok and o.as_dict() not in samples:
            samples.append(o.as_dict())
    cov: dict[str, Any] = {
        "explanation": ctx.explanation,
        "rules": ctx.rules,
        "obligations": n_ob,
        "discharged": n_ok,
        "evaluations": max(n_ob, 1),
        "distinct_nontrivial": distinct,
        "rule": "one obligation per (rule, function, construct) instance "
                "found in /repo's current source; non-trivial = needed "
                "more than constant folding to discharge",
        "obligations_per_rule": per_rule,
        "samples": samples or [{"note": "no obligations"}],
        "exhaustive": ctx.exhaustive,
        "trusted_base": ["CPython ast", "model of numba/numpy semantics "
                         "(DESIGN.md G7)", "this checker's own code"],
        "checker_cmd": f"/venv/bin/python -m sa.check {ctx.prop} "
                       f"--tier {ctx.tier}",
        "known_findings_reported": known,
        "notes": ctx.notes,
    }
    cov.update(ctx.counters)
    ev = {
        "property_id": ctx.prop,
        "tier": ctx.tier,
        "seed": int(os.environ.get("VERIF_SEED", "0") or 0),
        "level": "other",
        "coverage": cov,
        "assumptions": ctx.assumptions,
        "wall_s": round(time.time() - ctx.t0, 3),
        "violations": n_viol,
    }
    os.makedirs(EVIDENCE_DIR, exist_ok=True)
    with open(os.path.join(EVIDENCE_DIR, f"{ctx.prop}.json"), "w",
              encoding="utf-8") as fh:
        json.dump(ev, fh, indent=1, default=str)
