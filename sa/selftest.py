"""Mutation self-test of the checkers (DESIGN section 6) - filled in later."""
from __future__ import annotations


def run_selftest(prop: str) -> int:
    from sa.selftests import run_for
    return run_for(prop)
