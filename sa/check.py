"""Command line entry: ``python -m sa.check <id> --tier quick|thorough``."""
from __future__ import annotations

import argparse
import importlib
import json
import os
import sys
import traceback

from sa.report import Ctx, finish
from sa.srcmodel import AnalysisError, Repo


def run_check(prop: str, tier: str, root: str | None = None) -> int:
    """Run one property check and return its exit code."""
    try:
        mod = importlib.import_module(f"sa.checks.{prop.lower()}")
    except ModuleNotFoundError:
        print(f"ANALYSIS-ERROR property={prop}: no check module")
        return 2
    try:
        repo = Repo(root)
        ctx = Ctx(prop, tier, repo)
        mod.run(ctx)
        if not ctx.obligations:
            raise AnalysisError("check produced no obligations")
        return finish(ctx)
    except AnalysisError as ae:
        print(f"ANALYSIS-ERROR property={prop}: {ae}")
        return 2
    except Exception:  # noqa: BLE001
        traceback.print_exc()
        print(f"ANALYSIS-ERROR property={prop}: internal exception")
        return 2


def main() -> int:
    ap = argparse.ArgumentParser()
    ap.add_argument("prop")
    ap.add_argument("--tier", default=os.environ.get("VERIF_TIER", "quick"),
                    choices=["quick", "thorough"])
    ap.add_argument("--root", default=None)
    ap.add_argument("--replay", default=None)
    args = ap.parse_args()
    if args.replay:
        with open(args.replay, encoding="utf-8") as fh:
            rep = json.load(fh)
        print(json.dumps(rep, indent=1))
        print("re-running the check that produced this report:")
    rc = run_check(args.prop.upper(), args.tier, args.root)
    if rc == 0 and args.tier == "thorough":
        from sa.selftest import run_selftest
        rc = run_selftest(args.prop.upper())
    return rc


if __name__ == "__main__":
    sys.exit(main())
