"""E6 - side effects: which parameters may a function mutate?"""
from __future__ import annotations

import ast
from typing import Any

from sa.srcmodel import ClassInfo, FuncInfo, Repo, dotted_name

MUTATORS = {
    "fill", "sort", "clear", "append", "extend", "insert", "pop", "remove",
    "reverse", "put", "itemset", "resize", "partition", "setfield",
    "setflags", "update", "add", "discard", "popitem", "setdefault",
    "byteswap",
}
VIEW_METHODS = {"reshape", "view", "ravel", "transpose", "squeeze",
                "swapaxes", "diagonal"}
VIEW_ATTRS = {"T", "real", "imag", "flat"}
#: numpy module-level functions that never write to their positional inputs
#: (unless `out=` is given)
PURE_NP = {
    "sum", "exp", "sqrt", "tanh", "arctan", "sin", "cos", "arccos", "abs",
    "array", "empty", "zeros", "ones", "isfinite", "argsort", "min", "max",
    "minimum", "maximum", "log", "log1p", "expm1", "square", "dot", "full",
    "concatenate", "vstack", "hstack", "array_equal", "all", "any",
    "nextafter", "linspace", "isnan", "isinf", "mean", "median", "std",
    "var", "prod", "cumsum", "diff", "where", "unique", "floor", "ceil",
    "sign", "clip", "flatnonzero", "nonzero", "argmin", "argmax", "round",
    "rint", "arctan2", "hypot", "fabs", "power", "asarray", "copy",
    "ascontiguousarray", "empty_like", "zeros_like", "ones_like",
    "array_str", "array2string", "searchsorted", "lexsort", "count_nonzero",
    "absolute", "negative", "add", "subtract", "multiply", "divide",
    "floor_divide", "mod", "remainder", "equal", "not_equal", "less",
    "less_equal", "greater", "greater_equal", "isclose", "allclose",
    "errstate", "dtype", "can_cast", "issubdtype", "iinfo", "finfo",
    "arange", "eye", "identity", "tile", "repeat", "stack", "sort",
    "fromstring", "transpose", "reshape", "ravel", "sinh", "cosh", "cbrt",
    "exp2", "log2", "log10", "sinc", "trapz", "interp",
}
#: numpy functions writing into a positional destination: name -> index
NP_DEST = {"copyto": 0, "put": 0, "place": 0, "putmask": 0, "fill_diagonal": 0}
PURE_BUILTINS = {
    "len", "int", "float", "str", "repr", "abs", "min", "max", "range",
    "enumerate", "zip", "isinstance", "type", "tuple", "list", "sorted",
    "sum", "bool", "print", "round", "fsum", "isfinite", "id", "hash",
    "iter", "next", "reversed", "all", "any", "map", "filter", "set",
    "frozenset", "dict", "bytes", "callable", "getattr", "hasattr",
    "cast", "divmod", "pow", "format", "ord", "chr",
}


class Effects:
    """Computes, per function, the set of parameters that may be mutated."""

    def __init__(self, repo: Repo) -> None:
        self.repo = repo
        self._memo: dict[FuncInfo, dict[str, list[tuple[ast.AST, str]]]] = {}
        self._active: set[FuncInfo] = set()

    def mutated(self, fi: FuncInfo) -> dict[str, list[tuple[ast.AST, str]]]:
        """param name -> list of (node, reason)."""
        if fi in self._memo:
            return self._memo[fi]
        if fi in self._active:
            return {}
        self._active.add(fi)
        try:
            res = self._analyse(fi)
        finally:
            self._active.discard(fi)
        self._memo[fi] = res
        return res

    def _analyse(self, fi: FuncInfo) -> dict[str, list[tuple[ast.AST, str]]]:
        params = fi.params
        a = fi.node.args
        allp = params + [x.arg for x in a.kwonlyargs]
        #: local name -> set of params it may alias
        alias: dict[str, set[str]] = {p: {p} for p in allp}
        res: dict[str, list[tuple[ast.AST, str]]] = {}

        def roots(e: ast.AST | None) -> set[str]:
            """Which params may expression `e` be a view of?"""
            if e is None:
                return set()
            if isinstance(e, ast.Name):
                return set(alias.get(e.id, ()))
            if isinstance(e, ast.Subscript):
                return roots(e.value)
            if isinstance(e, ast.Attribute) and e.attr in VIEW_ATTRS:
                return roots(e.value)
            if isinstance(e, ast.Call):
                f = e.func
                if isinstance(f, ast.Attribute) and f.attr in VIEW_METHODS:
                    return roots(f.value)
                dn = dotted_name(f) or ""
                if dn.split(".")[-1] in ("asarray", "ascontiguousarray",
                                         "reshape", "ravel", "transpose",
                                         "cast") and e.args:
                    return roots(e.args[-1] if dn.endswith("cast")
                                 else e.args[0])
                return set()
            if isinstance(e, ast.IfExp):
                return roots(e.body) | roots(e.orelse)
            if isinstance(e, (ast.Tuple, ast.List)):
                out: set[str] = set()
                for x in e.elts:
                    out |= roots(x)
                return out
            if isinstance(e, ast.Starred):
                return roots(e.value)
            return set()

        def hit(e: ast.AST, node: ast.AST, why: str) -> None:
            for p in roots(e):
                res.setdefault(p, []).append((node, why))

        # pass 1: aliases (flow-insensitive, to a fixpoint)
        changed = True
        while changed:
            changed = False
            for n in ast.walk(fi.node):
                tgts: list[tuple[ast.expr, ast.expr | None]] = []
                if isinstance(n, ast.Assign):
                    tgts = [(t, n.value) for t in n.targets]
                elif isinstance(n, ast.AnnAssign) and n.value is not None:
                    tgts = [(n.target, n.value)]
                elif isinstance(n, ast.NamedExpr):
                    tgts = [(n.target, n.value)]
                elif isinstance(n, (ast.For, ast.comprehension)):
                    tgts = [(n.target, n.iter)]
                elif isinstance(n, ast.withitem) and n.optional_vars:
                    tgts = [(n.optional_vars, n.context_expr)]
                for t, v in tgts:
                    pairs: list[tuple[ast.expr, ast.expr | None]] = []
                    if isinstance(t, ast.Tuple) and isinstance(
                            v, ast.Tuple) and len(t.elts) == len(v.elts):
                        pairs = list(zip(t.elts, v.elts))
                    elif isinstance(t, ast.Tuple):
                        pairs = [(x, v) for x in t.elts]
                    else:
                        pairs = [(t, v)]
                    for tt, vv in pairs:
                        if isinstance(tt, ast.Name):
                            r = roots(vv)
                            cur = alias.setdefault(tt.id, set())
                            if not r <= cur:
                                cur |= r
                                changed = True

        # pass 2: mutations
        for n in ast.walk(fi.node):
            if isinstance(n, (ast.Assign, ast.AugAssign, ast.AnnAssign)):
                targets = n.targets if isinstance(n, ast.Assign) \
                    else [n.target]
                for t in targets:
                    for tt in (t.elts if isinstance(t, ast.Tuple) else [t]):
                        if isinstance(tt, ast.Subscript):
                            hit(tt.value, n, "subscript store")
                        elif isinstance(tt, ast.Attribute) and \
                                isinstance(n, ast.AugAssign):
                            pass
                if isinstance(n, ast.AugAssign) and isinstance(
                        n.target, ast.Name):
                    # `a += x` on an array mutates in place
                    if n.target.id in alias and alias[n.target.id] and \
                            n.target.id not in allp:
                        hit(n.target, n, "augmented assignment to view")
            elif isinstance(n, ast.Delete):
                for t in n.targets:
                    if isinstance(t, ast.Subscript):
                        hit(t.value, n, "del subscript")
            elif isinstance(n, ast.Call):
                self._call(fi, n, roots, hit)
        return res

    def _call(self, fi: FuncInfo, n: ast.Call, roots: Any, hit: Any) -> None:
        f = n.func
        for kw in n.keywords:
            if kw.arg == "out" and roots(kw.value):
                hit(kw.value, n, "passed as out=")
        if isinstance(f, ast.Attribute):
            if f.attr in MUTATORS and roots(f.value):
                hit(f.value, n, f"mutator method .{f.attr}()")
                return
        target = self.resolve_callee(fi, f)
        args = list(n.args)
        if isinstance(target, FuncInfo):
            cparams = target.params
            off = 0
            if target.cls is not None and cparams and cparams[0] in (
                    "self", "cls") and not _is_static(target):
                off = 1
            sub = self.mutated(target)
            for i, a in enumerate(args):
                if isinstance(a, ast.Starred):
                    continue
                j = i + off
                if j < len(cparams) and cparams[j] in sub and roots(a):
                    hit(a, n, f"passed to {target.qualname}, which mutates "
                        f"its parameter {cparams[j]!r}")
            for kw in n.keywords:
                if kw.arg in sub and roots(kw.value):
                    hit(kw.value, n, f"passed to {target.qualname} as "
                        f"{kw.arg}, which is mutated there")
            return
        dn = dotted_name(f) or ""
        last = dn.split(".")[-1]
        if isinstance(target, tuple) and target[0] == "ext":
            ext = target[1]
            if ext.startswith("numpy.") or dn.startswith("np."):
                if last in NP_DEST:
                    k = NP_DEST[last]
                    if k < len(args):
                        hit(args[k], n, f"destination of np.{last}")
                    return
                if last in PURE_NP:
                    # ufunc third positional = out
                    if last in ("add", "subtract", "multiply", "divide",
                                "minimum", "maximum", "power") and len(
                            args) >= 3:
                        hit(args[2], n, f"out argument of np.{last}")
                    elif last in ("exp", "sqrt", "log", "log1p", "tanh",
                                  "arctan", "square", "abs", "negative",
                                  "sin", "cos") and len(args) >= 2:
                        hit(args[1], n, f"out argument of np.{last}")
                    return
            if last in PURE_BUILTINS or ext.startswith(
                    ("math.", "typing.", "pycommons.types",
                     "pycommons.strings", "pycommons.math")):
                return
        if isinstance(f, ast.Name) and f.id in PURE_BUILTINS:
            return
        if isinstance(f, ast.Attribute) and not roots(f.value):
            # method of something else; arguments may be mutated by unknown
            pass
        # unknown callee: flag array-like params passed in
        for a in args:
            if roots(a):
                hit(a, n, f"passed to unresolved callee "
                    f"{ast.unparse(f)} (may mutate)")
        for kw in n.keywords:
            if roots(kw.value):
                hit(kw.value, n, f"passed to unresolved callee "
                    f"{ast.unparse(f)} (may mutate)")

    def resolve_callee(self, fi: FuncInfo, f: ast.expr) -> Any:
        repo = self.repo
        if isinstance(f, ast.Name):
            # nested function of the enclosing function?
            q = f"{fi.qualname}.<locals>.{f.id}"
            if q in fi.module.funcs:
                return fi.module.funcs[q]
            r = repo.resolve(fi.module, f.id)
            if isinstance(r, ClassInfo):
                init = repo.lookup_method(r, "__init__")
                return init if init is not None else ("ext", f.id)
            return r
        if isinstance(f, ast.Attribute):
            if isinstance(f.value, ast.Name) and f.value.id == "self" \
                    and fi.cls is not None:
                m = repo.lookup_method(fi.cls, f.attr)
                if m is not None:
                    return m
                return ("ext", f"self.{f.attr}")
            r = repo.resolve_expr(fi.module, f)
            return r
        return ("ext", ast.unparse(f))


def _is_static(fi: FuncInfo) -> bool:
    return any(d.endswith("staticmethod") for d in fi.decorators)
