"""Collects the guarded exits (raise / continue / break / return) of a block.

A syntax-directed symbolic walk: straight-line code is executed with the
symterm evaluator, every exit statement is recorded together with the
condition (over symterm values) under which it is taken *given that all
earlier exits of the same block were not taken*.
"""
from __future__ import annotations

import ast
from dataclasses import dataclass
from typing import Any

from sa.symterm import Env, Evaluator, Poly, Unsupported, c_and, c_not


@dataclass
class Exit:
    kind: str            # raise | continue | break | return
    cond: tuple          # symterm condition guarding this exit
    node: ast.stmt       # the exit statement
    test: ast.AST | None  # the `if` (or None when unconditional)
    loops: tuple         # enclosing ast.For/While nodes inside the walk
    env: Env             # environment at the guard (for later lookups)
    path: tuple = ("true",)   # cond AND not(earlier exits of the blocks)


@dataclass
class Mark:
    """A watched assignment with the condition under which it executes."""

    name: str
    value: Any
    path: tuple
    node: ast.stmt
    loops: tuple
    env: Any = None      # environment after the statement
    target: Any = None   # the ast target (subscript stores)


_EXIT = (ast.Raise, ast.Continue, ast.Break, ast.Return)


def _ends_with_exit(body: list[ast.stmt]) -> bool:
    return bool(body) and isinstance(body[-1], _EXIT)


def assigned_names(stmts: list[ast.stmt]) -> set[str]:
    out: set[str] = set()
    for s in stmts:
        for n in ast.walk(s):
            if isinstance(n, ast.Name) and isinstance(n.ctx, ast.Store):
                out.add(n.id)
    return out


class GuardWalk:
    """See module docstring."""

    def __init__(self, ev: Evaluator, summariser: Any = None,
                 watch: set[str] | None = None) -> None:
        self.ev = ev
        self.ls = summariser
        self.watch = watch or set()
        self.marks: list[Mark] = []
        self._path: tuple = ("true",)
        self.exits: list[Exit] = []
        self.opaque: list[tuple[ast.stmt, str]] = []
        self.loop_envs: dict[int, Env] = {}
        self._fresh = 0

    def fresh(self, hint: str) -> Poly:
        self._fresh += 1
        return Poly.var(f"{hint}#{self._fresh}")

    def walk(self, env: Env, stmts: list[ast.stmt], pc: tuple = ("true",),
             loops: tuple = ()) -> Env:
        saved = self._path
        for s in stmts:
            n_before = len(self.exits)
            env = self._stmt(env, s, pc, loops)
            # exits taken directly by this statement narrow the path of the
            # statements that follow it
            for e in self.exits[n_before:]:
                if e.test is s or e.node is s:
                    self._path = c_andx(self._path, c_notx(e.cond))
                elif e.loops == loops and isinstance(s, ast.If):
                    # an exit nested deeper inside this `if` (same loop
                    # level): what follows runs only if it was not taken
                    self._path = c_andx(self._path, c_notx(e.cond))
        self._path = saved
        return env

    def _sub(self, env: Env, stmts: list[ast.stmt], pc: tuple, loops: tuple,
             extra: tuple) -> Env:
        saved = self._path
        self._path = c_andx(saved, extra)
        try:
            return self.walk(env, stmts, pc, loops)
        finally:
            self._path = saved

    def _mark(self, env: Env, s: ast.stmt, loops: tuple) -> None:
        for t in _targets(s):
            nm = t.id if isinstance(t, ast.Name) else (
                ast.unparse(t) if isinstance(t, ast.Attribute) else None)
            if nm in self.watch:
                self.marks.append(Mark(nm, env.vars.get(nm), self._path, s,
                                       loops))
            if isinstance(t, ast.Subscript):
                b = t.value
                while isinstance(b, ast.Subscript):
                    b = b.value
                if isinstance(b, ast.Name) and f"{b.id}[]" in self.watch:
                    self.marks.append(Mark(f"{b.id}[]", None, self._path, s,
                                           loops, env.copy(), t))

    def _kind(self, s: ast.stmt) -> str:
        return type(s).__name__.lower()

    def _stmt(self, env: Env, s: ast.stmt, pc: tuple, loops: tuple) -> Env:
        if isinstance(s, _EXIT):
            self.exits.append(Exit(self._kind(s), pc, s, None, loops,
                                   env.copy(), self._path))
            return env
        if isinstance(s, ast.If):
            try:
                c = self.ev.cond(env, s.test)
            except Unsupported as u:
                c = ("opaque", ast.unparse(s.test), str(u))
            if _ends_with_exit(s.body):
                e1 = self._sub(env.copy(), s.body[:-1], c_andx(pc, c), loops,
                               c)
                self.exits.append(Exit(self._kind(s.body[-1]),
                                       c_andx(pc, c), s.body[-1], s, loops,
                                       e1, c_andx(self._path, c)))
                if s.orelse:
                    return self._sub(env, s.orelse, pc, loops, c_notx(c))
                return env
            if s.orelse and _ends_with_exit(s.orelse):
                nc = c_notx(c)
                e2 = self._sub(env.copy(), s.orelse[:-1], c_andx(pc, nc),
                               loops, nc)
                self.exits.append(Exit(self._kind(s.orelse[-1]),
                                       c_andx(pc, nc), s.orelse[-1], s,
                                       loops, e2, c_andx(self._path, nc)))
                return self._sub(env, s.body, pc, loops, c)
            e1 = self._sub(env.copy(), s.body, c_andx(pc, c), loops, c)
            e2 = self._sub(env.copy(), s.orelse, c_andx(pc, c_notx(c)),
                           loops, c_notx(c))
            if c[0] == "opaque":
                out = env.copy()
                for nm in assigned_names(s.body) | assigned_names(s.orelse):
                    out.vars[nm] = self.fresh(nm)
                return out
            try:
                return self.ev.merge(c, e1, e2)
            except Unsupported:
                out = env.copy()
                for nm in assigned_names(s.body) | assigned_names(s.orelse):
                    out.vars[nm] = self.fresh(nm)
                return out
        if isinstance(s, (ast.For, ast.While)):
            summarised = None
            if self.ls is not None and isinstance(s, ast.For):
                trial = env.copy()
                try:
                    if self.ls.hook(self.ev, trial, s):
                        summarised = trial
                except Unsupported as u:
                    self.opaque.append((s, f"loop not summarised: {u}"))
            inner = env.copy()
            for nm in assigned_names(s.body):
                inner.vars[nm] = self.fresh(nm)
            if isinstance(s, ast.For):
                for t in ast.walk(s.target):
                    if isinstance(t, ast.Name):
                        inner.vars[t.id] = Poly.var(t.id)
            self.loop_envs[id(s)] = inner.copy()
            saved = self._path
            self._path = ("true",)   # paths inside a loop are per iteration
            self.walk(inner, s.body, pc, loops + (s,))
            self._path = saved
            if summarised is not None:
                return summarised
            out = env.copy()
            for nm in assigned_names(s.body) | (
                    assigned_names([s]) if isinstance(s, ast.For) else set()):
                out.vars[nm] = self.fresh(nm)
            return out
        if isinstance(s, (ast.With,)):
            return self.walk(env, s.body, pc, loops)
        try:
            env = self.ev.stmt(env, s)
            self._mark(env, s, loops)
            return env
        except Unsupported as u:
            self.opaque.append((s, str(u)))
            for nm in assigned_names([s]):
                env.vars[nm] = self.fresh(nm)
            if any(isinstance(t, ast.Subscript) for t in _targets(s)):
                self._mark(env, s, loops)   # the store happens all the same
            return env


def _targets(s: ast.stmt) -> list[ast.expr]:
    if isinstance(s, ast.Assign):
        return list(s.targets)
    if isinstance(s, (ast.AnnAssign, ast.AugAssign)):
        return [s.target]
    return []


def c_andx(a: tuple, b: tuple) -> tuple:
    if a[0] == "opaque" or b[0] == "opaque":
        if a[0] == "true":
            return b
        if b[0] == "true":
            return a
        return ("opaque", "and", a, b)
    return c_and(a, b)


def c_notx(c: tuple) -> tuple:
    if c[0] == "opaque":
        return ("opaque", "not", c)
    return c_not(c)


def is_opaque(c: Any) -> bool:
    if isinstance(c, tuple):
        if c and c[0] == "opaque":
            return True
        return any(is_opaque(x) for x in c if isinstance(x, tuple))
    return False


def opaque_note(exits: Any, loops_pred: Any = None) -> str:
    """A clause that is looked for among the raising guards and not found
    is not decided when some raising guard could not be normalised (it may
    be that clause, spelled outside the term language).  Returns the text to
    put in front of the message ('' if every guard was understood)."""
    import ast as _ast
    for e in exits:
        if e.kind != "raise" or not is_opaque(e.cond):
            continue
        if loops_pred is not None and not loops_pred(e):
            continue
        src = _ast.unparse(e.test)[:70] if getattr(
            e, "test", None) is not None else "?"
        return f"cannot normalise the raising guard `{src}`: "
    return ""

