"""Collects the guarded exits (raise / continue / break / return) of a block.

A syntax-directed symbolic walk: straight-line code is executed with the
symterm evaluator, every exit statement is recorded together with the
condition (over symterm values) under which it is taken *given that all
earlier exits of the same block were not taken*.
"""
from __future__ import annotations

import ast
from dataclasses import dataclass
from typing import Any

from sa.symterm import Env, Evaluator, Poly, Unsupported, c_and, c_not


@dataclass
class Exit:
    kind: str            # raise | continue | break | return
    cond: tuple          # symterm condition guarding this exit
    node: ast.stmt       # the exit statement
    test: ast.AST | None  # the `if` (or None when unconditional)
    loops: tuple         # enclosing ast.For/While nodes inside the walk
    env: Env             # environment at the guard (for later lookups)


_EXIT = (ast.Raise, ast.Continue, ast.Break, ast.Return)


def _ends_with_exit(body: list[ast.stmt]) -> bool:
    return bool(body) and isinstance(body[-1], _EXIT)


def assigned_names(stmts: list[ast.stmt]) -> set[str]:
    out: set[str] = set()
    for s in stmts:
        for n in ast.walk(s):
            if isinstance(n, ast.Name) and isinstance(n.ctx, ast.Store):
                out.add(n.id)
    return out


class GuardWalk:
    """See module docstring."""

    def __init__(self, ev: Evaluator) -> None:
        self.ev = ev
        self.exits: list[Exit] = []
        self.opaque: list[tuple[ast.stmt, str]] = []
        self.loop_envs: dict[int, Env] = {}
        self._fresh = 0

    def fresh(self, hint: str) -> Poly:
        self._fresh += 1
        return Poly.var(f"{hint}#{self._fresh}")

    def walk(self, env: Env, stmts: list[ast.stmt], pc: tuple = ("true",),
             loops: tuple = ()) -> Env:
        for s in stmts:
            env = self._stmt(env, s, pc, loops)
        return env

    def _kind(self, s: ast.stmt) -> str:
        return type(s).__name__.lower()

    def _stmt(self, env: Env, s: ast.stmt, pc: tuple, loops: tuple) -> Env:
        if isinstance(s, _EXIT):
            self.exits.append(Exit(self._kind(s), pc, s, None, loops,
                                   env.copy()))
            return env
        if isinstance(s, ast.If):
            try:
                c = self.ev.cond(env, s.test)
            except Unsupported as u:
                c = ("opaque", ast.unparse(s.test), str(u))
            if _ends_with_exit(s.body):
                e1 = self.walk(env.copy(), s.body[:-1], c_andx(pc, c), loops)
                self.exits.append(Exit(self._kind(s.body[-1]),
                                       c_andx(pc, c), s.body[-1], s, loops,
                                       e1))
                if s.orelse:
                    return self.walk(env, s.orelse, pc, loops)
                return env
            if s.orelse and _ends_with_exit(s.orelse):
                nc = c_notx(c)
                e2 = self.walk(env.copy(), s.orelse[:-1], c_andx(pc, nc),
                               loops)
                self.exits.append(Exit(self._kind(s.orelse[-1]),
                                       c_andx(pc, nc), s.orelse[-1], s,
                                       loops, e2))
                return self.walk(env, s.body, pc, loops)
            e1 = self.walk(env.copy(), s.body, c_andx(pc, c), loops)
            e2 = self.walk(env.copy(), s.orelse, c_andx(pc, c_notx(c)),
                           loops)
            if c[0] == "opaque":
                out = env.copy()
                for nm in assigned_names(s.body) | assigned_names(s.orelse):
                    out.vars[nm] = self.fresh(nm)
                return out
            try:
                return self.ev.merge(c, e1, e2)
            except Unsupported:
                out = env.copy()
                for nm in assigned_names(s.body) | assigned_names(s.orelse):
                    out.vars[nm] = self.fresh(nm)
                return out
        if isinstance(s, (ast.For, ast.While)):
            inner = env.copy()
            for nm in assigned_names(s.body):
                inner.vars[nm] = self.fresh(nm)
            if isinstance(s, ast.For):
                for t in ast.walk(s.target):
                    if isinstance(t, ast.Name):
                        inner.vars[t.id] = Poly.var(t.id)
            self.loop_envs[id(s)] = inner.copy()
            self.walk(inner, s.body, pc, loops + (s,))
            out = env.copy()
            for nm in assigned_names(s.body) | (
                    assigned_names([s]) if isinstance(s, ast.For) else set()):
                out.vars[nm] = self.fresh(nm)
            return out
        if isinstance(s, (ast.With,)):
            return self.walk(env, s.body, pc, loops)
        try:
            return self.ev.stmt(env, s)
        except Unsupported as u:
            self.opaque.append((s, str(u)))
            for nm in assigned_names([s]):
                env.vars[nm] = self.fresh(nm)
            return env


def c_andx(a: tuple, b: tuple) -> tuple:
    if a[0] == "opaque" or b[0] == "opaque":
        if a[0] == "true":
            return b
        if b[0] == "true":
            return a
        return ("opaque", "and", a, b)
    return c_and(a, b)


def c_notx(c: tuple) -> tuple:
    if c[0] == "opaque":
        return ("opaque", "not", c)
    return c_not(c)


def is_opaque(c: Any) -> bool:
    if isinstance(c, tuple):
        if c and c[0] == "opaque":
            return True
        return any(is_opaque(x) for x in c if isinstance(x, tuple))
    return False
