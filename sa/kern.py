"""Helpers to run the symterm evaluator over repository functions."""
from __future__ import annotations

import ast
from typing import Any, Callable

from sa.srcmodel import FuncInfo, Repo, func_body
from sa.symterm import Env, Evaluator, Poly, Unsupported


def make_evaluator(repo: Repo, fi: FuncInfo, *,
                   loop_hook: Callable[..., bool] | None = None,
                   extra_call: Callable[..., Any] | None = None,
                   symbolic_consts: dict[str, str] | None = None,
                   depth: int = 0) -> Evaluator:
    """
    An evaluator that folds module constants and inlines calls to other
    repository functions (kernels call kernels with inline='always').

    `symbolic_consts`: global names kept symbolic (e.g. {"pi": "pi"}).
    """
    module = fi.module
    symbolic_consts = symbolic_consts or {}

    def const_of(n: ast.expr) -> Any:
        if isinstance(n, ast.Name) and n.id in symbolic_consts:
            return None
        c = repo.const(module, n)
        if c is not None or depth > 6:
            return c
        # a module-level name defined by an expression over symbolic
        # constants (e.g. __PI2 = pi * pi): evaluate that expression
        r = repo.resolve_expr(module, n)
        if isinstance(r, tuple) and r[0] == "expr":
            sub = _module_evaluator(repo, r[1], symbolic_consts, depth + 1)
            try:
                v = sub.expr(Env(), r[2])
            except Unsupported:
                return None
            if isinstance(v, Poly) and all(
                    a[0] == "var" and a[1] in symbolic_consts
                    for a in v.atoms()):
                return v
        return None

    def call_hook(ev: Evaluator, env: Env, n: ast.Call) -> Any:
        if extra_call is not None:
            r = extra_call(ev, env, n)
            if r is not NotImplemented:
                return r
        if isinstance(n.func, ast.Name) and n.func.id not in env.vars:
            tgt = repo.resolve(module, n.func.id)
            if isinstance(tgt, FuncInfo) and depth < 6:
                args = [ev.expr(env, a) for a in n.args]
                if n.keywords:
                    # keyword arguments are bound by the callee's signature
                    rest = list(tgt.params[len(args):])
                    kw = {k.arg: k.value for k in n.keywords}
                    if None in kw or set(kw) != set(rest):
                        raise Unsupported(
                            "keyword call of inlined function", n)
                    args += [ev.expr(env, kw[p_]) for p_ in rest]
                return inline_call(repo, tgt, args, env, depth=depth + 1,
                                   loop_hook=loop_hook,
                                   extra_call=extra_call,
                                   symbolic_consts=symbolic_consts)
        return NotImplemented

    return Evaluator(const_of=const_of, call_hook=call_hook,
                     loop_hook=loop_hook)


def _module_evaluator(repo: Repo, module: Any, symbolic_consts: dict,
                      depth: int) -> Evaluator:
    def const_of(n: ast.expr) -> Any:
        if isinstance(n, ast.Name) and n.id in symbolic_consts:
            return None
        return repo.const(module, n)
    del depth
    return Evaluator(const_of=const_of)


def inline_call(repo: Repo, callee: FuncInfo, args: list[Any], env: Env,
                **kw: Any) -> Any:
    """Evaluate `callee` on symbolic arguments; array stores go to `env`."""
    params = callee.params
    if len(args) != len(params):
        raise Unsupported(f"arity mismatch calling {callee.qualname}")
    ev = make_evaluator(repo, callee, **kw)
    sub = Env()
    sub.stores = dict(env.stores)  # callee writes are copied back below
    for p, a in zip(params, args):
        if isinstance(a, Poly):
            at = a.as_atom()
            if at is not None and at[0] == "var":
                # an array or scalar passed by name: keep the caller's name
                sub.vars[p] = ("array", at[1]) if _subscripted(
                    callee, p) else a
                continue
        sub.vars[p] = a
    out = ev.block(sub, func_body(callee))
    env.stores.clear()
    env.stores.update(out.stores)
    return out.returned


def _subscripted(fi: FuncInfo, name: str) -> bool:
    for n in ast.walk(fi.node):
        if isinstance(n, ast.Subscript) and isinstance(
                n.value, ast.Name) and n.value.id == name:
            return True
    return False


def eval_kernel(repo: Repo, fi: FuncInfo, **kw: Any) -> Env:
    """Symbolically execute a whole function with free parameters."""
    ev = make_evaluator(repo, fi, **kw)
    env = Env()
    return ev.block(env, func_body(fi))


def cell(array: str, *idx: int) -> Poly:
    return Poly.atom(("cell", array, tuple(Poly.const(i) for i in idx)))


def py_calls(ev: Evaluator, env: Env, n: ast.Call) -> Any:
    """Summaries of a few library calls used by pure-Python repository code:
    `check_int_range(v, ...)`/`check_to_int_range` return v (or raise),
    `len(a)` is the symbolic length of `a`."""
    f = n.func
    name = f.id if isinstance(f, ast.Name) else (
        f.attr if isinstance(f, ast.Attribute) else None)
    if name in ("check_int_range", "check_to_int_range") and n.args:
        return ev.expr(env, n.args[0])
    if isinstance(f, ast.Name) and f.id == "divmod" and len(
            n.args) == 2 and not n.keywords:
        a_, b_ = ev.num(env, n.args[0]), ev.num(env, n.args[1])
        return (Poly.atom(("app", "floordiv", (a_, b_))),
                Poly.atom(("app", "mod", (a_, b_))))
    if isinstance(f, ast.Name) and f.id == "len" and len(n.args) == 1:
        a = n.args[0]
        if isinstance(a, ast.Name):
            b = env.vars.get(a.id)
            nm = a.id
            if isinstance(b, Poly) and b.as_atom() and \
                    b.as_atom()[0] == "var":
                nm = b.as_atom()[1]
            elif isinstance(b, tuple) and b and b[0] == "array":
                nm = b[1]
            elif b is not None:
                return NotImplemented
            return Poly.atom(("app", "len", (Poly.var(nm),)))
        if isinstance(a, ast.Attribute):
            return Poly.atom(("app", "len", (Poly.var(ast.unparse(a)),)))
    return NotImplemented
