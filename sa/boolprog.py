"""Relational analysis of the boolean skeleton of one function.

The function's control flow graph (`sa.cfg.CFG`, one test node per atomic
condition) is interpreted over *partial valuations* of boolean variables:

* flags           - locals that are bound to boolean expressions (`v:name`);
* order atoms     - `a < b` / `a <= b` over canonical operand texts; every
                    spelling of a comparison of the same two operands
                    (mirrored, negated, chained, `==`/`!=`) is a formula over
                    the two atoms `lt:A|B`, `le:A|B` (A, B in text order),
                    with `lt => le`; real-number semantics (no NaN);
* string atoms    - `x == "const"`; two different constants exclude each
                    other;
* opaque atoms    - attribute loads and calls used as conditions;
* ghosts          - variables of the client (a typestate monitor).

A state is a set of partial valuations per CFG node; assignments to flags
are relational (`flag = a == b` ties the flag to the atom), statements havoc
the atoms that mention what they (may) change, tests refine.  The fixpoint is
exact for the boolean program.  Clients hook statements / edges to drive
ghosts and to `require` formulas; a requirement that can be False (or is
unknown) on some valuation reaching the node is a problem.

Also here: `stable_inline` - the sound inlining of single-assignment locals
that the boolean program is built on.
"""
from __future__ import annotations

import ast
import copy
from typing import Any, Callable, Iterable

from sa.cfg import CFG, Node

Val = frozenset   # of (key, bool)
F = tuple         # formula


def TRUE() -> F:
    return ("c", True)


def FALSE() -> F:
    return ("c", False)


def var(k: str) -> F:
    return ("v", k)


def neg(f: F) -> F:
    if f[0] == "c":
        return ("c", not f[1])
    if f[0] == "not":
        return f[1]
    return ("not", f)


def conj(*fs: F) -> F:
    fs2 = [f for f in fs if f != ("c", True)]
    if any(f == ("c", False) for f in fs2):
        return ("c", False)
    if not fs2:
        return ("c", True)
    return fs2[0] if len(fs2) == 1 else ("and",) + tuple(fs2)


def disj(*fs: F) -> F:
    fs2 = [f for f in fs if f != ("c", False)]
    if any(f == ("c", True) for f in fs2):
        return ("c", True)
    if not fs2:
        return ("c", False)
    return fs2[0] if len(fs2) == 1 else ("or",) + tuple(fs2)


def vget(v: Val, k: str) -> bool | None:
    for kk, b in v:
        if kk == k:
            return b
    return None


def vset(v: Val, k: str, b: bool) -> Val:
    return frozenset([x for x in v if x[0] != k] + [(k, b)])


def vdel(v: Val, k: str) -> Val:
    return frozenset(x for x in v if x[0] != k)


def names_of(e: ast.AST) -> set[str]:
    return {n.id for n in ast.walk(e) if isinstance(n, ast.Name)}


def refs_of(fn: ast.AST) -> dict[str, set[str]]:
    """name -> the names whose objects it may hold references to / share
    memory with (from every binding `name = <expression>` and `for name in
    <expression>`).  An element taken out of a Python list (`x = lst[i]`
    where `lst` is bound to a list display) does not reference the list."""
    lists: set[str] = set()
    for n in ast.walk(fn):
        if isinstance(n, (ast.Assign, ast.AnnAssign)) and isinstance(
                getattr(n, "value", None), (ast.List, ast.ListComp)):
            for t in (n.targets if isinstance(n, ast.Assign)
                      else [n.target]):
                if isinstance(t, ast.Name):
                    lists.add(t.id)
    out: dict[str, set[str]] = {}
    for n in ast.walk(fn):
        if isinstance(n, ast.Assign):
            tg, v = n.targets, n.value
        elif isinstance(n, ast.AnnAssign) and n.value is not None:
            tg, v = [n.target], n.value
        elif isinstance(n, ast.For):
            tg, v = [n.target], n.iter
        else:
            continue
        src = names_of(v)
        if isinstance(v, ast.Subscript) and isinstance(
                v.value, ast.Name) and v.value.id in lists:
            src = set()
        for t in tg:
            for x in ast.walk(t):
                if isinstance(x, ast.Name) and isinstance(x.ctx, ast.Store):
                    out.setdefault(x.id, set()).update(src - {x.id})
    return out


def is_heap(e: ast.AST) -> bool:
    """Does the value of the expression depend on mutable objects?"""
    for n in ast.walk(e):
        if isinstance(n, (ast.Attribute, ast.Call)):
            return True
        if isinstance(n, ast.Subscript):
            return True
    return False


class BoolProg:
    def __init__(self, cfg: CFG, const: Callable[[ast.AST], Any],
                 links: dict[str, set[str]] | None = None) -> None:
        self.cfg = cfg
        self.const = const
        self.links = links or {}
        #: key -> (mentioned names, heap dependent, objects depended on)
        self.vars: dict[str, tuple[frozenset, bool, frozenset]] = {}
        self.state: dict[Node, set[Val]] = {}
        self.problems: list[tuple[Node, str]] = []
        self._seen_problem: set[tuple[int, str]] = set()
        # client hooks
        self.pre: Callable[[Node, Val], Val | None] | None = None
        self.post: Callable[[Node, Val], Val | None] | None = None
        self.on_edge: Callable[[Node, object, Val], Val | None] | None = None
        self.call_atom: Callable[[ast.Call], F | None] | None = None
        #: opaque atoms that only the client havocs
        self.client_owned: set[str] = set()
        self._nd = 0

    # ---------------------------------------------------------- variables
    def declare(self, key: str, mentions: Iterable[str] = (),
                heap: bool = False, deep: bool = False) -> F:
        """`deep`: the value depends on everything reachable from the
        mentioned names (calls, element reads), not only on the named
        objects themselves (attribute reads)."""
        if key not in self.vars:
            m = frozenset(mentions)
            self.vars[key] = (m, heap, frozenset(
                self._expand(set(m))) if deep else m)
        return ("v", key)

    def _decl_expr(self, key: str, *es: ast.AST) -> F:
        names: set[str] = set()
        heap = deep = False
        for e in es:
            names |= names_of(e)
            heap = heap or is_heap(e)
            deep = deep or any(isinstance(x, (ast.Call, ast.Subscript))
                               for x in ast.walk(e))
        return self.declare(key, names, heap, deep)

    def text(self, e: ast.AST) -> str:
        c = self.const(e)
        if isinstance(c, (int, float, str, bool)) and not isinstance(
                e, ast.Name):
            return repr(c)
        return ast.unparse(e).replace(" ", "")

    def order(self, a: ast.expr, op: ast.cmpop, b: ast.expr) -> F:
        """One comparison as a formula over canonical atoms."""
        ca, cb = self.const(a), self.const(b)
        num = (int, float)
        if isinstance(ca, num) and isinstance(cb, num) and not isinstance(
                ca, bool) and not isinstance(cb, bool):
            res = {ast.Lt: ca < cb, ast.LtE: ca <= cb, ast.Gt: ca > cb,
                   ast.GtE: ca >= cb, ast.Eq: ca == cb,
                   ast.NotEq: ca != cb}.get(type(op))
            if res is not None:
                return ("c", bool(res))
        if isinstance(op, (ast.Eq, ast.NotEq)) and (
                isinstance(ca, str) or isinstance(cb, str)):
            if isinstance(ca, str) and isinstance(cb, str):
                return ("c", (ca == cb) == isinstance(op, ast.Eq))
            other, cst = (b, ca) if isinstance(ca, str) else (a, cb)
            f = self._decl_expr(f"eqs:{self.text(other)}|{cst!r}", other)
            return f if isinstance(op, ast.Eq) else neg(f)
        if isinstance(op, (ast.Is, ast.IsNot)) and (
                _is_none(a) or _is_none(b)):
            other = b if _is_none(a) else a
            f = self._decl_expr(f"none:{self.text(other)}", other)
            return f if isinstance(op, ast.Is) else neg(f)
        if not isinstance(op, (ast.Lt, ast.LtE, ast.Gt, ast.GtE, ast.Eq,
                               ast.NotEq)):
            return self.nd()
        ta, tb = self.text(a), self.text(b)
        if ta == tb:
            return ("c", isinstance(op, (ast.LtE, ast.GtE, ast.Eq)))
        kind = type(op)
        if ta > tb:
            ta, tb = tb, ta
            kind = {ast.Lt: ast.Gt, ast.LtE: ast.GtE, ast.Gt: ast.Lt,
                    ast.GtE: ast.LtE}.get(kind, kind)
        lt = self._decl_expr(f"lt:{ta}|{tb}", a, b)
        le = self._decl_expr(f"le:{ta}|{tb}", a, b)
        if kind is ast.Lt:
            return lt
        if kind is ast.LtE:
            return le
        if kind is ast.Gt:
            return neg(le)
        if kind is ast.GtE:
            return neg(lt)
        if kind is ast.Eq:
            return conj(le, neg(lt))
        return disj(neg(le), lt)

    def nd(self) -> F:
        self._nd += 1
        return ("nd", self._nd)

    def formula(self, e: ast.expr) -> F:
        """A condition as a formula (unknown parts are nondeterministic)."""
        if isinstance(e, ast.Constant):
            return ("c", bool(e.value))
        if isinstance(e, ast.UnaryOp) and isinstance(e.op, ast.Not):
            return neg(self.formula(e.operand))
        if isinstance(e, ast.BoolOp):
            fs = [self.formula(v) for v in e.values]
            return conj(*fs) if isinstance(e.op, ast.And) else disj(*fs)
        if isinstance(e, ast.Compare):
            parts = []
            left = e.left
            for op, right in zip(e.ops, e.comparators):
                parts.append(self.order(left, op, right))
                left = right
            return conj(*parts)
        if isinstance(e, ast.Name):
            c = self.const(e)
            if isinstance(c, bool):
                return ("c", c)
            return self.declare(f"v:{e.id}", {e.id}, False)
        if isinstance(e, ast.Attribute):
            return self._decl_expr(f"a:{self.text(e)}", e)
        if isinstance(e, ast.Call):
            if self.call_atom is not None:
                f = self.call_atom(e)
                if f is not None:
                    return f
            return self._decl_expr(f"k:{self.text(e)}", e)
        return self.nd()

    def is_boolean(self, e: ast.expr) -> bool:
        if isinstance(e, ast.Constant):
            return isinstance(e.value, bool)
        if isinstance(e, ast.UnaryOp) and isinstance(e.op, ast.Not):
            return True
        if isinstance(e, (ast.BoolOp, ast.Compare)):
            return True
        return False

    # --------------------------------------------------------- evaluation
    def close(self, v: Val) -> Val | None:
        """Propagate the constraints between atoms; None = inconsistent."""
        d = dict(v)
        for k, b in list(d.items()):
            if k.startswith("lt:") and b:
                o = "le:" + k[3:]
                if d.get(o) is False:
                    return None
                d[o] = True
            elif k.startswith("le:") and not b:
                o = "lt:" + k[3:]
                if d.get(o) is True:
                    return None
                d[o] = False
            elif k.startswith("eqs:") and b:
                head = k.rsplit("|", 1)[0] + "|"
                for k2 in self.vars:
                    if k2 != k and k2.startswith(head):
                        if d.get(k2) is True:
                            return None
                        d[k2] = False
        return frozenset(d.items())

    def ev(self, f: F, v: Val) -> list[tuple[bool, Val]]:
        """All (outcome, refined valuation) pairs of a formula."""
        t = f[0]
        if t == "c":
            return [(f[1], v)]
        if t == "nd":
            return [(True, v), (False, v)]
        if t == "v":
            b = vget(v, f[1])
            if b is not None:
                return [(b, v)]
            out = []
            for b in (True, False):
                v2 = self.close(vset(v, f[1], b))
                if v2 is not None:
                    out.append((b, v2))
            return out
        if t == "not":
            return [(not b, v2) for b, v2 in self.ev(f[1], v)]
        if t in ("and", "or"):
            stop = t == "or"
            cur: list[tuple[bool, Val]] = [(not stop, v)]
            for g in f[1:]:
                nxt: list[tuple[bool, Val]] = []
                for b, v2 in cur:
                    if b == stop:
                        nxt.append((b, v2))
                    else:
                        nxt += self.ev(g, v2)
                cur = nxt
            return cur
        raise ValueError(f)

    def assume(self, v: Val, f: F, truth: bool = True) -> list[Val]:
        return [v2 for b, v2 in self.ev(f, v) if b == truth]

    def assign(self, v: Val, key: str, f: F) -> list[Val]:
        self.declare(key)
        out = []
        for b, v2 in self.ev(f, v):
            v3 = self.close(vset(vdel(v2, key), key, b))
            if v3 is not None:
                out.append(v3)
        return out

    def havoc_names(self, v: Val, names: set[str], heap_only: bool = False,
                    keep: Iterable[str] = ()) -> Val:
        drop = set()
        keep = set(keep)
        for k, _ in v:
            if k in keep or k in self.client_owned:
                continue
            ment, heap, dep = self.vars.get(
                k, (frozenset(), False, frozenset()))
            if heap_only:
                if heap and dep & names:
                    drop.add(k)
            elif ment & names:
                drop.add(k)
        return frozenset(x for x in v if x[0] not in drop) if drop else v

    def must(self, v: Val, f: F) -> bool:
        """Is the formula True on every completion of the valuation?"""
        return all(b for b, _ in self.ev(f, v))

    def require(self, n: Node, v: Val, f: F, msg: str) -> None:
        if not self.must(v, f):
            key = (n.idx, msg)
            if key not in self._seen_problem:
                self._seen_problem.add(key)
                self.problems.append((n, msg))

    # ------------------------------------------------------------ transfer
    def _expand(self, names: set[str]) -> set[str]:
        """Everything reachable from the named objects (`links`: the names
        an object may hold references to)."""
        out = set(names)
        stack = list(names)
        while stack:
            n = stack.pop()
            for m in self.links.get(n, ()):
                if m not in out:
                    out.add(m)
                    stack.append(m)
        return out

    def default(self, n: Node, v: Val) -> list[Val]:
        a = n.ast
        if n.kind != "stmt" or a is None:
            return [v]
        outs = [v]
        tgts: list[ast.expr] = []
        if isinstance(a, ast.Assign):
            tgts = list(a.targets)
        elif isinstance(a, (ast.AnnAssign, ast.AugAssign)):
            tgts = [a.target]
        value = getattr(a, "value", None)
        if isinstance(a, ast.AnnAssign) and value is None:
            return [v]
        # 1. effects on the heap: calls and stores through objects
        touched: set[str] = set()
        for c in ast.walk(a):
            if isinstance(c, ast.Call):
                touched |= names_of(c)
        for t in tgts:
            if not isinstance(t, (ast.Name, ast.Tuple, ast.List)):
                touched |= names_of(t)
        if touched:
            touched = self._expand(touched)
            outs = [self.havoc_names(x, touched, heap_only=True)
                    for x in outs]
        # 2. bindings of names
        bound: set[str] = set()
        for t in tgts:
            for x in ast.walk(t):
                if isinstance(x, ast.Name) and isinstance(
                        x.ctx, ast.Store):
                    bound.add(x.id)
        if bound:
            single = tgts[0] if len(tgts) == 1 and isinstance(
                tgts[0], ast.Name) and isinstance(
                a, (ast.Assign, ast.AnnAssign)) else None
            res: list[Val] = []
            for x in outs:
                if single is not None and value is not None and (
                        self.is_boolean(value) or (
                            isinstance(value, ast.Name) and
                            f"v:{value.id}" in self.vars)):
                    key = f"v:{single.id}"
                    self.declare(key, {single.id}, False)
                    f = self.formula(value)
                    for b, v2 in self.ev(f, x):
                        v3 = self.havoc_names(v2, bound, keep=())
                        v3 = self.close(vset(vdel(v3, key), key, b))
                        if v3 is not None:
                            res.append(v3)
                else:
                    res.append(self.havoc_names(x, bound))
            outs = res
        if isinstance(a, ast.Delete):
            dl = set()
            for t in a.targets:
                dl |= names_of(t)
            outs = [self.havoc_names(x, dl) for x in outs]
        return outs

    def run(self, init: Val = frozenset(), limit: int = 200000) -> None:
        cfg = self.cfg
        self.state = {n: set() for n in cfg.nodes}
        work: list[tuple[Node, Val]] = [(cfg.entry, init)]
        self.state[cfg.entry].add(init)
        steps = 0
        while work:
            steps += 1
            if steps > limit:
                raise RuntimeError("boolean program: state space too large")
            n, v = work.pop()
            outs: list[tuple[object, Val]] = []   # (edge label filter, val)
            cur = [v]
            if self.pre is not None:
                r = self.pre(n, v)
                if r is not None:
                    cur = [r] if isinstance(r, frozenset) else list(r)
            if n.kind == "test":
                f = self.formula(n.ast)       # type: ignore[arg-type]
                for x in cur:
                    for b, v2 in self.ev(f, x):
                        outs.append((b, v2))
            elif n.kind == "for":
                tg = names_of(n.ast.target)   # type: ignore[attr-defined]
                for x in cur:
                    outs.append(("iter", self.havoc_names(x, tg)))
                    outs.append(("done", x))
            else:
                nxt: list[Val] = []
                for x in cur:
                    nxt += self.default(n, x)
                if self.post is not None:
                    nn: list[Val] = []
                    for x in nxt:
                        r = self.post(n, x)
                        if r is None:
                            nn.append(x)
                        elif isinstance(r, frozenset):
                            nn.append(r)
                        else:
                            nn += list(r)
                    nxt = nn
                outs = [(None, x) for x in nxt]
            for lab, x in outs:
                for m, elab in n.succ:
                    if n.kind in ("test", "for") and elab != lab:
                        continue
                    if elab == "exc":
                        continue
                    y: Val | None = x
                    if self.on_edge is not None and n.kind in (
                            "test", "for"):
                        r = self.on_edge(n, elab, x)
                        if r is not None:
                            y = r
                    if y is None:
                        continue
                    y = self.close(y)
                    if y is None:
                        continue
                    if y not in self.state[m]:
                        self.state[m].add(y)
                        work.append((m, y))


_OPS = {ast.Lt: "<", ast.LtE: "<=", ast.Gt: ">", ast.GtE: ">=",
        ast.Eq: "==", ast.NotEq: "!="}


def _is_none(e: ast.AST) -> bool:
    return isinstance(e, ast.Constant) and e.value is None


# ---------------------------------------------------------------- inlining
_PURE = (ast.Name, ast.Attribute, ast.Subscript, ast.Constant, ast.BinOp,
         ast.UnaryOp, ast.Compare, ast.BoolOp, ast.Slice, ast.Tuple,
         ast.Load, ast.operator, ast.unaryop, ast.cmpop, ast.boolop,
         ast.expr_context)


def _pure(e: ast.expr) -> bool:
    for n in ast.walk(e):
        if isinstance(n, ast.Call):
            if not (isinstance(n.func, ast.Name) and n.func.id == "len"
                    and len(n.args) == 1 and not n.keywords):
                return False
        elif not isinstance(n, _PURE):
            return False
    return True


def _view_only(e: ast.expr) -> bool:
    """A slice view of a named array: re-evaluating it later yields a view
    of the same cells, whatever happened to the contents."""
    return isinstance(e, ast.Subscript) and isinstance(
        e.slice, ast.Slice) and isinstance(e.value, ast.Name) and not any(
        isinstance(x, (ast.Attribute, ast.Call, ast.Subscript))
        for part in (e.slice.lower, e.slice.upper, e.slice.step)
        if part is not None for x in ast.walk(part))


def stable_inline(fn: ast.FunctionDef,
                  links: dict[str, set[str]] | None = None,
                  skip: Iterable[str] = ()
                  ) -> tuple[ast.FunctionDef, dict[str, ast.expr]]:
    """Inline the locals that are bound exactly once to a pure expression
    whose value cannot have changed at any use: on no path from the binding
    to a use is an input of the expression re-bound or (for expressions that
    read objects) possibly mutated.  Returns the rewritten copy of the
    function and the map of inlined names.  The copy keeps the positions of
    the original nodes."""
    links = links or {}
    fn = copy.deepcopy(fn)
    done: dict[str, ast.expr] = {}
    skip = set(skip)
    params = {a.arg for a in fn.args.args + fn.args.kwonlyargs
              + fn.args.posonlyargs}
    for _ in range(40):
        cfg = CFG(fn)
        binds: dict[str, list[Node]] = {}
        for n in cfg.nodes:
            a = n.ast
            if n.kind == "for":
                for x in ast.walk(a.target):   # type: ignore[attr-defined]
                    if isinstance(x, ast.Name):
                        binds.setdefault(x.id, []).append(n)
            elif n.kind == "stmt" and a is not None:
                if isinstance(a, (ast.FunctionDef, ast.ClassDef, ast.Lambda)):
                    continue
                for x in ast.walk(a):
                    if isinstance(x, ast.Name) and isinstance(
                            x.ctx, (ast.Store, ast.Del)):
                        binds.setdefault(x.id, []).append(n)
        nested = set()
        for x in ast.walk(fn):
            if isinstance(x, (ast.Lambda, ast.FunctionDef, ast.ListComp,
                              ast.GeneratorExp, ast.SetComp, ast.DictComp)) \
                    and x is not fn:
                nested |= names_of(x)
        progress = False
        for name, bl in binds.items():
            if len(bl) != 1 or name in params or name in skip or \
                    name in nested:
                continue
            d = bl[0]
            a = d.ast
            if d.kind != "stmt" or not isinstance(
                    a, (ast.Assign, ast.AnnAssign)) or a.value is None:
                continue
            tg = a.targets if isinstance(a, ast.Assign) else [a.target]
            if len(tg) != 1 or not isinstance(tg[0], ast.Name):
                continue
            e = a.value
            if not _pure(e) or name in names_of(e):
                continue
            inputs = names_of(e) & (set(binds) | params)
            heap = is_heap(e) and not _view_only(e)

            def reach(names: set[str]) -> set[str]:
                out = set(names)
                stack = list(names)
                while stack:
                    q = stack.pop()
                    for m in links.get(q, ()):
                        if m not in out:
                            out.add(m)
                            stack.append(m)
                return out
            uses = [n for n in cfg.nodes if n is not d and n.ast is not None
                    and n.kind != "join" and any(
                        isinstance(x, ast.Name) and x.id == name
                        and isinstance(x.ctx, ast.Load)
                        for x in _own(n))]
            if not uses:
                continue

            def havocs(n: Node) -> bool:
                if n is d or n.ast is None or n.kind == "join":
                    return False
                own = list(_own(n))
                for x in own:
                    if isinstance(x, ast.Name) and isinstance(
                            x.ctx, (ast.Store, ast.Del)) and x.id in inputs:
                        return True
                if n.kind == "for" and names_of(
                        n.ast.target) & inputs:   # type: ignore
                    return True
                if heap:
                    for x in own:
                        if isinstance(x, ast.Call) and reach(
                                names_of(x)) & inputs:
                            return True
                        if isinstance(x, (ast.Attribute, ast.Subscript)) \
                                and isinstance(x.ctx, ast.Store) and \
                                reach(names_of(x)) & inputs:
                            return True
                return False
            hs = [n for n in cfg.nodes if havocs(n)]
            after_d = cfg.reachable(d, lambda n: n is d)
            ok = True
            for h in hs:
                if h not in after_d:
                    continue
                after_h = cfg.reachable(h, lambda n: n is d)
                if any(u in after_h for u in uses):
                    ok = False
                    break
            # the binding must come before every use
            if ok and any(cfg.can_reach_avoiding(
                    cfg.entry, u, lambda n: n is d) for u in uses):
                ok = False
            if not ok:
                skip.add(name)
                continue
            _substitute(fn, name, e, a)
            done[name] = e
            progress = True
            break
        if not progress:
            break
    return fn, done


def _own(n: Node) -> Iterable[ast.AST]:
    """The AST nodes evaluated at one CFG node."""
    a = n.ast
    if a is None:
        return []
    if n.kind == "for":
        return list(ast.walk(a.iter))      # type: ignore[attr-defined]
    if isinstance(a, (ast.While, ast.If, ast.Try, ast.With)):
        return []
    return list(ast.walk(a))


class _Inl(ast.NodeTransformer):
    def __init__(self, name: str, e: ast.expr, d: ast.stmt) -> None:
        self.name, self.e, self.d = name, e, d

    def visit_Name(self, n: ast.Name) -> ast.AST:
        if n.id == self.name and isinstance(n.ctx, ast.Load):
            r = copy.deepcopy(self.e)
            for x in ast.walk(r):
                if hasattr(x, "lineno") or isinstance(x, (ast.expr,)):
                    ast.copy_location(x, n)
            return r
        return n

    def generic_visit(self, node: ast.AST) -> ast.AST:
        for fld, old in ast.iter_fields(node):
            if isinstance(old, list):
                new = []
                for x in old:
                    if x is self.d:
                        p = ast.copy_location(ast.Pass(), x)
                        new.append(p)
                    elif isinstance(x, ast.AST):
                        new.append(self.visit(x))
                    else:
                        new.append(x)
                old[:] = new
            elif isinstance(old, ast.AST):
                setattr(node, fld, self.visit(old))
        return node


def _substitute(fn: ast.FunctionDef, name: str, e: ast.expr,
                d: ast.stmt) -> None:
    _Inl(name, e, d).visit(fn)
    ast.fix_missing_locations(fn)
