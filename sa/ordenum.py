"""E5 - order-abstraction decision procedure.

Code that touches a finite set of values only through comparisons behaves
identically on all inputs that induce the same weak ordering (total preorder)
of those values.  This module enumerates all weak orderings and evaluates
symterm conditions / ite-trees on them.
"""
from __future__ import annotations

from typing import Any, Callable, Iterator, Sequence

from sa.symterm import Poly, Unsupported, show


def weak_orderings(n: int) -> Iterator[tuple[int, ...]]:
    """All total preorders of n items as rank tuples (ranks 0..k-1, dense)."""
    if n == 0:
        yield ()
        return

    def rec(i: int, ranks: list[int], k: int) -> Iterator[tuple[int, ...]]:
        # ranks[0:i] assigned using levels 0..k-1 stored as doubled
        # positions: we use insertion between levels through fractions
        if i == n:
            yield tuple(ranks)
            return
        # item i joins an existing level
        for lv in range(k):
            ranks.append(lv)
            yield from rec(i + 1, ranks, k)
            ranks.pop()
        # or opens a new level at position pos (0..k): shift others
        for pos in range(k + 1):
            shifted = [r + 1 if r >= pos else r for r in ranks]
            shifted.append(pos)
            yield from rec(i + 1, shifted, k + 1)

    yield from rec(0, [], 0)


def count_weak_orderings(n: int) -> int:
    """Fubini numbers."""
    from math import comb
    a = [1]
    for m in range(1, n + 1):
        a.append(sum(comb(m, k) * a[m - k] for k in range(1, m + 1)))
    return a[n]


class OrderModel:
    """Maps value terms (polys) to ranks."""

    def __init__(self, terms: Sequence[Poly]) -> None:
        self.terms = list(terms)
        self.index = {t: i for i, t in enumerate(self.terms)}
        self.ranks: tuple[int, ...] = ()
        #: truth values imposed on specific atomic conditions
        self.fixed: dict[tuple, bool] = {}

    def rank(self, p: Poly) -> int:
        i = self.index.get(p)
        if i is not None:
            return self.ranks[i]
        a = p.as_atom()
        if a is not None and a[0] == "ite":
            return self.rank(a[2] if self.cond(a[1]) else a[3])
        if a is not None and a[0] == "app" and a[1] in ("min", "max"):
            rs = [self.rank(x) for x in a[2]]
            return min(rs) if a[1] == "min" else max(rs)
        raise Unsupported(f"value term {show(p)} is not order-abstract")

    def cond(self, c: tuple) -> bool:
        k = c[0]
        if k == "true":
            return True
        if k == "false":
            return False
        if self.fixed and c in self.fixed:
            return self.fixed[c]
        if k == "lt":
            return self.rank(c[1]) < self.rank(c[2])
        if k == "le":
            return self.rank(c[1]) <= self.rank(c[2])
        if k == "eq":
            return self.rank(c[1]) == self.rank(c[2])
        if k == "not":
            return not self.cond(c[1])
        if k == "and":
            return all(self.cond(x) for x in c[1:])
        if k == "or":
            return any(self.cond(x) for x in c[1:])
        raise Unsupported(f"condition kind {k}")

    def select(self, v: Any) -> Any:
        """Resolve nested ite atoms to the selected leaf value."""
        while isinstance(v, Poly):
            a = v.as_atom()
            if a is not None and a[0] == "ite":
                v = a[2] if self.cond(a[1]) else a[3]
            else:
                return v
        return v

    def describe(self, names: Sequence[str] | None = None) -> str:
        names = list(names) if names else [show(t) for t in self.terms]
        levels: dict[int, list[str]] = {}
        for nm, r in zip(names, self.ranks):
            levels.setdefault(r, []).append(nm)
        return " < ".join(" = ".join(levels[r]) for r in sorted(levels))


def cond_terms(c: Any, out: list[Poly] | None = None) -> list[Poly]:
    """The polys compared in a condition, in first-seen order."""
    if out is None:
        out = []
    if isinstance(c, tuple) and c:
        if c[0] in ("lt", "le", "eq"):
            for p in (c[1], c[2]):
                _value_leaves(p, out)
        elif c[0] in ("not", "and", "or"):
            for x in c[1:]:
                cond_terms(x, out)
    return out


def _value_leaves(p: Poly, out: list[Poly]) -> None:
    """Leaves of a compared value: looks through ite / min / max."""
    a = p.as_atom()
    if a is not None and a[0] == "ite":
        cond_terms(a[1], out)
        _value_leaves(a[2], out)
        _value_leaves(a[3], out)
    elif a is not None and a[0] == "app" and a[1] in ("min", "max"):
        for x in a[2]:
            _value_leaves(x, out)
    elif p not in out:
        out.append(p)


def ite_cond_terms(v: Any, out: list[Poly] | None = None) -> list[Poly]:
    """All compared polys in the conditions of a nested ite value."""
    if out is None:
        out = []
    if isinstance(v, Poly):
        a = v.as_atom()
        if a is not None and a[0] == "ite":
            cond_terms(a[1], out)
            ite_cond_terms(a[2], out)
            ite_cond_terms(a[3], out)
    return out


def ite_leaves(v: Any, out: list[Any] | None = None) -> list[Any]:
    if out is None:
        out = []
    if isinstance(v, Poly):
        a = v.as_atom()
        if a is not None and a[0] == "ite":
            ite_leaves(a[2], out)
            ite_leaves(a[3], out)
            return out
    if v not in out:
        out.append(v)
    return out


def enumerate_models(terms: Sequence[Poly],
                     side: Callable[[OrderModel], bool] | None = None,
                     integer: bool = False) -> Iterator[OrderModel]:
    """
    All order models of the given value terms.

    Constant terms are forced into their numeric order; `side` filters.
    """
    m = OrderModel(terms)
    consts = [(i, t.const_value()) for i, t in enumerate(m.terms)
              if t.const_value() is not None]
    for ranks in weak_orderings(len(m.terms)):
        ok = True
        for x in range(len(consts)):
            for y in range(x + 1, len(consts)):
                (i, a), (j, b) = consts[x], consts[y]
                if (a < b) != (ranks[i] < ranks[j]) or \
                        (a == b) != (ranks[i] == ranks[j]):
                    ok = False
                    break
            if not ok:
                break
        if ok and integer:
            # integer-valued terms: nothing lies strictly between c and c+1
            for (i, a) in consts:
                for (j, b) in consts:
                    if b - a == 1 and any(
                            ranks[i] < r < ranks[j] for r in ranks):
                        ok = False
        if not ok:
            continue
        m.ranks = ranks
        if side is not None and not side(m):
            continue
        yield m
