"""Path-wise inlining of local variables.

`paths(stmts)` enumerates the paths through a block of straight-line code
with `if` statements (conditional expressions are split as well) and, on
each, expresses everything in terms of the values that are live at the
start of the block: every read of a local that the path assigns is replaced
by the expression assigned to it (already inlined).  What a path *does* is
reported as events - expression statements (e.g. `lst.append(x)`), stores
into subscripts / attributes, returns, nested loops - each with the guards
(inlined test, outcome) under which it happens.

This makes structural rules independent of temporaries, of the order of
independent statements, of `x if c else y` versus `if c: ... else: ...`,
and of default-then-overwrite idioms.
"""
from __future__ import annotations

import ast
import copy
from dataclasses import dataclass, field
from typing import Any


@dataclass
class Event:
    kind: str                   # expr | store | return | loop | other
    node: ast.AST               # the original statement
    value: Any                  # inlined expression (call / value / target)
    guards: tuple = ()
    extra: Any = None           # store: inlined value; loop: env before
    pre: Any = None             # loop: the complete env before the loop


@dataclass
class Path:
    env: dict[str, ast.expr] = field(default_factory=dict)
    guards: tuple = ()
    events: list[Event] = field(default_factory=list)
    ended: str | None = None    # return | break | continue | raise
    #: locals bound to a list / dict / set display (kept by name)
    objs: dict[str, ast.expr] = field(default_factory=dict)
    #: names that are mutated in place somewhere in the analysed code
    mutated: frozenset = frozenset()

    def fork(self) -> "Path":
        return Path(dict(self.env), self.guards, list(self.events),
                    self.ended, dict(self.objs), self.mutated)


class _Subst(ast.NodeTransformer):
    def __init__(self, env: dict[str, ast.expr]) -> None:
        self.env = env

    def visit_Name(self, n: ast.Name) -> ast.AST:
        if isinstance(n.ctx, ast.Load) and n.id in self.env:
            return copy.deepcopy(self.env[n.id])
        return n

    def visit_Call(self, n: ast.Call) -> ast.AST:
        # typing.cast(T, e) is e
        if isinstance(n.func, ast.Name) and n.func.id == "cast" and len(
                n.args) == 2 and not n.keywords:
            return self.visit(n.args[1])
        return self.generic_visit(n)

    # comprehension variables shadow
    def _comp(self, n: Any) -> ast.AST:
        bound = {t.id for g in n.generators for t in ast.walk(g.target)
                 if isinstance(t, ast.Name)}
        inner = _Subst({k: v for k, v in self.env.items()
                        if k not in bound})
        return inner.generic_visit(n)

    visit_ListComp = _comp
    visit_SetComp = _comp
    visit_GeneratorExp = _comp
    visit_DictComp = _comp


def subst(e: ast.AST, env: dict[str, ast.expr]) -> Any:
    return ast.fix_missing_locations(_Subst(env).visit(copy.deepcopy(e)))


def _replace(root: ast.AST, target: ast.AST, repl: ast.AST) -> ast.AST:
    if root is target:
        return repl
    for n in ast.walk(root):
        for fld, val in ast.iter_fields(n):
            if val is target:
                setattr(n, fld, repl)
                return root
            if isinstance(val, list):
                for k, x in enumerate(val):
                    if x is target:
                        val[k] = repl
                        return root
    return root


def _split_ifexp(e: ast.expr) -> list[tuple[tuple, ast.expr]]:
    """Alternatives of an expression that contains conditional expressions:
    [(guards, expression with the conditional resolved), ...]."""
    first = next((n for n in ast.walk(e) if isinstance(n, ast.IfExp)), None)
    if first is None:
        return [((), e)]
    out = []
    for truth in (True, False):
        e2 = copy.deepcopy(e)
        tgt = next(n for n in ast.walk(e2) if isinstance(n, ast.IfExp))
        e3 = _replace(e2, tgt, tgt.body if truth else tgt.orelse)
        for g, x in _split_ifexp(e3):
            out.append((((first.test, truth),) + g, x))
    return out


def paths(stmts: list[ast.stmt], start: Path | None = None,
          max_paths: int = 256) -> list[Path]:
    from sa.srcmodel import mutated_names
    start = start or Path()
    start.mutated = frozenset(start.mutated | mutated_names(list(stmts)))
    cur = [start]
    for s in stmts:
        nxt: list[Path] = []
        for p in cur:
            if p.ended:
                nxt.append(p)
            else:
                nxt += _stmt(p, s)
        cur = nxt
        if len(cur) > max_paths:
            raise ValueError("too many paths")
    return cur


def _targets(s: ast.stmt) -> list[ast.expr]:
    if isinstance(s, ast.Assign):
        return list(s.targets)
    if isinstance(s, (ast.AnnAssign, ast.AugAssign)):
        return [s.target]
    return []


_MUTABLE = (ast.List, ast.Dict, ast.Set, ast.ListComp, ast.DictComp,
            ast.SetComp)


def _is_object(v: ast.expr) -> bool:
    from sa.srcmodel import creates_object
    return creates_object(v)


def _bind(p: Path, t: ast.expr, v: ast.expr, s: ast.stmt) -> None:
    if isinstance(t, ast.Name):
        # a name that is mutated in place denotes an object of its own -
        # unless it is bound to a view of another object (`row = m[0]`):
        # then the mutation goes to that object, through the inlined view
        is_view = isinstance(v, (ast.Subscript, ast.Attribute, ast.Name))
        if _is_object(v) or (t.id in p.mutated and not is_view):
            # a mutable object keeps its name (identity matters: appends)
            p.objs[t.id] = v
            p.env.pop(t.id, None)
        else:
            p.env[t.id] = v
            p.objs.pop(t.id, None)
    elif isinstance(t, (ast.Tuple, ast.List)) and isinstance(
            v, (ast.Tuple, ast.List)) and len(t.elts) == len(v.elts):
        for tt, vv in zip(t.elts, v.elts):
            _bind(p, tt, vv, s)
    elif isinstance(t, (ast.Tuple, ast.List)):
        for k, tt in enumerate(t.elts):
            _bind(p, tt, ast.Subscript(value=copy.deepcopy(v),
                                       slice=ast.Constant(value=k),
                                       ctx=ast.Load()), s)
    else:
        p.events.append(Event("store", s, subst(t, p.env), p.guards, v))


def _stmt(p: Path, s: ast.stmt) -> list[Path]:
    if isinstance(s, ast.If):
        out = []
        test = subst(s.test, p.env)
        for truth, body in ((True, s.body), (False, s.orelse)):
            q = p.fork()
            q.guards = p.guards + ((test, truth),)
            out += paths(body, q)
        return out
    if isinstance(s, (ast.Assign, ast.AnnAssign)):
        if getattr(s, "value", None) is None:
            return [p]
        out = []
        for g, val in _split_ifexp(s.value):
            q = p.fork() if g else p
            for tst, truth in g:
                q.guards = q.guards + ((subst(tst, q.env), truth),)
            v = subst(val, q.env)
            for t in _targets(s):
                _bind(q, t, v, s)
            out.append(q)
        return out
    if isinstance(s, ast.AugAssign):
        load = copy.deepcopy(s.target)
        for n in ast.walk(load):
            if hasattr(n, "ctx"):
                n.ctx = ast.Load()
        v = subst(ast.BinOp(left=load, op=s.op, right=s.value), p.env)
        _bind(p, s.target, v, s)
        return [p]
    if isinstance(s, ast.Expr):
        if isinstance(s.value, ast.Constant):
            return [p]
        out = []
        for g, val in _split_ifexp(s.value):
            q = p.fork() if g else p
            for tst, truth in g:
                q.guards = q.guards + ((subst(tst, q.env), truth),)
            q.events.append(Event("expr", s, subst(val, q.env), q.guards))
            out.append(q)
        return out
    if isinstance(s, ast.Return):
        out = []
        alts = _split_ifexp(s.value) if s.value is not None else [((), None)]
        for g, val in alts:
            q = p.fork() if g else p
            for tst, truth in g:
                q.guards = q.guards + ((subst(tst, q.env), truth),)
            q.events.append(Event("return", s, subst(val, q.env)
                                  if val is not None else None, q.guards))
            q.ended = "return"
            out.append(q)
        return out
    if isinstance(s, (ast.Break, ast.Continue, ast.Raise)):
        p.ended = type(s).__name__.lower()
        if isinstance(s, ast.Raise):
            p.events.append(Event("raise", s, None, p.guards))
        return [p]
    if isinstance(s, (ast.For, ast.While)):
        assigned = {n.id for n in ast.walk(s) if isinstance(n, ast.Name)
                    and isinstance(n.ctx, ast.Store)}
        p.events.append(Event("loop", s, subst(
            s.iter if isinstance(s, ast.For) else s.test, p.env), p.guards,
            {k: v for k, v in p.env.items() if k not in assigned},
            dict(p.env)))
        # whatever the loop assigns is unknown afterwards
        for n in ast.walk(s):
            if isinstance(n, ast.Name) and isinstance(n.ctx, ast.Store):
                p.env.pop(n.id, None)
        return [p]
    if isinstance(s, ast.Pass):
        return [p]
    if isinstance(s, ast.Delete):
        # value: the deleted targets with the locals inlined
        p.events.append(Event("other", s, [subst(t, p.env)
                                           for t in s.targets], p.guards))
        return [p]
    p.events.append(Event("other", s, None, p.guards))
    return [p]


def flatten_fstring(e: ast.expr) -> list[tuple[str, Any]] | None:
    """An f-string / str() / concatenation as [("lit", text) | ("val",
    expression)] with nested f-strings spliced in."""
    if isinstance(e, ast.JoinedStr):
        out: list[tuple[str, Any]] = []
        for v in e.values:
            if isinstance(v, ast.Constant) and isinstance(v.value, str):
                out.append(("lit", v.value))
            elif isinstance(v, ast.FormattedValue):
                if v.format_spec is not None or v.conversion not in (-1,):
                    return None
                sub = flatten_fstring(v.value)
                if sub is None:
                    return None
                out += sub
            else:
                return None
        return out
    if isinstance(e, ast.Constant) and isinstance(e.value, str):
        return [("lit", e.value)]
    if isinstance(e, ast.BinOp) and isinstance(e.op, ast.Add):
        a, b = flatten_fstring(e.left), flatten_fstring(e.right)
        if a is None or b is None:
            return None
        return a + b
    if isinstance(e, ast.Call) and isinstance(e.func, ast.Name) and \
            e.func.id == "str" and len(e.args) == 1 and not e.keywords:
        return [("val", e.args[0])]
    return [("val", e)]
