"""Linear expressions over symbols and an exact Fourier-Motzkin prover.

This is the numeric core of the SymBounds domain (DESIGN E3): facts are
``Lin >= 0`` over integer-valued symbols; entailment of ``goal >= 0`` is
decided by showing ``facts /\\ goal <= -1`` infeasible over the rationals
(sound for integers).  No external solver is involved.
"""
from __future__ import annotations

from fractions import Fraction
from typing import Iterable


class Lin:
    """c0 + sum_i c_i * sym_i with Fraction coefficients (immutable)."""

    __slots__ = ("co", "c", "_h", "_n")

    def __init__(self, co: dict[str, Fraction] | None = None,
                 c: Fraction | int = 0) -> None:
        self.co = {k: Fraction(v) for k, v in (co or {}).items() if v != 0}
        self.c = Fraction(c)
        self._h: int | None = None
        self._n: "Lin | None" = None

    @staticmethod
    def sym(name: str) -> "Lin":
        return Lin({name: Fraction(1)})

    @staticmethod
    def const(v: int | Fraction) -> "Lin":
        return Lin(None, v)

    def __add__(self, o: "Lin | int | Fraction") -> "Lin":
        if isinstance(o, (int, Fraction)):
            return Lin(self.co, self.c + o)
        co = dict(self.co)
        for k, v in o.co.items():
            co[k] = co.get(k, Fraction(0)) + v
        return Lin(co, self.c + o.c)

    def __neg__(self) -> "Lin":
        return Lin({k: -v for k, v in self.co.items()}, -self.c)

    def __sub__(self, o: "Lin | int | Fraction") -> "Lin":
        if isinstance(o, (int, Fraction)):
            return Lin(self.co, self.c - o)
        return self + (-o)

    def scale(self, f: Fraction | int) -> "Lin":
        f = Fraction(f)
        return Lin({k: v * f for k, v in self.co.items()}, self.c * f)

    def is_const(self) -> bool:
        return not self.co

    def syms(self) -> set[str]:
        return set(self.co)

    def subst(self, m: dict[str, "Lin"]) -> "Lin":
        r = Lin(None, self.c)
        for k, v in self.co.items():
            r = r + (m[k].scale(v) if k in m else Lin({k: v}))
        return r

    def __eq__(self, o: object) -> bool:
        return isinstance(o, Lin) and self.co == o.co and self.c == o.c

    def __hash__(self) -> int:
        if self._h is None:
            self._h = hash((tuple(sorted(self.co.items())), self.c))
        return self._h

    def __repr__(self) -> str:
        parts = []
        for k in sorted(self.co):
            v = self.co[k]
            if v == 1:
                parts.append(k)
            elif v == -1:
                parts.append(f"-{k}")
            else:
                parts.append(f"{v}*{k}")
        if self.c != 0 or not parts:
            parts.append(str(self.c))
        return " + ".join(parts).replace("+ -", "- ")


def _normalise(e: Lin) -> Lin:
    """Scale so that coefficients are coprime integers (keeps direction)
    and floor the constant (integer-valued symbols)."""
    if e._n is not None:
        return e._n
    if not e.co:
        e._n = e
        return e
    from math import gcd, floor
    vals = list(e.co.values())
    if all(v.denominator == 1 for v in vals):
        g = 0
        for v in vals:
            g = gcd(g, abs(v.numerator))
        if g == 1:
            if e.c.denominator == 1:
                e._n = e
                return e
            r = Lin(e.co, floor(e.c))
        else:
            r = Lin({k: Fraction(v.numerator // g) for k, v in e.co.items()},
                    floor(e.c / g))
    else:
        den = 1
        for v in vals:
            den = den * v.denominator // gcd(den, v.denominator)
        nums = {k: int(v * den) for k, v in e.co.items()}
        g = 0
        for n in nums.values():
            g = gcd(g, abs(n))
        g = g or 1
        r = Lin({k: Fraction(n // g) for k, n in nums.items()},
                floor(e.c * den / g))
    r._n = r
    e._n = r
    return r


def _tighten(cons: Iterable[Lin]) -> list[Lin] | None:
    """Normalise, drop dominated constraints (same coefficients, keep the
    smallest constant); None if a constant constraint is violated."""
    best: dict[tuple, Lin] = {}
    for c in cons:
        c = _normalise(c)
        if not c.co:
            if c.c < 0:
                return None
            continue
        key = tuple(sorted(c.co.items()))
        o = best.get(key)
        if o is None or c.c < o.c:
            best[key] = c
    return list(best.values())


_FM_CACHE: dict[frozenset, bool] = {}


def fm_infeasible(cons: Iterable[Lin], max_cons: int = 3000) -> bool:
    """Is the conjunction of `e >= 0` infeasible (over Q, with integer
    tightening of constants)?  False also when the budget is exceeded."""
    cur = _tighten(cons)
    if cur is None:
        return True
    key = frozenset(cur)
    hit = _FM_CACHE.get(key)
    if hit is not None:
        return hit
    res = _fm(cur, max_cons)
    if len(_FM_CACHE) < 200000:
        _FM_CACHE[key] = res
    return res


def _fm(cur: list[Lin], max_cons: int) -> bool:
    while True:
        pos_n: dict[str, int] = {}
        neg_n: dict[str, int] = {}
        for c in cur:
            for s, v in c.co.items():
                if v > 0:
                    pos_n[s] = pos_n.get(s, 0) + 1
                else:
                    neg_n[s] = neg_n.get(s, 0) + 1
        syms = set(pos_n) | set(neg_n)
        if not syms:
            return False
        # symbols bounded on one side only: drop their constraints
        one_sided = [s for s in syms
                     if pos_n.get(s, 0) == 0 or neg_n.get(s, 0) == 0]
        if one_sided:
            os_ = set(one_sided)
            cur = [c for c in cur if not (c.co.keys() & os_)]
            continue
        s = min(syms, key=lambda x: pos_n[x] * neg_n[x] - pos_n[x]
                - neg_n[x])
        pos = [c for c in cur if c.co.get(s, 0) > 0]
        neg = [c for c in cur if c.co.get(s, 0) < 0]
        rest = [c for c in cur if s not in c.co]
        if len(pos) * len(neg) + len(rest) > max_cons:
            return False
        new = list(rest)
        for p in pos:
            a = p.co[s]
            for n in neg:
                b = -n.co[s]
                new.append(p.scale(b) + n.scale(a))
        cur2 = _tighten(new)
        if cur2 is None:
            return True
        cur = cur2


def cone(facts: list[Lin], goal: Lin) -> list[Lin]:
    """Facts transitively sharing symbols with the goal."""
    want = set(goal.syms())
    used = [False] * len(facts)
    changed = True
    out = []
    while changed:
        changed = False
        for i, f in enumerate(facts):
            if not used[i] and (f.syms() & want):
                used[i] = True
                out.append(f)
                new = f.syms() - want
                if new:
                    want |= new
                    changed = True
    return out


def entails(facts: list[Lin], goal: Lin) -> bool:
    """facts |= goal >= 0  (integer semantics: refute goal <= -1)."""
    if goal.is_const():
        return goal.c >= 0
    g = _normalise(goal)
    gk = g.co
    for f in facts:
        # a single fact with the same direction and a smaller constant
        if f.co.keys() == gk.keys():
            fn = _normalise(f)
            if fn.co == gk and fn.c <= g.c:
                return True
    neg = -goal - 1
    return fm_infeasible(cone(facts, goal) + [neg])


def consistent(facts: list[Lin]) -> bool:
    return not fm_infeasible(facts)
