"""Linear expressions over symbols and an exact Fourier-Motzkin prover.

This is the numeric core of the SymBounds domain (DESIGN E3): facts are
``Lin >= 0`` over integer-valued symbols; entailment of ``goal >= 0`` is
decided by showing ``facts /\\ goal <= -1`` infeasible over the rationals
(sound for integers).  No external solver is involved.
"""
from __future__ import annotations

from fractions import Fraction
from typing import Iterable


class Lin:
    """c0 + sum_i c_i * sym_i with Fraction coefficients (immutable)."""

    __slots__ = ("co", "c", "_h")

    def __init__(self, co: dict[str, Fraction] | None = None,
                 c: Fraction | int = 0) -> None:
        self.co = {k: Fraction(v) for k, v in (co or {}).items() if v != 0}
        self.c = Fraction(c)
        self._h: int | None = None

    @staticmethod
    def sym(name: str) -> "Lin":
        return Lin({name: Fraction(1)})

    @staticmethod
    def const(v: int | Fraction) -> "Lin":
        return Lin(None, v)

    def __add__(self, o: "Lin | int") -> "Lin":
        if isinstance(o, int):
            return Lin(self.co, self.c + o)
        co = dict(self.co)
        for k, v in o.co.items():
            co[k] = co.get(k, Fraction(0)) + v
        return Lin(co, self.c + o.c)

    def __neg__(self) -> "Lin":
        return Lin({k: -v for k, v in self.co.items()}, -self.c)

    def __sub__(self, o: "Lin | int") -> "Lin":
        if isinstance(o, int):
            return Lin(self.co, self.c - o)
        return self + (-o)

    def scale(self, f: Fraction | int) -> "Lin":
        f = Fraction(f)
        return Lin({k: v * f for k, v in self.co.items()}, self.c * f)

    def is_const(self) -> bool:
        return not self.co

    def syms(self) -> set[str]:
        return set(self.co)

    def subst(self, m: dict[str, "Lin"]) -> "Lin":
        r = Lin(None, self.c)
        for k, v in self.co.items():
            r = r + (m[k].scale(v) if k in m else Lin({k: v}))
        return r

    def __eq__(self, o: object) -> bool:
        return isinstance(o, Lin) and self.co == o.co and self.c == o.c

    def __hash__(self) -> int:
        if self._h is None:
            self._h = hash((tuple(sorted(self.co.items())), self.c))
        return self._h

    def __repr__(self) -> str:
        parts = []
        for k in sorted(self.co):
            v = self.co[k]
            if v == 1:
                parts.append(k)
            elif v == -1:
                parts.append(f"-{k}")
            else:
                parts.append(f"{v}*{k}")
        if self.c != 0 or not parts:
            parts.append(str(self.c))
        return " + ".join(parts).replace("+ -", "- ")


def _normalise(e: Lin) -> Lin:
    """Scale so that coefficients are coprime integers (keeps direction)."""
    if not e.co:
        return e
    from math import gcd
    den = 1
    for v in list(e.co.values()) + [e.c]:
        den = den * v.denominator // gcd(den, v.denominator)
    nums = [int(v * den) for v in e.co.values()]
    g = 0
    for n in nums:
        g = gcd(g, abs(n))
    g = g or 1
    f = Fraction(den, g)
    # integer tightening: sum(ints) + c >= 0 with integer symbols
    r = e.scale(f)
    c = r.c
    if c.denominator != 1:
        import math
        r = Lin(r.co, math.floor(c))
    return r


def fm_infeasible(cons: Iterable[Lin], max_cons: int = 4000) -> bool:
    """Is the conjunction of `e >= 0` infeasible (over Q, with integer
    tightening of constants)?  False also when the budget is exceeded."""
    cur = list({_normalise(c) for c in cons})
    for c in cur:
        if c.is_const() and c.c < 0:
            return True
    syms: set[str] = set()
    for c in cur:
        syms |= c.syms()
    while syms:
        # choose the symbol with the fewest pos*neg combinations
        best = None
        best_cost = None
        for s in syms:
            p = sum(1 for c in cur if c.co.get(s, 0) > 0)
            n = sum(1 for c in cur if c.co.get(s, 0) < 0)
            cost = p * n - p - n
            if best_cost is None or cost < best_cost:
                best, best_cost = s, cost
        s = best
        syms.discard(s)
        pos = [c for c in cur if c.co.get(s, 0) > 0]
        neg = [c for c in cur if c.co.get(s, 0) < 0]
        rest = [c for c in cur if s not in c.co]
        new = set(rest)
        if len(pos) * len(neg) + len(rest) > max_cons:
            return False
        for p in pos:
            for n in neg:
                a = p.co[s]
                b = -n.co[s]
                comb = _normalise(p.scale(b) + n.scale(a))
                if comb.is_const():
                    if comb.c < 0:
                        return True
                    continue
                new.add(comb)
        cur = list(new)
    return any(c.is_const() and c.c < 0 for c in cur)


def cone(facts: list[Lin], goal: Lin) -> list[Lin]:
    """Facts transitively sharing symbols with the goal."""
    want = set(goal.syms())
    used = [False] * len(facts)
    changed = True
    out = []
    while changed:
        changed = False
        for i, f in enumerate(facts):
            if not used[i] and (f.syms() & want):
                used[i] = True
                out.append(f)
                new = f.syms() - want
                if new:
                    want |= new
                    changed = True
    return out


def entails(facts: list[Lin], goal: Lin) -> bool:
    """facts |= goal >= 0  (integer semantics: refute goal <= -1)."""
    if goal.is_const():
        return goal.c >= 0
    neg = -goal - 1
    return fm_infeasible(cone(facts, goal) + [neg])


def consistent(facts: list[Lin]) -> bool:
    return not fm_infeasible(facts)
