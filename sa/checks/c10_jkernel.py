"""C10 - the figure of merit: `__j_from_ode_compute` and `j_from_ode`.

The kernel's term loops are summarised from one symbolic round each
(`sa.pathinline` over the loop body, values through the symbolic
evaluator): which counter the loop test bounds from below and from where it
starts, that every path of a round lowers it by exactly one, stores exactly
one term at the running cell index and advances that index by one, which
cell of the previous row the term reads (relative to the counter), and the
stored value as a conditional term over the path guards.  `j_from_ode` is
read path-wise as well: per path the size of the buffer, the arguments
handed to the kernel and the returned quotient are expressed in the values
the function was called with.  No statement shape, temporary, operand order
or if / conditional-expression choice is assumed.
"""
from __future__ import annotations

import ast
from typing import Any

from sa.casesplit import Splitter, equivalent
from sa.kern import make_evaluator, py_calls
from sa.pathinline import paths
from sa.report import Ctx
from sa.srcmodel import func_body, inline_locals
from sa.symterm import Env, Poly, Unsupported, c_and, c_not, ite, show

MOD = "moptipyapps.dynamic_control.ode"

R, C = Poly.var("R"), Poly.var("C")
S, U, GAMMA = Poly.var("S"), Poly.var("U"), Poly.var("gamma")
ONE = Poly.const(1)
HUGE = Poly.const(10 ** 100)


def _tgt(s: ast.stmt) -> ast.expr | None:
    if isinstance(s, ast.Assign) and len(s.targets) == 1:
        return s.targets[0]
    if isinstance(s, (ast.AnnAssign, ast.AugAssign)):
        return s.target
    return None


def _asg(stmts: list[ast.stmt], nm: str) -> list[ast.stmt]:
    return [s for s in stmts if isinstance(s, (ast.Assign, ast.AnnAssign))
            and isinstance(_tgt(s), ast.Name) and _tgt(s).id == nm
            and s.value is not None]


def _shape_subst(p: Any, ode: str) -> Any:
    """ode.shape[0] / len(ode) -> R, ode.shape[1] -> C (deeply)."""
    if isinstance(p, Poly):
        m = {}
        for a in _deep_atoms(p):
            if a[0] == "cell" and a[1] == f"{ode}.shape" and len(a[2]) == 1:
                k = a[2][0]
                k = k.const_value() if isinstance(k, Poly) else k
                if k == 0:
                    m[a] = R
                elif k == 1:
                    m[a] = C
            elif a[0] == "app" and a[1] == "len" and len(a[2]) == 1 and \
                    show(a[2][0]) == ode:
                m[a] = R
        return p.subst(m) if m else p
    if isinstance(p, tuple):
        return tuple(_shape_subst(x, ode) for x in p)
    return p


def _deep_atoms(p: Any) -> set:
    out: set = set()
    if isinstance(p, Poly):
        for a in p.atoms():
            out.add(a)
            out |= _deep_atoms(a)
    elif isinstance(p, tuple):
        for x in p:
            out |= _deep_atoms(x)
    return out


def _lower_bound(cond: tuple, sym: Poly) -> Poly | None:
    """cond <=> sym >= result (over the integers), or None."""
    if cond[0] not in ("le", "lt"):
        return None
    d = cond[2] - cond[1]            # >= 0 (le) or > 0 (lt)
    rest = d - sym
    a = sym.as_atom()
    if a in _deep_atoms(rest):
        return None
    return -rest if cond[0] == "le" else -rest + ONE


class Kernel:
    """The summary of __j_from_ode_compute."""

    def __init__(self, ctx: Ctx) -> None:
        self.ctx = ctx
        repo = ctx.repo
        self.comp = comp = repo.func(MOD, "__j_from_ode_compute")
        (self.ode_n, self.sdim_n, self.udim_n, self.gam_n,
         self.dest_n) = comp.params
        self.body = func_body(comp)
        self.outer = ctx.need(next(
            (s for s in self.body if isinstance(s, ast.For)), None),
            "__j_from_ode_compute: loop over the rows")
        self.pairing: list[str] = []
        self.loops: list[dict[str, Any]] = []
        self.flag_n: str | None = None
        self.ev = make_evaluator(repo, comp, extra_call=py_calls)
        self._pairing()
        if not self.pairing:
            self._scan()

    # ---------------------------------------------------------- pairing
    def _pairing(self) -> None:
        """Which names denote row i-1 (`last`) and row i (`next`) of the
        simulation in round i = 1 .. len(ode)-1:  either the rolling pair
        `last = ode[0]; for i / for next in ode[1:]: ...; last = next`, or
        the index form `last = ode[i - 1]; next = ode[i]`."""
        comp, outer, body, ode_n = self.comp, self.outer, self.body, \
            self.ode_n
        ev = self.ev
        self.pre = body[:body.index(outer)]
        self.rows: dict[str, str] = {}       # alias -> "last" | "next"
        self.skip: list[ast.stmt] = []       # the statements that bind them
        self.carry = None
        iv = outer.target.id if isinstance(outer.target, ast.Name) else None
        # the values of the locals before the loop
        env = Env()
        env.vars[ode_n] = ("array", ode_n)
        env.vars.update({self.sdim_n: S, self.udim_n: U, self.gam_n: GAMMA})
        for s in self.pre:
            t = _tgt(s)
            if isinstance(s, (ast.Assign, ast.AnnAssign)) and \
                    s.value is not None and isinstance(t, ast.Name):
                try:
                    env = ev.stmt(env, s)
                except Unsupported:
                    pass
        self.env0 = env
        it = outer.iter
        form_a = form_b = False
        if isinstance(it, ast.Call) and isinstance(
                it.func, ast.Name) and it.func.id == "range" and len(
                it.args) == 2 and not it.keywords and iv is not None:
            try:
                lo = _shape_subst(ev.num(env, it.args[0]), ode_n)
                hi = _shape_subst(ev.num(env, it.args[1]), ode_n)
                form_a = lo == ONE and hi == R
            except Unsupported:
                form_a = False
        it_src = ast.unparse(inline_locals(comp.node, it)).replace(" ", "")
        if not form_a and it_src == f"{ode_n}[1:]" and iv is not None:
            form_b = True
        self.it_src = it_src
        self.trips_outer = R - ONE if (form_a or form_b) else None
        if not (form_a or form_b):
            self.pairing.append("rows are not scanned as i = 1 .. "
                                "len(ode)-1")
            return
        isym = Poly.var("i")
        if form_b:
            self.rows[iv] = "next"
            self.iv = "i$"
        else:
            self.iv = iv
            # aliases of ode[i] / ode[i - 1] bound in the body
            for st_ in outer.body:
                t = _tgt(st_)
                if isinstance(st_, (ast.Assign, ast.AnnAssign)) and \
                        isinstance(t, ast.Name) and isinstance(
                        getattr(st_, "value", None), ast.Subscript) and \
                        isinstance(st_.value.value, ast.Name) and \
                        st_.value.value.id == ode_n and not isinstance(
                        st_.value.slice, (ast.Slice, ast.Tuple)):
                    e2 = env.copy()
                    e2.vars[iv] = isym
                    try:
                        k = ev.num(e2, st_.value.slice) - isym
                    except Unsupported:
                        continue
                    if k == Poly():
                        self.rows[t.id] = "next"
                        self.skip.append(st_)
                    elif k == -ONE:
                        self.rows[t.id] = "last"
                        self.skip.append(st_)
        # the rolling pair: last = ode[0] before the loop, last = next as
        # the last thing that touches either of them in a round
        nexts = [k for k, v in self.rows.items() if v == "next"]
        if "last" not in self.rows.values() and nexts:
            for k_, st_ in enumerate(outer.body):
                if isinstance(st_, ast.Assign) and isinstance(
                        st_.value, ast.Name) and st_.value.id in nexts and \
                        len(st_.targets) == 1 and isinstance(
                        st_.targets[0], ast.Name):
                    cand_ = st_.targets[0].id
                    later = {n.id for x in outer.body[k_ + 1:]
                             for n in ast.walk(x) if isinstance(n, ast.Name)}
                    init0 = [s for s in _asg(self.pre, cand_)
                             if ast.unparse(s.value).replace(" ", "")
                             == f"{ode_n}[0]"]
                    if cand_ not in later and st_.value.id not in later \
                            and len(init0) == 1 and len(
                            _asg(outer.body, cand_)) == 1:
                        self.rows[cand_] = "last"
                        self.carry = st_
                        self.skip.append(st_)
        rebound = [n.id for st_ in outer.body if st_ not in self.skip
                   for n in ast.walk(st_) if isinstance(n, ast.Name)
                   and isinstance(n.ctx, ast.Store) and n.id in self.rows]
        if "last" not in self.rows.values() or "next" not in \
                self.rows.values() or rebound:
            self.pairing.append(
                "the previous row is not carried as `last = ode[0]; for i: "
                "next = ode[i]; ...; last = next` nor read as `ode[i - 1]`")
        self.last_n = next((k for k, v in self.rows.items()
                            if v == "last"), None)
        self.next_n = next((k for k, v in self.rows.items()
                            if v == "next"), None)

    # ------------------------------------------------------------- scan
    def _scan(self) -> None:
        ev = self.ev
        env = self.env0.copy()
        for nm, role in self.rows.items():
            env.vars[nm] = ("array", role)
        env.vars[self.iv] = Poly.var("i")
        self.first_round_cond: Any = None
        self.guard_node: ast.AST | None = None

        def scan(stmts: list[ast.stmt], guarded: Any, e: Env) -> Env:
            for s in stmts:
                if s in self.skip:
                    continue
                if isinstance(s, (ast.While, ast.For)):
                    self.loops.append(self._while(e, s, guarded))
                    # the loop's own variables are unknown afterwards
                    for n in ast.walk(s):
                        if isinstance(n, ast.Name) and isinstance(
                                n.ctx, ast.Store):
                            e.vars.pop(n.id, None)
                    continue
                if isinstance(s, ast.If) and not s.orelse and any(
                        isinstance(x, (ast.While, ast.For))
                        for x in ast.walk(s)):
                    # the optional block: behind a flag or a test of the
                    # round number
                    if isinstance(s.test, ast.Name):
                        self.flag_n = s.test.id
                    else:
                        try:
                            self.first_round_cond = ev.cond(e, s.test)
                        except Unsupported:
                            self.first_round_cond = ("unknown",)
                    self.guard_node = s
                    scan(s.body, s, e.copy())
                    continue
                if isinstance(s, (ast.Assign, ast.AnnAssign, ast.AugAssign)):
                    try:
                        e = ev.stmt(e, s)
                    except Unsupported:
                        pass
            return e
        scan(self.outer.body, None, env.copy())

    def _while(self, e: Env, w: Any, guard: Any) -> dict[str, Any]:
        """One term loop (a counting `while` or a `for` over a range with
        step +-1): the counter's range, one symbolic round of its body."""
        ev = self.ev
        stored = {n.id for s in w.body for n in ast.walk(s)
                  if isinstance(n, ast.Name) and isinstance(n.ctx, ast.Store)}
        csym = Poly.var("c$")
        psym = Poly.var("pos$")
        is_for = isinstance(w, ast.For)
        leaves = any(isinstance(x, (ast.Break, ast.Return, ast.Raise))
                     for s in w.body for x in ast.walk(s))
        if is_for:
            it = w.iter
            if not (isinstance(w.target, ast.Name) and isinstance(
                    it, ast.Call) and isinstance(it.func, ast.Name)
                    and it.func.id == "range" and 1 <= len(it.args) <= 3
                    and not it.keywords and not w.orelse):
                return {"error": f"loop `for {ast.unparse(w.target)} in "
                        f"{ast.unparse(it)[:40]}` not recognised",
                        "line": w.lineno}
            c = w.target.id
            if c in stored:
                return {"error": f"the loop variable `{c}` is re-assigned",
                        "line": w.lineno}
            try:
                vals = [ev.num(e, a_) for a_ in it.args]
            except Unsupported:
                return {"error": "range bounds not normalised",
                        "line": w.lineno}
            step = vals[2] if len(vals) == 3 else ONE
            start = vals[0] if len(vals) >= 2 else Poly()
            stop = vals[1] if len(vals) >= 2 else vals[0]
            if step == -ONE:
                init, low = start, stop + ONE
            elif step == ONE:
                init, low = stop - ONE, start
            else:
                return {"error": "range step is not +-1", "line": w.lineno}
            e1 = e.copy()
            e1.vars[c] = csym
            try:
                ps = paths(list(w.body))
            except ValueError:
                return {"error": "loop body not understood (too many "
                        "paths)", "line": w.lineno}
        else:
            cs = [n for n in sorted({x.id for x in ast.walk(w.test)
                                     if isinstance(x, ast.Name)})
                  if n in stored]
            if not cs and not leaves:
                return {"error": f"nothing in `while {ast.unparse(w.test)}` "
                        "changes during a round: the loop cannot terminate",
                        "line": w.lineno, "definite": True}
            if len(cs) != 1:
                return {"error": f"loop test `{ast.unparse(w.test)}` not "
                        "recognised (no single counter)", "line": w.lineno}
            c = cs[0]
            init = e.vars.get(c)
            if not isinstance(init, Poly):
                return {"error": f"start value of `{c}` not known",
                        "line": w.lineno}
            e1 = e.copy()
            e1.vars[c] = csym
            try:
                cond = ev.cond(e1, w.test)
            except Unsupported:
                return {"error": "loop test not normalised",
                        "line": w.lineno}
            low = _lower_bound(cond, csym)
            try:
                ps = paths(list(w.body))
            except ValueError:
                return {"error": "loop body not understood (too many "
                        "paths)", "line": w.lineno}
            if low is None:
                # a test that bounds the counter from ABOVE while every
                # round lowers it: the loop runs forever or not at all
                up = _lower_bound(c_not(cond), csym)
                try:
                    falling = all(not p.ended and c in p.env and ev.num(
                        e1, p.env[c]) - csym == -ONE for p in ps)
                except Unsupported:
                    falling = False
                if up is not None and falling and not leaves:
                    return {"error": f"`while {ast.unparse(w.test)}` bounds "
                            f"the falling counter `{c}` from above: the "
                            "loop runs forever or never", "line": w.lineno,
                            "definite": True}
                return {"error": f"loop test `{ast.unparse(w.test)}` not "
                        "recognised as a lower bound of the counter",
                        "line": w.lineno}
        items: list[tuple[tuple, Any]] = []
        index_ok = True
        cellidx: set = set()
        for p in ps:
            if p.ended or any(evn.kind in ("loop", "other", "return",
                                           "raise") for evn in p.events):
                return {"error": "a round of the loop can end early or "
                        "contains a construct that is not understood",
                        "line": w.lineno}
            st = [x for x in p.events if x.kind == "store" and isinstance(
                x.value, ast.Subscript) and isinstance(
                x.value.value, ast.Name) and x.value.value.id == self.dest_n]
            if len(st) != 1:
                return {"error": "not exactly one store into dest per "
                        "round", "line": w.lineno}
            sl = st[0].value.slice
            pos = [n.id for n in ast.walk(sl) if isinstance(n, ast.Name)
                   and n.id in stored]
            e2 = e1.copy()
            for nm in pos:
                e2.vars[nm] = psym
            try:
                if not is_for and (c not in p.env or ev.num(
                        e2, p.env[c]) - csym != -ONE):
                    return {"error": f"`{c}` is not decremented by one per "
                            "round", "line": w.lineno}
                if len(set(pos)) != 1 or ev.num(e2, sl) != psym or \
                        pos[0] not in p.env or ev.num(
                        e2, p.env[pos[0]]) - psym != ONE:
                    index_ok = False
                val = ev.num(e2, st[0].extra)
                gs = tuple((ev.cond(e2, t), truth) for t, truth in p.guards)
            except Unsupported as u:
                return {"error": f"stored value not normalised: {u}",
                        "line": w.lineno}
            items.append((gs, val))
            for a in _deep_atoms(val) | _deep_atoms(tuple(
                    g for g, _ in gs)):
                if a[0] == "cell" and a[1] == "last" and any(
                        csym.as_atom() in _deep_atoms(i) | (
                            {i.as_atom()} if isinstance(i, Poly) else set())
                        for i in a[2] if isinstance(i, Poly)):
                    cellidx.add(a)
        if len(cellidx) != 1:
            return {"error": "a term does not read exactly one cell of the "
                    "previous row", "line": w.lineno}
        vat = next(iter(cellidx))
        k = vat[2][0] - csym
        if not k.is_const():
            return {"error": "column of the term not understood",
                    "line": w.lineno}

        def tree(its: list[tuple[tuple, Any]], d: int) -> Any:
            if len(its) == 1 and len(its[0][0]) <= d:
                return its[0][1]
            if any(len(g) <= d for g, _ in its):
                raise Unsupported("paths do not form a decision tree")
            t0 = its[0][0][d][0]
            if any(g[d][0] != t0 for g, _ in its):
                raise Unsupported("paths do not form a decision tree")
            return ite(t0, tree([x for x in its if x[0][d][1]], d + 1),
                       tree([x for x in its if not x[0][d][1]], d + 1))
        try:
            value = tree(items, 0)
        except Unsupported as u:
            return {"error": f"stored value not normalised: {u}",
                    "line": w.lineno}
        return {"hi": init + k, "lo": low + k, "value": value,
                "v": Poly.atom(vat), "index_ok": index_ok, "guard": guard,
                "trips": init - low + ONE, "line": w.lineno}


_CACHE: dict[int, Kernel] = {}


def kernel(ctx: Ctx) -> Kernel:
    k = _CACHE.get(id(ctx))
    if k is None:
        _CACHE.clear()
        k = _CACHE[id(ctx)] = Kernel(ctx)
    return k


class Caller:
    """j_from_ode, path by path, in terms of its arguments."""

    def __init__(self, ctx: Ctx, comp: Any) -> None:
        repo = ctx.repo
        self.jf = jf = repo.func(MOD, "j_from_ode")
        self.p = jf.params
        ev = make_evaluator(repo, jf, extra_call=py_calls)
        env = Env()
        env.vars[self.p[0]] = ("array", self.p[0])
        self.fail: list[tuple] = []     # conditions of the 1e200 returns
        self.main: list[dict[str, Any]] = []
        self.problems: list[str] = []
        for p in paths(func_body(jf)):
            try:
                cnd = c_and(*[c if t else c_not(c) for c, t in (
                    (ev.cond(env, g), t) for g, t in p.guards)])
            except Unsupported as u:
                self.problems.append(f"guard not normalised: {u}")
                continue
            cnd = _shape_subst(cnd, self.p[0])
            ret = next((e for e in p.events if e.kind == "return"), None)
            if ret is None:
                if p.ended != "raise":
                    self.problems.append("a path returns nothing")
                continue
            if ret.value is not None and repo.const(
                    jf.module, ret.value) == 1e200:
                self.fail.append(cnd)
                continue
            info: dict[str, Any] = {"cond": cnd, "ret": ret, "path": p}
            call = next((e for e in p.events if e.kind == "expr"
                         and isinstance(e.value, ast.Call) and isinstance(
                             e.value.func, ast.Name) and repo.resolve(
                             jf.module, e.value.func.id) is comp), None)
            info["call"] = call
            if call is not None and not call.value.keywords and len(
                    call.value.args) == 5:
                a = call.value.args
                info["args"] = a
                dn = a[4].id if isinstance(a[4], ast.Name) else None
                info["dest"] = dn
                mk = p.objs.get(dn) if dn else None
                if isinstance(mk, ast.Call) and ast.unparse(mk.func) in (
                        "np.empty", "np.zeros") and len(mk.args) >= 1:
                    try:
                        info["alloc"] = _shape_subst(
                            ev.num(env, mk.args[0]), self.p[0])
                    except Unsupported:
                        pass
                for key, k in (("S", 1), ("U", 2), ("G", 3)):
                    try:
                        info[key] = _shape_subst(ev.num(env, a[k]),
                                                 self.p[0])
                    except Unsupported:
                        pass
            # the returned quotient
            rv = ret.value
            info["quot"] = False
            if isinstance(rv, ast.BinOp) and isinstance(rv.op, ast.Div):
                num = rv.left
                sum_ok = isinstance(num, ast.Call) and (
                    (ast.unparse(num.func) in ("fsum", "math.fsum", "np.sum")
                     and len(num.args) == 1 and isinstance(
                         num.args[0], ast.Name)
                     and num.args[0].id == info.get("dest"))
                    or (isinstance(num.func, ast.Attribute)
                        and num.func.attr == "sum" and isinstance(
                            num.func.value, ast.Name)
                        and num.func.value.id == info.get("dest")
                        and not num.args))
                try:
                    den = ev.num(env, rv.right)
                    den_ok = den == Poly.atom(
                        ("cell", self.p[0], (Poly.const(-1),
                                             Poly.const(-1))))
                except Unsupported:
                    den_ok = False
                info["quot"] = bool(sum_ok and den_ok)
                # the sum is taken after the kernel has filled the buffer
                evs = p.events
                info["order"] = call is not None and evs.index(
                    call) < evs.index(ret)
            self.main.append(info)


def dest(ctx: Ctx) -> None:
    """D10.5: the buffer has exactly as many cells as the kernel stores."""
    km = kernel(ctx)
    comp = km.comp
    cl = Caller(ctx, comp)
    jf = cl.jf
    problems = list(km.pairing)
    total: Poly | None = None
    if not problems:
        per = Poly()
        flagged = Poly()
        for lp in km.loops:
            if lp.get("error") and lp.get("definite"):
                problems.append(f"loop at line {lp['line']}: {lp['error']}")
            elif lp.get("error"):
                problems.append(f"loop at line {lp['line']} not understood: "
                                f"{lp['error']}")
            elif not lp["index_ok"]:
                problems.append(f"loop at line {lp['line']}: not one cell "
                                "per round")
            elif lp["guard"] is None:
                per = per + lp["trips"]
            else:
                flagged = flagged + lp["trips"]
        if not _flag_ok(km):
            problems.append("flag protocol of the optional block not "
                            "recognised")
        if not problems:
            total = km.trips_outer * per + (km.trips_outer - ONE) * flagged
            total = _shape_subst(total, km.ode_n)
    n_dest = sum(1 for s in ast.walk(comp.node) if isinstance(
        s, ast.Assign) and isinstance(s.targets[0], ast.Subscript)
        and isinstance(s.targets[0].value, ast.Name)
        and s.targets[0].value.id == km.dest_n)
    in_loops = sum(1 for w in ast.walk(km.outer) if isinstance(
        w, (ast.While, ast.For)) and w is not km.outer and not any(
        isinstance(x, (ast.While, ast.For)) and x is not w
        for x in ast.walk(w))
                   for s in ast.walk(w) if isinstance(s, ast.Assign)
                   and isinstance(s.targets[0], ast.Subscript)
                   and isinstance(s.targets[0].value, ast.Name)
                   and s.targets[0].value.id == km.dest_n)
    if n_dest != in_loops:
        problems.append("dest is also written outside the counted loops")
    shown = "?"
    ok = bool(cl.main) and not cl.problems and total is not None
    if total is not None:
        for info in cl.main:
            if "alloc" not in info or "S" not in info or "U" not in info:
                ok = False
                shown = "not understood"
                continue
            want = total.subst({S.as_atom(): info["S"],
                                U.as_atom(): info["U"]})
            shown = show(info["alloc"])
            same, _why = equivalent(info["alloc"], want)
            if not same:
                ok = False
    undecided = any("not understood" in p or "not recognised" in p
                    for p in problems)
    ctx.ob("D10.5", jf, jf.node, bool(ok and not problems),
           f"__j_from_ode_compute performs "
           f"{show(total) if total is not None else '?'} stores into dest; "
           f"j_from_ode allocates {shown} cells"
           + (" (identical polynomials on every path)"
              if ok and not problems else
              (" - NOT identical" if not undecided else "")
              + ("; " + "; ".join(problems + cl.problems)
                 if problems or cl.problems else "")),
           construct="dest sizing")


def _flag_ok(km: Kernel) -> bool:
    """The optional (state) block is skipped in the first round and only
    there: behind a flag that is False before the loop and set True at the
    end of every round, or behind a test of the round number that is
    equivalent to i >= 2 (rounds are i = 1 .. len(ode)-1)."""
    repo, comp, outer = km.ctx.repo, km.comp, km.outer
    if km.flag_n is None:
        c = getattr(km, "first_round_cond", None)
        if c is None or c == ("unknown",):
            return False
        i = Poly.var("i")
        sp = Splitter(integer=True)
        facts = sp.facts_of(("le", ONE, i), True)[0]
        same, _ = equivalent(ite(c, ONE, Poly()),
                             ite(("le", Poly.const(2), i), ONE, Poly()),
                             facts)
        # the test must sit directly in the round (not in a term loop)
        return bool(same) and any(s is km.guard_node for s in outer.body)
    inits = _asg(km.pre, km.flag_n)
    sets = _asg(outer.body, km.flag_n)
    every = [s for s in ast.walk(comp.node) if isinstance(
        s, (ast.Assign, ast.AnnAssign, ast.AugAssign)) and isinstance(
        _tgt(s), ast.Name) and _tgt(s).id == km.flag_n]
    return len(inits) == 1 and repo.const(
        comp.module, inits[0].value) is False and len(sets) == 1 and \
        len(every) == 2 and repo.const(
            comp.module, sets[0].value) is True and \
        outer.body.index(sets[0]) > max(
            (outer.body.index(s) for s in outer.body
             if isinstance(s, ast.If) and isinstance(s.test, ast.Name)
             and s.test.id == km.flag_n), default=-1)


def j_terms(ctx: Ctx) -> None:
    """D10.6: the cells of dest are the documented terms of J."""
    km = kernel(ctx)
    comp, outer, repo = km.comp, km.outer, ctx.repo
    if km.pairing:
        ctx.ob("D10.6", comp, outer, False, "; ".join(km.pairing),
               construct="row pairing")
        return
    ctx.ob("D10.6", comp, outer, True,
           f"row i is paired with row i-1 (`{km.last_n}` = ode[i-1], "
           f"`{km.next_n}` = ode[i]) for i = 1 .. len(ode)-1",
           construct="row pairing")
    tN = Poly.atom(("cell", "next", (Poly.const(-1),)))
    tL = Poly.atom(("cell", "last", (Poly.const(-1),)))
    W = tN - tL
    sp = Splitter(integer=False)
    results = []
    Cm2 = Poly.atom(("cell", f"{km.ode_n}.shape", (1,))) - Poly.const(2)
    for info in km.loops:
        if info.get("error"):
            results.append((False, info["error"]))
            continue
        v = info["v"]
        want_w = W * GAMMA if info["guard"] is None else W
        ref = ite(("and", ("lt", -HUGE, v), ("lt", v, HUGE)),
                  v * v * want_w, HUGE)
        same = True
        try:
            for facts, (g, r), _t in sp.cases((info["value"], ref)):
                if not sp.equal(g, r, facts):
                    same = False
        except Unsupported:
            same = False
        if info["guard"] is None:
            rng_ok = _shape_subst(info["hi"], km.ode_n) == C - Poly.const(
                2) and info["lo"] == S
            what = "control columns S .. C-2, weight (t_i - t_{i-1}) * gamma"
        else:
            rng_ok = info["hi"] == U - ONE and info["lo"] == Poly.const(0)
            what = "state columns 0 .. U-1, weight (t_i - t_{i-1})"
        ok = same and rng_ok and info["index_ok"]
        results.append((ok, what if ok else
                        f"{what}: value matches: {same} "
                        f"({show(info['value'])[:120]}), columns "
                        f"{show(info['lo'])}..{show(info['hi'])}, one cell "
                        f"per term: {info['index_ok']}"))
    del Cm2
    n_ctrl = sum(1 for i_ in km.loops if i_.get("guard") is None)
    n_state = sum(1 for i_ in km.loops if i_.get("guard") is not None)
    ok = bool(results) and all(r[0] for r in results) and n_ctrl == 1 \
        and n_state == 1
    ctx.ob("D10.6", comp, outer, ok,
           "every cell of dest is v^2 * weight (1e100 when |v| >= 1e100) "
           "for v = entry of the PREVIOUS row: " + "; ".join(
               r[1] for r in results) if ok else
           "the terms of J deviate from the documented sum: " + "; ".join(
               r[1] for r in results if not r[0])
           + f" (control loops: {n_ctrl}, state loops: {n_state})",
           construct="terms of J")
    flag_ok = _flag_ok(km)
    ctx.ob("D10.6", comp, outer, flag_ok,
           "the state terms are left out exactly for the first pair of rows "
           "(the common starting state)" if flag_ok else
           "the rule 'starting state is not counted, all later states are' "
           "is not implemented by the flag protocol",
           construct="starting state skipped")
    # ---- the cell index starts at 0 and is only advanced by the loops
    idx_names = {n.id for s in ast.walk(comp.node) if isinstance(
        s, ast.Assign) and isinstance(s.targets[0], ast.Subscript)
        and isinstance(s.targets[0].value, ast.Name)
        and s.targets[0].value.id == km.dest_n
        for n in ast.walk(s.targets[0].slice) if isinstance(n, ast.Name)}
    ok_idx = len(idx_names) == 1
    if ok_idx:
        ix = next(iter(idx_names))
        defs = _asg(km.pre, ix)
        loops = [w for w in ast.walk(outer) if isinstance(
            w, (ast.While, ast.For)) and w is not outer]
        other = [s for s in ast.walk(outer) if isinstance(
            s, (ast.Assign, ast.AnnAssign, ast.AugAssign)) and isinstance(
            _tgt(s), ast.Name) and _tgt(s).id == ix and not any(
            any(x is s for x in ast.walk(w)) for w in loops)]
        ok_idx = len(defs) == 1 and repo.const(
            comp.module, defs[0].value) == 0 and not other
    ctx.ob("D10.6", comp, comp.node, ok_idx,
           "the terms are written to dest[0], dest[1], ... without gaps"
           if ok_idx else "the cell index does not start at 0 / is reset: "
           "cells stay unfilled or are written beyond the buffer",
           construct="cell index starts at zero")
    # ---- j_from_ode
    cl = Caller(ctx, comp)
    jf, p = cl.jf, cl.p
    one_row = ("le", R, ONE)
    g_ok = bool(cl.fail) and not cl.problems
    for c in cl.fail:
        same, _ = equivalent(ite(c, ite(one_row, ONE, Poly()), ONE), ONE)
        g_ok = g_ok and same
    for info in cl.main:
        same, _ = equivalent(
            ite(info["cond"], ite(one_row, Poly(), ONE), ONE), ONE)
        g_ok = g_ok and same
    ctx.ob("D10.6", jf, jf.node, g_ok,
           "a simulation with a single (failure) row scores 1e200, every "
           "longer one is evaluated" if g_ok else
           "the failure value 1e200 is not returned exactly for results "
           "with at most one row", construct="failure row scores 1e200")
    sv, uv, gv = Poly.var(p[1]), Poly.var(p[2]), Poly.var(p[3])
    want_u = ite(("le", uv, Poly()), sv, uv)
    okb = bool(cl.main)
    shown = "nothing"
    for info in cl.main:
        a = info.get("args")
        if a is None:
            okb = False
            continue
        shown = ", ".join(ast.unparse(x) for x in a)
        good = isinstance(a[0], ast.Name) and a[0].id == p[0] and \
            info.get("S") == sv and info.get("G") == gv and \
            "U" in info and info.get("dest") is not None
        if good:
            same, _ = equivalent(
                ite(info["cond"], info["U"] - want_u, Poly()), Poly())
            good = same
        okb = okb and good
    ctx.ob("D10.6", jf, (cl.main[0]["call"].node if cl.main and cl.main[0].get(
        "call") is not None else jf.node), okb,
           "j_from_ode passes (ode, state_dim, <use_state_dims, or state_dim "
           "when that is <= 0>, gamma, dest) to the kernel" if okb else
           f"the kernel is called with {shown} - expected (ode, state_dim, "
           "use_state_dims [state_dim if <= 0], gamma, dest)",
           construct="kernel arguments")
    okr = bool(cl.main) and all(i["quot"] for i in cl.main)
    node = cl.main[0]["ret"].node if cl.main else jf.node
    ctx.ob("D10.6", jf, node, bool(okr),
           "J = sum(dest) / ode[-1, -1] (the simulated time)" if okr else
           "J is not the sum of the terms divided by the simulated time",
           construct="J = sum / time")
    okd = bool(cl.main) and all(i.get("order") for i in cl.main)
    ctx.ob("D10.6", jf, node, okd,
           "the terms are computed on every path that returns the sum"
           if okd else "a path returns the sum of an unfilled buffer",
           construct="kernel called before the sum")
    ctx.ob("D10.5", jf, jf.node, bool(okr and g_ok),
           "J = fsum(dest) / (final time); degenerate results are handled "
           "before the kernel is called", construct="J = fsum/T",
           nontrivial=False)
