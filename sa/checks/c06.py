"""C06 - the TSP (1+1) EA / FEA report true tour lengths."""
from __future__ import annotations

import ast
from typing import Any

from sa import ordenum
from sa.guards import GuardWalk
from sa.kern import make_evaluator
from sa.report import Ctx
from sa.srcmodel import FuncInfo, func_body
from sa.symterm import (Env, Evaluator, Poly, Unsupported, all_atoms, c_not,
                        show, show_cond)

EA = ("moptipyapps.tsp.ea1p1_revn", "rev_if_not_worse", "TSPEA1p1revn")
FEA = ("moptipyapps.tsp.fea1p1_revn", "rev_if_h_not_worse", "TSPFEA1p1revn")


def run(ctx: Ctx) -> None:
    ctx.explanation = (
        "For both move kernels: D6.1 the incremental delta is the 2-opt "
        "identity d[a,c]+d[b,e]-d[a,b]-d[c,e] (a=x[i-1], b=x[i], c=x[j], "
        "e=x[(j+1) mod n]; unordered pairs: symmetric instances) as a "
        "polynomial identity; D6.2 every slice assignment on the accept "
        "path writes positions i..j with the source sequence j..i, and a "
        "negative-step slice whose stop could evaluate to -1 is excluded by "
        "the path condition (the i == 0 special case); the kernels are "
        "followed path by path (however the tests are nested): D6.3 a path "
        "that writes x returns y+dy and reverses exactly once, every other "
        "path returns y; D6.4 the conditions of every writing path entail "
        "dy <= 0 (EA) or h[y2] <= h[y] (FEA), those of every other path "
        "the opposite, after exactly one increment of h[y] and h[y2] "
        "(FEA). D6.5 in "
        "solve(): both indices are drawn from [0, n-2], ordered by the swap, "
        "the pairs i == j and (0, n-2) are skipped (all weak orderings of "
        "the two draws enumerated), the kernel receives (i, j, n, instance, "
        "[h,] x, y), its result is what register(x, y) is given for the "
        "same array, the initial y is process.evaluate(x) of a shuffled "
        "range(n), and h has UB+1 cells. Together with C05 this is the "
        "inductive argument that every registered y is the true length.")
    ctx.rule("D6.1", "dy == 2-opt delta (symmetric)")
    ctx.rule("D6.2", "slice assignment == reversal of x[i..j]")
    ctx.rule("D6.3", "x written only when accepted; returns y+dy / y")
    ctx.rule("D6.4", "accept guard")
    ctx.rule("D6.5", "solve(): index ranges, skips, wiring, register")
    ctx.rule("D6.6", "the frequency table is logged under the lengths it "
             "is indexed by")
    _h_log(ctx)
    ctx.rule("D6.7", "the kernels compute with numba's default (64-bit) "
             "integer locals")
    for modn, kern, cls in (EA, FEA):
        k = ctx.repo.func(modn, kern)
        ctx.need(k.njit is not None, f"{kern} is an njit kernel")
        _typed_locals(ctx, k)
        info = _kernel(ctx, k, fea=(kern == FEA[1]))
        _solve(ctx, ctx.repo.func(modn, f"{cls}.solve"), k,
               fea=(kern == FEA[1]), kinfo=info)
    ctx.exhaustive = True
    ctx.assumptions += [
        "N4/N5: basic slices are clamped; overlapping slice assignment "
        "copies the source first",
        "Generator.integers(h) returns a value in [0, h-1]; "
        "Generator.shuffle permutes in place",
        "the instance is symmetric (documented precondition of both "
        "algorithms)",
        "C05: process.evaluate(x) is the true tour length of x",
    ]


# ----------------------------------------------------------------- kernels
def _sym(p: Poly, dist: str) -> Poly:
    """Canonicalise dist[p, q] cells to unordered index pairs."""
    mapping = {}
    for a in all_atoms(p):
        if a[0] == "cell" and a[1] == dist and len(a[2]) == 2:
            i0, i1 = a[2]
            if repr(i0.key()) > repr(i1.key()):
                mapping[a] = Poly.atom(("cell", dist, (i1, i0)))
    return p.subst(mapping)


class Facts:
    """Tiny integer reasoner: facts `p >= 0` and `p != 0` over polys."""

    def __init__(self) -> None:
        self.ge0: list[Poly] = []
        self.ne0: list[Poly] = []
        self.eq: dict[tuple, Poly] = {}

    def copy(self) -> "Facts":
        f = Facts()
        f.ge0, f.ne0, f.eq = list(self.ge0), list(self.ne0), dict(self.eq)
        return f

    def norm(self, p: Poly) -> Poly:
        return p.subst(self.eq) if self.eq else p

    def add_cond(self, c: tuple) -> None:
        if c[0] == "and":
            for x in c[1:]:
                self.add_cond(x)
        elif c[0] == "eq":
            d = self.norm(c[1] - c[2])
            # var == const : substitute
            for side, other in ((c[1], c[2]), (c[2], c[1])):
                a = side.as_atom()
                if a is not None and a[0] == "var":
                    self.eq[a] = other
                    return
            self.ge0 += [d, -d]
        elif c[0] == "not" and c[1][0] == "eq":
            self.ne0.append(self.norm(c[1][1] - c[1][2]))
        elif c[0] == "le":
            self.ge0.append(c[2] - c[1])
        elif c[0] == "lt":
            self.ge0.append(c[2] - c[1] - Poly.const(1))

    def prove_ge0(self, goal: Poly) -> bool:
        goal = self.norm(goal)
        v = goal.const_value()
        if v is not None:
            return v >= 0
        cands = [self.norm(f) for f in self.ge0]
        for f in list(cands):
            for n in self.ne0:
                n = self.norm(n)
                if f == n or f == -n:
                    cands.append(f - Poly.const(1))
        for f in cands:
            d = (goal - f).const_value()
            if d is not None and d >= 0:
                return True
        for f in cands:
            for g in cands:
                d = (goal - f - g).const_value()
                if d is not None and d >= 0:
                    return True
        return False


def _slice_positions(ev: Evaluator, env: Env, e: ast.expr, arr: str,
                     facts: Facts, n: Poly) -> tuple[Poly, Poly, int] | str:
    """(first, last, direction) of the positions a slice of `arr` denotes,
    or a string explaining why this cannot be decided."""
    if not isinstance(e, ast.Subscript):
        return "not a slice"
    if isinstance(e.value, ast.Subscript):
        inner = _slice_positions(ev, env, e.value, arr, facts, n)
        if isinstance(inner, str):
            return inner
        sl = e.slice
        if isinstance(sl, ast.Slice) and sl.lower is None and \
                sl.upper is None and sl.step is not None:
            st = ev.num(env, sl.step).const_value()
            if st == -1:
                return inner[1], inner[0], -inner[2]
            if st == 1:
                return inner
        return "nested slice not understood"
    if not (isinstance(e.value, ast.Name) and e.value.id == arr):
        return "slice of another array"
    sl = e.slice
    if not isinstance(sl, ast.Slice):
        return "not a slice"
    step = Poly.const(1) if sl.step is None else ev.num(env, sl.step)
    st = step.const_value()
    if st not in (1, -1):
        return "step is not +-1"
    lo = ev.num(env, sl.lower) if sl.lower is not None else None
    hi = ev.num(env, sl.upper) if sl.upper is not None else None
    one = Poly.const(1)
    for b, nm in ((lo, "start"), (hi, "stop")):
        if b is not None and not facts.prove_ge0(b):
            return (f"{nm} `{show(facts.norm(b))}` may be negative on this "
                    "path: a negative bound is counted from the end of the "
                    "array (the i == 0 case of the reversal)")
        if b is not None and not facts.prove_ge0(n - b):
            return f"{nm} `{show(b)}` may exceed the array length"
    if st == 1:
        first = lo if lo is not None else Poly.const(0)
        last = (hi - one) if hi is not None else n - one
        return facts.norm(first), facts.norm(last), 1
    first = lo if lo is not None else n - one
    last = (hi + one) if hi is not None else Poly.const(0)
    return facts.norm(first), facts.norm(last), -1


def _store_into(s: ast.stmt, arr: str) -> ast.Subscript | None:
    tgs = s.targets if isinstance(s, ast.Assign) else (
        [s.target] if isinstance(s, (ast.AugAssign, ast.AnnAssign)) else [])
    for t in tgs:
        if isinstance(t, ast.Subscript) and isinstance(
                t.value, ast.Name) and t.value.id == arr:
            return t
    return None


def _is_increment(s: ast.stmt, tgt: ast.Subscript) -> bool:
    """Does `s` add exactly 1 to the cell `tgt`?"""
    def one(e: ast.expr) -> bool:
        return isinstance(e, ast.Constant) and e.value == 1 and not \
            isinstance(e.value, bool)
    if isinstance(s, ast.AugAssign):
        return isinstance(s.op, ast.Add) and one(s.value)
    if isinstance(s, ast.Assign) and len(s.targets) == 1 and isinstance(
            s.value, ast.BinOp) and isinstance(s.value.op, ast.Add):
        me = ast.unparse(tgt)
        for a, b in ((s.value.left, s.value.right),
                     (s.value.right, s.value.left)):
            if ast.unparse(a) == me and one(b):
                return True
    return False


class _KPath:
    """One path through a move kernel."""

    def __init__(self, env: Env, facts: Facts) -> None:
        self.env = env
        self.facts = facts
        self.conds: list[tuple] = []
        self.writes: list[tuple[ast.stmt, bool, str]] = []
        self.h_incs: list[Poly] = []
        self.h_tests: list[int] = []      # increments done when h is tested
        self.h_other: list[ast.stmt] = []
        self.ret: tuple[ast.AST | None, Any] = (None, None)
        self.opaque: list[ast.AST] = []

    def fork(self) -> "_KPath":
        q = _KPath(self.env.copy(), self.facts.copy())
        q.conds = list(self.conds)
        q.writes = list(self.writes)
        q.h_incs = list(self.h_incs)
        q.h_tests = list(self.h_tests)
        q.h_other = list(self.h_other)
        q.opaque = list(self.opaque)
        return q


def _refuted(facts: Facts, c: tuple) -> bool:
    """Do the facts exclude the condition `c`?"""
    if c[0] == "and":
        return any(_refuted(facts, x) for x in c[1:])
    if c[0] == "le":
        return facts.prove_ge0(c[1] - c[2] - Poly.const(1))
    if c[0] == "lt":
        return facts.prove_ge0(c[1] - c[2])
    if c[0] == "eq":
        d = facts.norm(c[1] - c[2])
        v = d.const_value()
        return (v is not None and v != 0) or facts.prove_ge0(
            d - Poly.const(1)) or facts.prove_ge0(-d - Poly.const(1))
    return False


def _kernel(ctx: Ctx, k: FuncInfo, fea: bool) -> dict[str, Any]:
    """Path-wise: every path through the kernel is followed with the
    symbolic evaluator; a path that writes x is an *accept* path.  What is
    demanded of the paths does not depend on how the tests are nested."""
    repo = ctx.repo
    P = k.params
    want_params = ["i", "j", "n_cities", "dist"] + (["h"] if fea else []) \
        + ["x", "y"]
    ctx.need(P == want_params, f"{k.name}{tuple(want_params)} signature")
    ev = make_evaluator(repo, k)
    ev.int_transparent = True
    i, j, n = Poly.var("i"), Poly.var("j"), Poly.var("n_cities")
    one = Poly.const(1)
    y = Poly.var("y")

    def X(ix: Poly) -> Poly:
        return Poly.atom(("cell", "x", (ix,)))

    def D(p: Poly, q: Poly) -> Poly:
        return Poly.atom(("cell", "dist", (p, q)))
    a, b, c = X(i - one), X(i), X(j)
    e = X(Poly.atom(("app", "mod", (j + one, n))))
    want_dy = D(a, c) + D(b, e) - D(a, b) - D(c, e)
    base = Facts()
    # contract established by solve(): 0 <= i < j <= n-2
    base.ge0 += [i, j - i - one, n - Poly.const(2) - j]
    done: list[_KPath] = []
    broken: list[tuple[ast.AST, str]] = []

    def x_store(s: ast.stmt) -> bool:
        tgs = s.targets if isinstance(s, ast.Assign) else (
            [s.target] if isinstance(s, (ast.AugAssign, ast.AnnAssign))
            else [])
        return any(isinstance(t, ast.Subscript) and isinstance(
            t.value, ast.Name) and t.value.id == "x" for t in tgs)

    def go(stmts: list[ast.stmt], st: _KPath) -> None:
        for pos, s in enumerate(stmts):
            if isinstance(s, ast.If):
                try:
                    cnd = ev.cond(st.env, s.test)
                except Unsupported:
                    cnd = None
                on_h = any(isinstance(q, ast.Subscript) and isinstance(
                    q.value, ast.Name) and q.value.id == "h"
                    for q in ast.walk(s.test))
                for branch, cc in ((s.body, cnd), (
                        s.orelse, c_not(cnd) if cnd is not None else None)):
                    q = st.fork()
                    if cc is None:
                        q.opaque.append(s.test)
                    elif _refuted(q.facts, cc):
                        continue
                    else:
                        q.facts.add_cond(cc)
                        q.conds.append(cc)
                    if on_h:
                        q.h_tests.append(len(q.h_incs))
                    go(list(branch) + list(stmts[pos + 1:]), q)
                return
            if isinstance(s, ast.Return):
                try:
                    st.ret = (s, ev.expr(st.env, s.value)
                              if s.value is not None else None)
                except Unsupported:
                    st.ret = (s, None)
                done.append(st)
                return
            tgt_h = _store_into(s, "h")
            if tgt_h is not None:
                if _is_increment(s, tgt_h):
                    try:
                        st.h_incs.append(ev.num(st.env, tgt_h.slice))
                    except Unsupported:
                        st.h_incs.append(Poly.var("?"))
                else:
                    st.h_other.append(s)
                continue
            if isinstance(s, ast.AugAssign) and x_store(s):
                st.writes.append((s, False, "in-place update of x is not a "
                                  "reversal"))
                continue
            if isinstance(s, ast.Assign) and x_store(s):
                tgt = s.targets[0]
                tp = _slice_positions(ev, st.env, tgt, "x", st.facts, n)
                sp = _slice_positions(ev, st.env, s.value, "x", st.facts, n)
                ok = False
                if isinstance(tp, str):
                    why = "target: " + tp
                elif isinstance(sp, str):
                    why = "source: " + sp
                else:
                    fi_, fj_ = st.facts.norm(i), st.facts.norm(j)
                    ok = tp[2] == 1 and sp[2] == -1 and tp[0] == fi_ and \
                        tp[1] == fj_ and sp[0] == fj_ and sp[1] == fi_
                    why = (f"target positions {show(tp[0])}..{show(tp[1])}"
                           f" step {tp[2]}, source {show(sp[0])}.."
                           f"{show(sp[1])} step {sp[2]}; want i..j <- j..i")
                st.writes.append((s, ok, why))
                continue
            if isinstance(s, (ast.For, ast.While)):
                broken.append((s, "cannot normalise: a loop in the kernel"))
                return
            if isinstance(s, (ast.Pass,)) or (isinstance(
                    s, ast.Expr) and isinstance(s.value, ast.Constant)):
                continue
            if any(isinstance(q_, ast.Subscript) and isinstance(
                    q_.value, ast.Name) and q_.value.id == "h"
                    and isinstance(q_.ctx, ast.Load)
                    for q_ in ast.walk(s)):
                # a frequency read into a local: counts as "tested" here
                st.h_tests.append(len(st.h_incs))
            try:
                st.env = ev.stmt(st.env, s)
            except Unsupported as u:
                broken.append((s, f"cannot normalise: {u}"))
                return
        done.append(st)      # fell off the end: returns None

    go(func_body(k), _KPath(Env(), base))
    if broken:
        ctx.ob("D6.1", k, broken[0][0], False, broken[0][1],
               construct="kernel prefix")
        return {}

    def trail(q: _KPath) -> str:
        return "[" + " and ".join(show_cond(c_) for c_ in q.conds)[:200] \
            + "]"
    accept = [q for q in done if q.writes]
    reject = [q for q in done if not q.writes]
    opaque = [q for q in done if q.opaque]
    # ---- D6.1: what an accept path adds to y is the 2-opt delta
    deltas = []
    for q in accept:
        r = q.ret[1]
        deltas.append(r - y if isinstance(r, Poly) else None)
    dy_term = deltas[0] if deltas and all(
        d_ is not None and d_ == deltas[0] for d_ in deltas) else None
    if dy_term is None and not accept and not fea:
        # no accept path: take the quantity the kernel calls the delta
        dy_term = None
    ok_dy = dy_term is not None and _sym(dy_term, "dist") == _sym(
        want_dy, "dist")
    ctx.ob("D6.1", k, k.node, bool(ok_dy),
           f"dy = {show(dy_term) if dy_term is not None else '?'}" + (
               "" if ok_dy else f"; 2-opt delta is {show(want_dy)}" + (
                   "" if accept else " (no path applies a move)")),
           construct="2-opt delta")
    # ---- D6.3: returned lengths
    bad_ret = [q for q in reject if not (
        isinstance(q.ret[1], Poly) and q.ret[1] == y)]
    no_ret = [q for q in done if q.ret[0] is None]
    ok_ret = dy_term is not None and not bad_ret and not no_ret and \
        bool(reject)
    ctx.ob("D6.3", k, (bad_ret or no_ret or done)[0].ret[0] or k.node,
           bool(ok_ret),
           f"the {len(accept)} path(s) that apply the move return y + dy, "
           f"the {len(reject)} other path(s) return y" if ok_ret else (
               "a path ends without returning a length" if no_ret else
               f"on the path {trail(bad_ret[0])} the tour is not changed "
               f"but {show(bad_ret[0].ret[1]) if isinstance(bad_ret[0].ret[1], Poly) else '?'}"
               " is returned instead of y" if bad_ret else
               "the paths that apply the move do not all return y + the "
               "same delta" if accept else "no path applies a move"),
           construct="returned lengths")
    # ---- accept criterion, both directions, path by path
    if fea:
        y2 = y + (dy_term if dy_term is not None else Poly.var("?"))
        hy = Poly.atom(("cell", "h", (y,)))
        hy2 = Poly.atom(("cell", "h", (y2,)))
        acc_goal, rej_goal = hy - hy2, hy2 - hy - one
        crit = "h[y2] <= h[y]"
        cname = "FEA accept guard h[y2] <= h[y]"
    else:
        d_ = dy_term if dy_term is not None else want_dy
        acc_goal, rej_goal = -d_, d_ - one
        crit = "dy <= 0"
        cname = "EA accept guard dy <= 0"
    wrong_acc = [q for q in accept if not q.facts.prove_ge0(acc_goal)]
    wrong_rej = [q for q in reject if not q.facts.prove_ge0(rej_goal)]
    okg = not wrong_acc and not wrong_rej and bool(accept) and bool(reject)
    if okg:
        msg = (f"the move is applied on exactly the paths on which {crit} "
               f"holds ({len(accept)} accept / {len(reject)} reject paths)")
    elif opaque and all(q.opaque for q in wrong_acc + wrong_rej):
        msg = (f"cannot normalise the test `"
               f"{ast.unparse(opaque[0].opaque[0])[:80]}`: not recognised")
    elif wrong_acc:
        msg = (f"the move is applied on the path {trail(wrong_acc[0])} on "
               f"which {crit} is not known to hold; must accept iff {crit}")
    elif wrong_rej:
        msg = (f"the move is NOT applied on the path {trail(wrong_rej[0])} "
               f"although {crit} may hold there; must accept iff {crit}")
    else:
        msg = ("x is never written: accepted moves are not applied"
               if not accept else "every path applies the move")
    ctx.ob("D6.4", k, (wrong_acc[0].writes[0][0] if wrong_acc else k.node),
           okg, msg, construct=cname)
    ctx.ob("D6.3", k, wrong_acc[0].writes[0][0] if wrong_acc else k.node,
           not wrong_acc and bool(accept),
           "x is written only on the accept path" if accept and not
           wrong_acc else ("x is written outside the accept path"
                           if accept else "x is never written: accepted "
                           "moves are not applied"),
           construct="x written only when accepted")
    if fea:
        want_inc = sorted(map(repr, [y, y + (dy_term if dy_term is not None
                                             else Poly.var("?"))]))
        bad_inc = [q for q in done if sorted(map(repr, q.h_incs)) != want_inc
                   or q.h_other or any(t != 2 for t in q.h_tests)
                   or not q.h_tests]
        ctx.ob("D6.4", k, k.node, not bad_inc,
               f"h is incremented at {[show(p_) for p_ in done[0].h_incs]} "
               "before the test on every path (want exactly h[y] and h[y2], "
               "once each)" if not bad_inc else
               f"on the path {trail(bad_inc[0])} h is incremented at "
               f"{[show(p_) for p_ in bad_inc[0].h_incs]} "
               f"({bad_inc[0].h_tests} increments done when it is tested); "
               "want exactly h[y] and h[y2], once each, before the test",
               construct="frequency increments")
    # ---- D6.2: every write is the reversal, one per accept path
    seen_w: dict[int, tuple[ast.stmt, bool, str]] = {}
    for q in accept:
        for w in q.writes:
            cur = seen_w.get(id(w[0]))
            if cur is None or (cur[1] and not w[1]):
                seen_w[id(w[0])] = w
    for s_, okw, why in seen_w.values():
        ctx.ob("D6.2", k, s_, okw, why,
               construct=f"reversal {ast.unparse(s_)}")
    ctx.count("slice_assignments", len(seen_w))
    multi = [q for q in accept if len(q.writes) != 1]
    ctx.ob("D6.2", k, multi[0].writes[1][0] if multi else k.node,
           not multi and bool(accept),
           "every path that returns the new length has reversed x[i..j] "
           "exactly once" if accept and not multi else (
               f"the path {trail(multi[0])} writes x {len(multi[0].writes)} "
               "times: the registered length is not the length of x"
               if multi else "a path returns y + dy although the tour was "
               "not changed: the registered length is not the length of x"),
           construct="reversal on every accept path")
    return {"dy": dy_term}


def _cv(p: Any, val: dict[Any, int]) -> Any:
    """Concrete value of a symbolic term for given atoms."""
    from fractions import Fraction
    if not isinstance(p, Poly):
        raise Unsupported("not a number")
    tot = Fraction(0)
    for mono, c in p.terms.items():
        t = Fraction(c)
        for a, e in mono:
            if a in val:
                v = Fraction(val[a])
            elif a[0] == "ite":
                v = Fraction(_cv(a[2] if _cc(a[1], val) else a[3], val))
            elif a[0] == "app" and a[1] in ("min", "max"):
                vs = [_cv(q, val) for q in a[2]]
                v = Fraction(min(vs) if a[1] == "min" else max(vs))
            elif a[0] == "app" and a[1] in ("floordiv", "mod") and \
                    _cv(a[2][1], val) != 0:
                x, y_ = _cv(a[2][0], val), _cv(a[2][1], val)
                v = Fraction(x // y_ if a[1] == "floordiv" else x % y_)
            else:
                raise Unsupported(f"cannot evaluate {show(Poly.atom(a))}")
            t *= v ** e
        tot += t
    return int(tot) if tot.denominator == 1 else tot


def _cc(c: tuple, val: dict[Any, int]) -> bool:
    k = c[0]
    if k == "true":
        return True
    if k == "false":
        return False
    if k == "not":
        return not _cc(c[1], val)
    if k == "and":
        return all(_cc(x, val) for x in c[1:])
    if k == "or":
        return any(_cc(x, val) for x in c[1:])
    if k in ("lt", "le", "eq"):
        a, b = _cv(c[1], val), _cv(c[2], val)
        return a < b if k == "lt" else (a <= b if k == "le" else a == b)
    raise Unsupported(f"cannot evaluate condition {k}")


# -------------------------------------------------------------------- solve
def _solve(ctx: Ctx, sv: FuncInfo, k: FuncInfo, fea: bool,
           kinfo: dict[str, Any]) -> None:
    repo = ctx.repo
    records: dict[str, list[Any]] = {"kernel": [], "register": [],
                                     "evaluate": [], "shuffle": [],
                                     "create": [], "zeros": []}
    sites = [0]

    def callee(ev: Evaluator, env: Env, f: ast.expr) -> str | None:
        if isinstance(f, ast.Name):
            b = env.vars.get(f.id)
            if isinstance(b, Poly) and b.as_atom() and \
                    b.as_atom()[0] == "var":
                return b.as_atom()[1]
            return f.id
        if isinstance(f, ast.Attribute):
            if isinstance(f.value, ast.Name):
                b = env.vars.get(f.value.id)
                base = f.value.id
                if isinstance(b, Poly) and b.as_atom() and \
                        b.as_atom()[0] == "var":
                    base = b.as_atom()[1]
                return f"{base}.{f.attr}"
            return ast.unparse(f)
        return None

    def hook(ev: Evaluator, env: Env, n: ast.Call) -> Any:
        nm = callee(ev, env, n.func)
        if nm == "cast" and len(n.args) == 2:
            return ev.expr(env, n.args[1])
        if nm == "process.get_random":
            return Poly.var("RNG")
        if nm == "process.create":
            sites[0] += 1
            v = Poly.var(f"X{sites[0]}")
            records["create"].append(v)
            return v
        if nm == "process.evaluate" and len(n.args) == 1:
            a = ev.expr(env, n.args[0])
            records["evaluate"].append((a, n))
            return Poly.atom(("app", "evaluate", (a,)))
        if nm == "RNG.integers" and len(n.args) == 1:
            sites[0] += 1
            return Poly.atom(("app", "randint", (
                ev.num(env, n.args[0]), Poly.const(sites[0]))))
        if nm == "RNG.shuffle" and len(n.args) == 1:
            records["shuffle"].append(ev.expr(env, n.args[0]))
            return Poly.const(0)
        if nm == "process.register" and len(n.args) == 2:
            records["register"].append(
                (ev.expr(env, n.args[0]), ev.expr(env, n.args[1]), n))
            return Poly.const(0)
        if nm == "np.zeros" and (n.args or any(
                kw_.arg == "shape" for kw_ in n.keywords)):
            sites[0] += 1
            size = ev.num(env, n.args[0] if n.args else next(
                kw_.value for kw_ in n.keywords if kw_.arg == "shape"))
            v = Poly.var(f"H{sites[0]}")
            records["zeros"].append((v, size))
            return v
        if isinstance(n.func, ast.Name) and repo.resolve(
                sv.module, n.func.id) is k:
            sites[0] += 1
            from sa.srcmodel import bound_args
            ba = bound_args(n, list(k.params))
            if set(ba) != set(k.params):
                raise Unsupported("kernel call does not bind every "
                                  "parameter", n)
            args = [ev.expr(env, ba[p_]) for p_ in k.params]
            res = Poly.atom(("app", "kernel", (Poly.const(sites[0]),)))
            records["kernel"].append((args, res, n, env.copy(), gw._path))
            return res
        return NotImplemented

    ev = make_evaluator(repo, sv, extra_call=hook)
    ev.int_transparent = True
    env = Env()
    env.vars["self"] = Poly.var("self")
    env.vars["process"] = Poly.var("process")
    gw = GuardWalk(ev)
    gw.walk(env, func_body(sv))
    ctx.need(len(records["kernel"]) == 1,
             f"{sv.qualname}: exactly one call of {k.name}")
    args, res, call, cenv, kpath = records["kernel"][0]
    binding = dict(zip(k.params, args))
    ncity = Poly.var("self.instance.n_cities")
    two = Poly.const(2)
    # ---- wiring of n / dist / x / y
    ok_n = binding.get("n_cities") == ncity
    ok_d = binding.get("dist") == Poly.var("self.instance")
    xarr = binding.get("x")
    ok_x = xarr in records["create"]
    ctx.ob("D6.5", sv, call, bool(ok_n and ok_d and ok_x),
           f"kernel receives n_cities={show(binding.get('n_cities'))}, "
           f"dist={show(binding.get('dist'))}, x={show(xarr)}",
           construct="kernel wiring (n, instance, x)")
    # ---- register gets (same x, kernel result)
    regs = records["register"]
    ok_r = len(regs) == 1 and regs[0][0] == xarr and regs[0][1] == res
    ctx.ob("D6.5", sv, regs[0][2] if regs else sv.node, bool(ok_r),
           "register(x, y) receives the mutated array and the kernel's "
           "return value of the same iteration" if ok_r else
           f"register receives {[show(v) for v in regs[0][:2]] if regs else None}"
           f" but the kernel result is {show(res)} for array {show(xarr)}",
           construct="register wiring")
    # ---- y fed to the kernel is the initial evaluate(x) or the previous
    # kernel result (loop-carried): both are assignments to the same name
    from sa.srcmodel import bound_args as _ba
    yarg = _ba(call, list(k.params))["y"]
    ok_y = False
    if isinstance(yarg, ast.Name):
        defs = []
        for s in ast.walk(sv.node):
            if isinstance(s, (ast.Assign, ast.AnnAssign)):
                tg = s.targets if isinstance(s, ast.Assign) else [s.target]
                if any(isinstance(t, ast.Name) and t.id == yarg.id
                       for t in tg):
                    defs.append(s)
        vals = []
        for s in defs:
            calls = [c for c in ast.walk(s.value) if isinstance(c, ast.Call)]
            vals.append(any(c is call for c in calls) or any(
                isinstance(c.func, ast.Attribute)
                and c.func.attr == "evaluate" for c in calls))
        ok_y = len(defs) == 2 and all(vals)
    ev_ok = len(records["evaluate"]) == 1 and \
        records["evaluate"][0][0] == xarr
    ctx.ob("D6.5", sv, call, bool(ok_y and ev_ok),
           "y is only ever assigned process.evaluate(x) (initially) and the "
           "kernel's result" if ok_y and ev_ok else
           "y has another definition, or the initial evaluation is of a "
           "different array", construct="y provenance")
    # ---- x initialised to a shuffled range(n)
    init_ok = False
    for s in func_body(sv):
        if isinstance(s, ast.Assign) and isinstance(
                s.targets[0], ast.Subscript) and isinstance(
                s.value, ast.Call) and isinstance(
                s.value.func, ast.Name) and s.value.func.id == "range" \
                and len(s.value.args) == 1:
            try:
                init_ok = ev.num(cenv, s.value.args[0]) == ncity
            except Unsupported:
                init_ok = False
    ctx.ob("D6.5", sv, sv.node, bool(init_ok and xarr in records["shuffle"]),
           "x[:] = range(n_cities) then shuffled by the process's generator"
           if init_ok and xarr in records["shuffle"] else
           "initial tour is not a shuffled range(n_cities)",
           construct="initial permutation")
    # ---- index ranges: all weak orderings of the two draws
    iarg, jarg = binding["i"], binding["j"]
    draws = sorted({a for a in all_atoms(iarg) | all_atoms(jarg)
                    if a[0] == "app" and a[1] == "randint"}, key=repr)
    ok_draws = len(draws) == 2 and all(
        a[2][0] == ncity - Poly.const(1) for a in draws)
    ctx.ob("D6.5", sv, call, ok_draws,
           f"indices come from {len(draws)} draws integers(n_cities - 1), "
           "i.e. from [0, n-2]" if ok_draws else
           f"index draws are {[show(Poly.atom(a)) for a in draws]}",
           construct="index draws")
    if not ok_draws:
        return
    r1, r2 = (Poly.atom(a) for a in draws)
    zero, nm2 = Poly.const(0), ncity - two

    def strip(c: tuple) -> tuple:
        """Conditions that do not concern the indices (`while True: if
        stop(): break`) are dropped from the conjunction."""
        if c[0] == "opaque" and len(c) == 4 and c[1] == "and":
            parts = [x for x in (strip(c[2]), strip(c[3]))
                     if x != ("true",)]
            return ("and", *parts) if len(parts) > 1 else (
                parts[0] if parts else ("true",))
        if c[0] == "opaque" or (c[0] == "not" and c[1][0] == "opaque"):
            return ("true",)
        if c[0] == "and":
            parts = [strip(x) for x in c[1:]]
            parts = [x for x in parts if x != ("true",)]
            return ("and", *parts) if len(parts) > 1 else (
                parts[0] if parts else ("true",))
        return c
    kpath = strip(kpath)
    terms = [r1, r2, zero, nm2]
    bad = None
    n_models = 0
    n_pass = 0
    try:
        for m in ordenum.enumerate_models(terms):
            if not (m.rank(zero) <= m.rank(r1) <= m.rank(nm2)
                    and m.rank(zero) <= m.rank(r2) <= m.rank(nm2)):
                continue
            n_models += 1
            # the call is reached iff no earlier `continue` was taken and
            # every enclosing `if` holds
            if not m.cond(kpath):
                continue
            n_pass += 1
            ri_, rj_ = m.rank(iarg), m.rank(jarg)
            good = m.rank(zero) <= ri_ < rj_ <= m.rank(nm2) and not (
                ri_ == m.rank(zero) and rj_ == m.rank(nm2))
            if not good and bad is None:
                bad = m.describe(["draw1", "draw2", "0", "n-2"])
    except Unsupported as u:
        # index arithmetic (e.g. `i -= 1`) is not a pure ordering question:
        # evaluate the symbolic index expressions and path condition for
        # every pair of draws of small instances instead
        bad = None
        n_models = n_pass = 0
        undecided = False
        for n_ in range(2, 9):
            for d1 in range(n_ - 1):
                for d2 in range(n_ - 1):
                    val = {draws[0]: d1, draws[1]: d2,
                           ncity.as_atom(): n_}
                    try:
                        if not _cc(kpath, val):
                            n_models += 1
                            continue
                        iv, jv = _cv(iarg, val), _cv(jarg, val)
                    except Unsupported:
                        undecided = True
                        continue
                    n_models += 1
                    n_pass += 1
                    if not (0 <= iv < jv <= n_ - 2) or (
                            iv == 0 and jv == n_ - 2):
                        if bad is None:
                            bad = (f"n = {n_} cities, draws {d1} and {d2}: "
                                   f"the kernel is called with i = {iv}, "
                                   f"j = {jv}")
        if bad is None:
            bad = (f"cannot normalise the index arithmetic: not recognised "
                   f"({u}; no counterexample among all draws for n <= 8)")
        del undecided
    ctx.count("orderings_enumerated", n_models)
    ctx.ob("D6.5", sv, call, bad is None and n_pass > 0,
           f"{n_models} weak orderings of the two draws against 0 and n-2; "
           f"{n_pass} reach the kernel, all with 0 <= i < j <= n-2 and "
           "(i, j) != (0, n-2)" if bad is None else
           f"the kernel can be reached with an index pair violating "
           f"0 <= i < j <= n-2, (i,j) != (0,n-2): {bad}",
           construct="move index contract",
           witness=None if bad is None else {"ordering": bad})
    if fea:
        harg = binding.get("h")
        sizes = [sz for v, sz in records["zeros"] if v == harg]
        ub = Poly.var("self.instance.tour_length_upper_bound")
        ok_h = len(sizes) == 1 and sizes[0] == ub + Poly.const(1)
        ctx.ob("D6.5", sv, call, ok_h,
               f"h has {show(sizes[0]) if sizes else '?'} cells; needs "
               "tour_length_upper_bound + 1 so that every true length "
               "0..UB is a valid index", construct="h table size")



def _h_log(ctx: Ctx) -> None:
    """The kernel indexes `h` directly by the tour length (D6.5: h has
    UB + 1 cells, D6.3/D6.4: `h[y]`, `h[y2]`), so the table is logged with
    offset 0: `log_h(process, h, ofs)` reports cell i as the objective value
    i - ofs... i.e. any other offset reports lengths the run never saw."""
    from sa.srcmodel import bound_args, inline_locals
    repo = ctx.repo
    fi = repo.func(FEA[0], f"{FEA[2]}.solve")
    calls = [c for c in ast.walk(fi.node) if isinstance(c, ast.Call)
             and ast.unparse(c.func).split(".")[-1] == "log_h"]
    if not calls:
        return                      # logging the table is optional
    for c in calls:
        ofs = c.args[2] if len(c.args) >= 3 else next(
            (k.value for k in c.keywords if k.arg in ("ofs", "offset")),
            None)
        if ofs is None:
            ctx.ob("D6.6", fi, c, False, "the offset argument of log_h is "
                   "not recognised", construct="H table offset")
            continue
        v = repo.const(fi.module, inline_locals(fi.node, ofs))
        ok = isinstance(v, int) and not isinstance(v, bool) and v == 0
        ctx.ob("D6.6", fi, c, ok,
               "log_h(process, h, 0): cell i is reported as tour length i"
               if ok else
               (f"log_h is given the offset `{ast.unparse(ofs)}`, but the "
                "kernel addresses h directly by the tour length (h[y]): "
                "the logged lengths are shifted" if v is None or isinstance(
                    v, int) else "the offset argument of log_h is not "
                "recognised"), construct="H table offset")



def _typed_locals(ctx: Ctx, k: Any) -> None:
    """The O(1) update `y + dy` is exact only in an integer type that holds
    every tour length (numba types integer locals as int64; C05 bounds the
    lengths by 10^15).  A `locals={..}` / signature entry of the njit
    decorator that narrows a local makes the stored value wrap silently."""
    wide = {"int64", "intp", "uint64", "float64", "double", "int_",
            "longlong"}
    bad: list[str] = []
    unknown: list[str] = []
    for d in k.node.decorator_list:
        if not isinstance(d, ast.Call):
            continue
        for kw in d.keywords:
            if kw.arg != "locals":
                continue
            if not isinstance(kw.value, ast.Dict):
                unknown.append(ast.unparse(kw.value)[:40])
                continue
            for kk, vv in zip(kw.value.keys, kw.value.values):
                tn = ast.unparse(vv).split(".")[-1].split("(")[0]
                nm = kk.value if isinstance(kk, ast.Constant) else "?"
                if tn in wide:
                    continue
                if tn in ("int32", "int16", "int8", "uint32", "uint16",
                          "uint8", "float32", "intc", "short"):
                    bad.append(f"{nm}: {ast.unparse(vv)}")
                else:
                    unknown.append(f"{nm}: {ast.unparse(vv)}")
        # an explicit signature as first positional argument
        for a in d.args:
            if isinstance(a, (ast.Constant, ast.Call)) and any(
                    t in ast.unparse(a) for t in ("int32", "int16", "int8",
                                                  "float32")):
                bad.append("signature " + ast.unparse(a)[:50])
    ctx.ob("D6.7", k, k.node, not bad and not unknown,
           f"{k.name}: no local is narrowed below 64 bit" if not bad
           and not unknown else (
               f"{k.name}: the njit decorator types {bad} narrower than "
               "64 bit: a delta or length beyond that range wraps silently "
               "(distances up to 10^15 are accepted by the instance)"
               if bad else f"{k.name}: typed locals {unknown} are not "
               "recognised"), construct=f"typed locals of {k.name}",
           nontrivial=False)
