"""C06 - the TSP (1+1) EA / FEA report true tour lengths."""
from __future__ import annotations

import ast
from typing import Any

from sa import ordenum
from sa.guards import GuardWalk
from sa.kern import make_evaluator
from sa.report import Ctx
from sa.srcmodel import FuncInfo, func_body
from sa.symterm import (Env, Evaluator, Poly, Unsupported, all_atoms, c_not,
                        show, show_cond)

EA = ("moptipyapps.tsp.ea1p1_revn", "rev_if_not_worse", "TSPEA1p1revn")
FEA = ("moptipyapps.tsp.fea1p1_revn", "rev_if_h_not_worse", "TSPFEA1p1revn")


def run(ctx: Ctx) -> None:
    ctx.explanation = (
        "For both move kernels: D6.1 the incremental delta is the 2-opt "
        "identity d[a,c]+d[b,e]-d[a,b]-d[c,e] (a=x[i-1], b=x[i], c=x[j], "
        "e=x[(j+1) mod n]; unordered pairs: symmetric instances) as a "
        "polynomial identity; D6.2 every slice assignment on the accept "
        "path writes positions i..j with the source sequence j..i, and a "
        "negative-step slice whose stop could evaluate to -1 is excluded by "
        "the path condition (the i == 0 special case); D6.3 x is written "
        "only on the accept path, which returns y+dy, every other path "
        "returns y; D6.4 the accept guard is dy <= 0 (EA) or h[y2] <= h[y] "
        "after exactly one increment of h[y] and h[y2] (FEA). D6.5 in "
        "solve(): both indices are drawn from [0, n-2], ordered by the swap, "
        "the pairs i == j and (0, n-2) are skipped (all weak orderings of "
        "the two draws enumerated), the kernel receives (i, j, n, instance, "
        "[h,] x, y), its result is what register(x, y) is given for the "
        "same array, the initial y is process.evaluate(x) of a shuffled "
        "range(n), and h has UB+1 cells. Together with C05 this is the "
        "inductive argument that every registered y is the true length.")
    ctx.rule("D6.1", "dy == 2-opt delta (symmetric)")
    ctx.rule("D6.2", "slice assignment == reversal of x[i..j]")
    ctx.rule("D6.3", "x written only when accepted; returns y+dy / y")
    ctx.rule("D6.4", "accept guard")
    ctx.rule("D6.5", "solve(): index ranges, skips, wiring, register")
    for modn, kern, cls in (EA, FEA):
        k = ctx.repo.func(modn, kern)
        ctx.need(k.njit is not None, f"{kern} is an njit kernel")
        info = _kernel(ctx, k, fea=(kern == FEA[1]))
        _solve(ctx, ctx.repo.func(modn, f"{cls}.solve"), k,
               fea=(kern == FEA[1]), kinfo=info)
    ctx.exhaustive = True
    ctx.assumptions += [
        "N4/N5: basic slices are clamped; overlapping slice assignment "
        "copies the source first",
        "Generator.integers(h) returns a value in [0, h-1]; "
        "Generator.shuffle permutes in place",
        "the instance is symmetric (documented precondition of both "
        "algorithms)",
        "C05: process.evaluate(x) is the true tour length of x",
    ]


# ----------------------------------------------------------------- kernels
def _sym(p: Poly, dist: str) -> Poly:
    """Canonicalise dist[p, q] cells to unordered index pairs."""
    mapping = {}
    for a in all_atoms(p):
        if a[0] == "cell" and a[1] == dist and len(a[2]) == 2:
            i0, i1 = a[2]
            if repr(i0.key()) > repr(i1.key()):
                mapping[a] = Poly.atom(("cell", dist, (i1, i0)))
    return p.subst(mapping)


class Facts:
    """Tiny integer reasoner: facts `p >= 0` and `p != 0` over polys."""

    def __init__(self) -> None:
        self.ge0: list[Poly] = []
        self.ne0: list[Poly] = []
        self.eq: dict[tuple, Poly] = {}

    def copy(self) -> "Facts":
        f = Facts()
        f.ge0, f.ne0, f.eq = list(self.ge0), list(self.ne0), dict(self.eq)
        return f

    def norm(self, p: Poly) -> Poly:
        return p.subst(self.eq) if self.eq else p

    def add_cond(self, c: tuple) -> None:
        if c[0] == "and":
            for x in c[1:]:
                self.add_cond(x)
        elif c[0] == "eq":
            d = self.norm(c[1] - c[2])
            # var == const : substitute
            for side, other in ((c[1], c[2]), (c[2], c[1])):
                a = side.as_atom()
                if a is not None and a[0] == "var":
                    self.eq[a] = other
                    return
            self.ge0 += [d, -d]
        elif c[0] == "not" and c[1][0] == "eq":
            self.ne0.append(self.norm(c[1][1] - c[1][2]))
        elif c[0] == "le":
            self.ge0.append(c[2] - c[1])
        elif c[0] == "lt":
            self.ge0.append(c[2] - c[1] - Poly.const(1))

    def prove_ge0(self, goal: Poly) -> bool:
        goal = self.norm(goal)
        v = goal.const_value()
        if v is not None:
            return v >= 0
        cands = [self.norm(f) for f in self.ge0]
        for f in list(cands):
            for n in self.ne0:
                n = self.norm(n)
                if f == n or f == -n:
                    cands.append(f - Poly.const(1))
        for f in cands:
            d = (goal - f).const_value()
            if d is not None and d >= 0:
                return True
        for f in cands:
            for g in cands:
                d = (goal - f - g).const_value()
                if d is not None and d >= 0:
                    return True
        return False


def _slice_positions(ev: Evaluator, env: Env, e: ast.expr, arr: str,
                     facts: Facts, n: Poly) -> tuple[Poly, Poly, int] | str:
    """(first, last, direction) of the positions a slice of `arr` denotes,
    or a string explaining why this cannot be decided."""
    if not isinstance(e, ast.Subscript):
        return "not a slice"
    if isinstance(e.value, ast.Subscript):
        inner = _slice_positions(ev, env, e.value, arr, facts, n)
        if isinstance(inner, str):
            return inner
        sl = e.slice
        if isinstance(sl, ast.Slice) and sl.lower is None and \
                sl.upper is None and sl.step is not None:
            st = ev.num(env, sl.step).const_value()
            if st == -1:
                return inner[1], inner[0], -inner[2]
            if st == 1:
                return inner
        return "nested slice not understood"
    if not (isinstance(e.value, ast.Name) and e.value.id == arr):
        return "slice of another array"
    sl = e.slice
    if not isinstance(sl, ast.Slice):
        return "not a slice"
    step = Poly.const(1) if sl.step is None else ev.num(env, sl.step)
    st = step.const_value()
    if st not in (1, -1):
        return "step is not +-1"
    lo = ev.num(env, sl.lower) if sl.lower is not None else None
    hi = ev.num(env, sl.upper) if sl.upper is not None else None
    one = Poly.const(1)
    for b, nm in ((lo, "start"), (hi, "stop")):
        if b is not None and not facts.prove_ge0(b):
            return (f"{nm} `{show(facts.norm(b))}` may be negative on this "
                    "path: a negative bound is counted from the end of the "
                    "array (the i == 0 case of the reversal)")
        if b is not None and not facts.prove_ge0(n - b):
            return f"{nm} `{show(b)}` may exceed the array length"
    if st == 1:
        first = lo if lo is not None else Poly.const(0)
        last = (hi - one) if hi is not None else n - one
        return facts.norm(first), facts.norm(last), 1
    first = lo if lo is not None else n - one
    last = (hi + one) if hi is not None else Poly.const(0)
    return facts.norm(first), facts.norm(last), -1


def _store_into(s: ast.stmt, arr: str) -> ast.Subscript | None:
    tgs = s.targets if isinstance(s, ast.Assign) else (
        [s.target] if isinstance(s, (ast.AugAssign, ast.AnnAssign)) else [])
    for t in tgs:
        if isinstance(t, ast.Subscript) and isinstance(
                t.value, ast.Name) and t.value.id == arr:
            return t
    return None


def _is_increment(s: ast.stmt, tgt: ast.Subscript) -> bool:
    """Does `s` add exactly 1 to the cell `tgt`?"""
    def one(e: ast.expr) -> bool:
        return isinstance(e, ast.Constant) and e.value == 1 and not \
            isinstance(e.value, bool)
    if isinstance(s, ast.AugAssign):
        return isinstance(s.op, ast.Add) and one(s.value)
    if isinstance(s, ast.Assign) and len(s.targets) == 1 and isinstance(
            s.value, ast.BinOp) and isinstance(s.value.op, ast.Add):
        me = ast.unparse(tgt)
        for a, b in ((s.value.left, s.value.right),
                     (s.value.right, s.value.left)):
            if ast.unparse(a) == me and one(b):
                return True
    return False


def _kernel(ctx: Ctx, k: FuncInfo, fea: bool) -> dict[str, Any]:
    repo = ctx.repo
    P = k.params
    want_params = ["i", "j", "n_cities", "dist"] + (["h"] if fea else []) \
        + ["x", "y"]
    ctx.need(P == want_params, f"{k.name}{tuple(want_params)} signature")
    ev = make_evaluator(repo, k)
    ev.int_transparent = True
    env = Env()
    body = func_body(k)
    # prefix: everything before the first `if`
    idx = next((n for n, s in enumerate(body) if isinstance(s, ast.If)),
               None)
    ctx.need(idx is not None, f"{k.name}: accept `if`")
    h_incs: list[Poly] = []
    for s in body[:idx]:
        tgt_h = _store_into(s, "h")
        if tgt_h is not None:
            # `h[k] += 1`, `h[k] = h[k] + 1`, `h[k] = 1 + h[k]`
            if _is_increment(s, tgt_h):
                h_incs.append(ev.num(env, tgt_h.slice))
            else:
                h_incs.append(Poly.var("?"))
            continue
        try:
            env = ev.stmt(env, s)
        except Unsupported as u:
            ctx.ob("D6.1", k, s, False, f"cannot normalise: {u}",
                   construct="kernel prefix")
            return {}
    acc: ast.If = body[idx]
    rest = body[idx + 1:]
    i, j, n = Poly.var("i"), Poly.var("j"), Poly.var("n_cities")
    one = Poly.const(1)

    def X(ix: Poly) -> Poly:
        return Poly.atom(("cell", "x", (ix,)))

    def D(p: Poly, q: Poly) -> Poly:
        return Poly.atom(("cell", "dist", (p, q)))
    a, b, c = X(i - one), X(i), X(j)
    e = X(Poly.atom(("app", "mod", (j + one, n))))
    want_dy = D(a, c) + D(b, e) - D(a, b) - D(c, e)
    # ---- accept guard
    try:
        guard = ev.cond(env, acc.test)
    except Unsupported as u:
        guard = None
        if not fea:
            ctx.ob("D6.4", k, acc.test, False, f"guard not normalised: {u}",
                   construct="accept guard")
    y = Poly.var("y")
    dy_term = None
    if not fea:
        ok = guard is not None and guard[0] == "le" and \
            guard[2] == Poly.const(0)
        if ok:
            dy_term = guard[1]
        ctx.ob("D6.4", k, acc.test, bool(ok),
               f"accept guard is [{show_cond(guard) if guard else '?'}]; "
               "the EA must accept iff dy <= 0",
               construct="EA accept guard dy <= 0")
    # ---- returns
    acc_ret = acc.body[-1] if acc.body and isinstance(
        acc.body[-1], ast.Return) else None
    fall_ret = rest[-1] if rest and isinstance(rest[-1], ast.Return) \
        else None
    n_returns = sum(1 for x in ast.walk(k.node)
                    if isinstance(x, ast.Return))
    ok_shape = acc_ret is not None and fall_ret is not None and \
        n_returns == 2 and not acc.orelse and len(rest) == 1
    ret_acc = ev.expr(env, acc_ret.value) if acc_ret is not None else None
    ret_fall = ev.expr(env, fall_ret.value) if fall_ret is not None else None
    if fea and isinstance(ret_acc, Poly):
        dy_term = ret_acc - y
    ok_dy = dy_term is not None and _sym(dy_term, "dist") == _sym(
        want_dy, "dist")
    ctx.ob("D6.1", k, k.node, bool(ok_dy),
           f"dy = {show(dy_term) if dy_term is not None else '?'}" + (
               "" if ok_dy else f"; 2-opt delta is {show(want_dy)}"),
           construct="2-opt delta")
    ok_ret = ok_shape and dy_term is not None and ret_acc == y + dy_term \
        and ret_fall == y
    ctx.ob("D6.3", k, acc_ret or k.node, bool(ok_ret),
           f"accept path returns {show(ret_acc) if ret_acc is not None else '?'}"
           f", other path returns "
           f"{show(ret_fall) if ret_fall is not None else '?'}",
           construct="returned lengths")
    # ---- x is written only inside the accept branch
    writes = [s for s in ast.walk(k.node) if isinstance(
        s, (ast.Assign, ast.AugAssign)) and any(
        isinstance(t, ast.Subscript) and isinstance(t.value, ast.Name)
        and t.value.id == "x" for t in (
            s.targets if isinstance(s, ast.Assign) else [s.target]))]
    inside = {id(s) for s in ast.walk(acc) if isinstance(
        s, (ast.Assign, ast.AugAssign))} - {id(s) for s in ast.walk(
            ast.Module(body=acc.orelse, type_ignores=[]))}
    stray = [s for s in writes if id(s) not in inside]
    ctx.ob("D6.3", k, stray[0] if stray else acc, not stray and bool(writes),
           "x is written only on the accept path" if not stray and writes
           else ("x is written outside the accept path" if stray else
                 "x is never written: accepted moves are not applied"),
           construct="x written only when accepted")
    # ---- FEA guard and increments
    if fea:
        y2 = y + (dy_term if dy_term is not None else Poly.var("?"))
        hy = Poly.atom(("cell", "h", (y,)))
        hy2 = Poly.atom(("cell", "h", (y2,)))
        okg = False
        try:
            # evaluate the guard with h loads as plain cells
            g = ev.cond(env, acc.test)
            okg = g[0] == "le" and g[1] == hy2 and g[2] == hy
        except Unsupported:
            g = None
        ctx.ob("D6.4", k, acc.test, okg,
               f"accept guard is [{show_cond(g) if g else '?'}]; the FEA "
               "must accept iff h[y2] <= h[y]",
               construct="FEA accept guard h[y2] <= h[y]")
        ok_inc = sorted(map(repr, h_incs)) == sorted(map(repr, [y, y2])) \
            and not any(isinstance(s, (ast.Assign, ast.AugAssign)) and any(
                isinstance(t, ast.Subscript) and isinstance(
                    t.value, ast.Name) and t.value.id == "h"
                for t in (s.targets if isinstance(s, ast.Assign)
                          else [s.target]))
                for s in ast.walk(acc))
        ctx.ob("D6.4", k, k.node, ok_inc,
               f"h is incremented at {[show(p) for p in h_incs]} before the "
               "test (want exactly h[y] and h[y2], once each)",
               construct="frequency increments")
    # ---- D6.2 slice assignments on the accept path
    base = Facts()
    # contract established by solve(): 0 <= i < j <= n-2
    base.ge0 += [i, j - i - one, n - Poly.const(2) - j]
    n_slices = [0]

    def walk(stmts: list[ast.stmt], facts: Facts, env: Env = env) -> None:
        env = env.copy()
        for s in stmts:
            if isinstance(s, ast.If):
                try:
                    c = ev.cond(env, s.test)
                except Unsupported:
                    c = None
                f1, f2 = facts.copy(), facts.copy()
                if c is not None:
                    f1.add_cond(c)
                    f2.add_cond(c_not(c))
                walk(s.body, f1, env)
                walk(s.orelse, f2, env)
            elif isinstance(s, (ast.Assign, ast.AnnAssign)) and all(
                    isinstance(t, ast.Name) for t in (
                        s.targets if isinstance(s, ast.Assign)
                        else [s.target])):
                # a temporary of the accept branch (e.g. the slice end)
                try:
                    env = ev.stmt(env, s)
                except Unsupported:
                    for t in (s.targets if isinstance(s, ast.Assign)
                              else [s.target]):
                        env.vars.pop(t.id, None)
            elif isinstance(s, ast.Assign) and any(
                    isinstance(t, ast.Subscript) and isinstance(
                        t.value, ast.Name) and t.value.id == "x"
                    for t in s.targets):
                n_slices[0] += 1
                tgt = s.targets[0]
                tp = _slice_positions(ev, env, tgt, "x", facts, n)
                sp = _slice_positions(ev, env, s.value, "x", facts, n)
                ok = False
                why = ""
                if isinstance(tp, str):
                    why = "target: " + tp
                elif isinstance(sp, str):
                    why = "source: " + sp
                else:
                    fi_, fj_ = facts.norm(i), facts.norm(j)
                    ok = tp[2] == 1 and sp[2] == -1 and tp[0] == fi_ and \
                        tp[1] == fj_ and sp[0] == fj_ and sp[1] == fi_
                    why = (f"target positions {show(tp[0])}..{show(tp[1])}"
                           f" step {tp[2]}, source {show(sp[0])}.."
                           f"{show(sp[1])} step {sp[2]}; want i..j <- j..i")
                ctx.ob("D6.2", k, s, ok, why,
                       construct=f"reversal {ast.unparse(s)}")
            elif isinstance(s, ast.AugAssign) and isinstance(
                    s.target, ast.Subscript) and isinstance(
                    s.target.value, ast.Name) and s.target.value.id == "x":
                n_slices[0] += 1
                ctx.ob("D6.2", k, s, False, "in-place update of x is not a "
                       "reversal", construct=f"reversal {ast.unparse(s)}")
    walk(acc.body, base)
    ctx.count("slice_assignments", n_slices[0])
    # every path of the accept branch that returns the new length applies
    # a reversal (dominance on the statement CFG)
    from sa.cfg import CFG
    cfg = CFG(k.node)
    slice_nodes = {id(s) for s in writes}
    ret_node = next((nd for nd in cfg.nodes if nd.ast is acc_ret), None)
    applied = ret_node is not None and acc_ret is not None and \
        cfg.dominated_by(ret_node, lambda nd: nd.kind == "stmt"
                         and id(nd.ast) in slice_nodes)
    ctx.ob("D6.2", k, acc_ret or acc, bool(applied),
           "every path that returns the new length has reversed x[i..j]"
           if applied else
           "a path returns y + dy although the tour was not changed: the "
           "registered length is not the length of x",
           construct="reversal on every accept path")
    return {"dy": dy_term}


# -------------------------------------------------------------------- solve
def _solve(ctx: Ctx, sv: FuncInfo, k: FuncInfo, fea: bool,
           kinfo: dict[str, Any]) -> None:
    repo = ctx.repo
    records: dict[str, list[Any]] = {"kernel": [], "register": [],
                                     "evaluate": [], "shuffle": [],
                                     "create": [], "zeros": []}
    sites = [0]

    def callee(ev: Evaluator, env: Env, f: ast.expr) -> str | None:
        if isinstance(f, ast.Name):
            b = env.vars.get(f.id)
            if isinstance(b, Poly) and b.as_atom() and \
                    b.as_atom()[0] == "var":
                return b.as_atom()[1]
            return f.id
        if isinstance(f, ast.Attribute):
            if isinstance(f.value, ast.Name):
                b = env.vars.get(f.value.id)
                base = f.value.id
                if isinstance(b, Poly) and b.as_atom() and \
                        b.as_atom()[0] == "var":
                    base = b.as_atom()[1]
                return f"{base}.{f.attr}"
            return ast.unparse(f)
        return None

    def hook(ev: Evaluator, env: Env, n: ast.Call) -> Any:
        nm = callee(ev, env, n.func)
        if nm == "cast" and len(n.args) == 2:
            return ev.expr(env, n.args[1])
        if nm == "process.get_random":
            return Poly.var("RNG")
        if nm == "process.create":
            sites[0] += 1
            v = Poly.var(f"X{sites[0]}")
            records["create"].append(v)
            return v
        if nm == "process.evaluate" and len(n.args) == 1:
            a = ev.expr(env, n.args[0])
            records["evaluate"].append((a, n))
            return Poly.atom(("app", "evaluate", (a,)))
        if nm == "RNG.integers" and len(n.args) == 1:
            sites[0] += 1
            return Poly.atom(("app", "randint", (
                ev.num(env, n.args[0]), Poly.const(sites[0]))))
        if nm == "RNG.shuffle" and len(n.args) == 1:
            records["shuffle"].append(ev.expr(env, n.args[0]))
            return Poly.const(0)
        if nm == "process.register" and len(n.args) == 2:
            records["register"].append(
                (ev.expr(env, n.args[0]), ev.expr(env, n.args[1]), n))
            return Poly.const(0)
        if nm == "np.zeros" and n.args:
            sites[0] += 1
            size = ev.num(env, n.args[0])
            v = Poly.var(f"H{sites[0]}")
            records["zeros"].append((v, size))
            return v
        if isinstance(n.func, ast.Name) and repo.resolve(
                sv.module, n.func.id) is k:
            sites[0] += 1
            args = [ev.expr(env, a) for a in n.args]
            res = Poly.atom(("app", "kernel", (Poly.const(sites[0]),)))
            records["kernel"].append((args, res, n, env.copy(), gw._path))
            return res
        return NotImplemented

    ev = make_evaluator(repo, sv, extra_call=hook)
    ev.int_transparent = True
    env = Env()
    env.vars["self"] = Poly.var("self")
    env.vars["process"] = Poly.var("process")
    gw = GuardWalk(ev)
    gw.walk(env, func_body(sv))
    ctx.need(len(records["kernel"]) == 1,
             f"{sv.qualname}: exactly one call of {k.name}")
    args, res, call, cenv, kpath = records["kernel"][0]
    binding = dict(zip(k.params, args))
    ncity = Poly.var("self.instance.n_cities")
    two = Poly.const(2)
    # ---- wiring of n / dist / x / y
    ok_n = binding.get("n_cities") == ncity
    ok_d = binding.get("dist") == Poly.var("self.instance")
    xarr = binding.get("x")
    ok_x = xarr in records["create"]
    ctx.ob("D6.5", sv, call, bool(ok_n and ok_d and ok_x),
           f"kernel receives n_cities={show(binding.get('n_cities'))}, "
           f"dist={show(binding.get('dist'))}, x={show(xarr)}",
           construct="kernel wiring (n, instance, x)")
    # ---- register gets (same x, kernel result)
    regs = records["register"]
    ok_r = len(regs) == 1 and regs[0][0] == xarr and regs[0][1] == res
    ctx.ob("D6.5", sv, regs[0][2] if regs else sv.node, bool(ok_r),
           "register(x, y) receives the mutated array and the kernel's "
           "return value of the same iteration" if ok_r else
           f"register receives {[show(v) for v in regs[0][:2]] if regs else None}"
           f" but the kernel result is {show(res)} for array {show(xarr)}",
           construct="register wiring")
    # ---- y fed to the kernel is the initial evaluate(x) or the previous
    # kernel result (loop-carried): both are assignments to the same name
    yarg = call.args[k.params.index("y")]
    ok_y = False
    if isinstance(yarg, ast.Name):
        defs = []
        for s in ast.walk(sv.node):
            if isinstance(s, (ast.Assign, ast.AnnAssign)):
                tg = s.targets if isinstance(s, ast.Assign) else [s.target]
                if any(isinstance(t, ast.Name) and t.id == yarg.id
                       for t in tg):
                    defs.append(s)
        vals = []
        for s in defs:
            calls = [c for c in ast.walk(s.value) if isinstance(c, ast.Call)]
            vals.append(any(c is call for c in calls) or any(
                isinstance(c.func, ast.Attribute)
                and c.func.attr == "evaluate" for c in calls))
        ok_y = len(defs) == 2 and all(vals)
    ev_ok = len(records["evaluate"]) == 1 and \
        records["evaluate"][0][0] == xarr
    ctx.ob("D6.5", sv, call, bool(ok_y and ev_ok),
           "y is only ever assigned process.evaluate(x) (initially) and the "
           "kernel's result" if ok_y and ev_ok else
           "y has another definition, or the initial evaluation is of a "
           "different array", construct="y provenance")
    # ---- x initialised to a shuffled range(n)
    init_ok = False
    for s in func_body(sv):
        if isinstance(s, ast.Assign) and isinstance(
                s.targets[0], ast.Subscript) and isinstance(
                s.value, ast.Call) and isinstance(
                s.value.func, ast.Name) and s.value.func.id == "range" \
                and len(s.value.args) == 1:
            try:
                init_ok = ev.num(cenv, s.value.args[0]) == ncity
            except Unsupported:
                init_ok = False
    ctx.ob("D6.5", sv, sv.node, bool(init_ok and xarr in records["shuffle"]),
           "x[:] = range(n_cities) then shuffled by the process's generator"
           if init_ok and xarr in records["shuffle"] else
           "initial tour is not a shuffled range(n_cities)",
           construct="initial permutation")
    # ---- index ranges: all weak orderings of the two draws
    iarg, jarg = binding["i"], binding["j"]
    draws = sorted({a for a in all_atoms(iarg) | all_atoms(jarg)
                    if a[0] == "app" and a[1] == "randint"}, key=repr)
    ok_draws = len(draws) == 2 and all(
        a[2][0] == ncity - Poly.const(1) for a in draws)
    ctx.ob("D6.5", sv, call, ok_draws,
           f"indices come from {len(draws)} draws integers(n_cities - 1), "
           "i.e. from [0, n-2]" if ok_draws else
           f"index draws are {[show(Poly.atom(a)) for a in draws]}",
           construct="index draws")
    if not ok_draws:
        return
    r1, r2 = (Poly.atom(a) for a in draws)
    zero, nm2 = Poly.const(0), ncity - two
    terms = [r1, r2, zero, nm2]
    bad = None
    n_models = 0
    n_pass = 0
    try:
        for m in ordenum.enumerate_models(terms):
            if not (m.rank(zero) <= m.rank(r1) <= m.rank(nm2)
                    and m.rank(zero) <= m.rank(r2) <= m.rank(nm2)):
                continue
            n_models += 1
            # the call is reached iff no earlier `continue` was taken and
            # every enclosing `if` holds
            if not m.cond(kpath):
                continue
            n_pass += 1
            ri_, rj_ = m.rank(iarg), m.rank(jarg)
            good = m.rank(zero) <= ri_ < rj_ <= m.rank(nm2) and not (
                ri_ == m.rank(zero) and rj_ == m.rank(nm2))
            if not good and bad is None:
                bad = m.describe(["draw1", "draw2", "0", "n-2"])
    except Unsupported as u:
        bad = f"conditions not order-abstract: {u}"
    ctx.count("orderings_enumerated", n_models)
    ctx.ob("D6.5", sv, call, bad is None and n_pass > 0,
           f"{n_models} weak orderings of the two draws against 0 and n-2; "
           f"{n_pass} reach the kernel, all with 0 <= i < j <= n-2 and "
           "(i, j) != (0, n-2)" if bad is None else
           f"the kernel can be reached with an index pair violating "
           f"0 <= i < j <= n-2, (i,j) != (0,n-2): {bad}",
           construct="move index contract",
           witness=None if bad is None else {"ordering": bad})
    if fea:
        harg = binding.get("h")
        sizes = [sz for v, sz in records["zeros"] if v == harg]
        ub = Poly.var("self.instance.tour_length_upper_bound")
        ok_h = len(sizes) == 1 and sizes[0] == ub + Poly.const(1)
        ctx.ob("D6.5", sv, call, ok_h,
               f"h has {show(sizes[0]) if sizes else '?'} cells; needs "
               "tour_length_upper_bound + 1 so that every true length "
               "0..UB is a valid index", construct="h table size")
