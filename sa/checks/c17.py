"""C17 - generated instances keep the template's size and bin need."""
from __future__ import annotations

import ast
from typing import Any

from sa.kern import make_evaluator
from sa.report import Ctx
from sa.srcmodel import ClassInfo, FuncInfo, func_body
from sa.symterm import (Env, Evaluator, Poly, Unsupported, all_atoms, show)

DEC = "moptipyapps.binpacking2d.instgen.inst_decoding"
PKG = "moptipyapps.binpacking2d.instgen"
SIZE_MUTATORS = {"append", "extend", "insert", "pop", "remove", "clear"}


def _chain(root_body: list[ast.stmt], target: ast.AST) \
        -> list[tuple[list[ast.stmt], int]] | None:
    """Blocks from `root_body` down to the block holding `target`."""
    for i, s in enumerate(root_body):
        if s is target:
            return [(root_body, i)]
        for fld in ("body", "orelse", "finalbody"):
            sub = getattr(s, fld, None)
            if isinstance(sub, list) and sub and isinstance(
                    sub[0], ast.stmt):
                r = _chain(sub, target)
                if r is not None:
                    return [(root_body, i)] + r
    return None


class BlockEval:
    """Evaluates the straight-line context leading to a block."""

    def __init__(self, ctx: Ctx, fi: FuncInfo, shallow: bool = False) -> None:
        #: shallow: scalar temporaries stay named symbols (readable reports)
        self.shallow = shallow
        self.copies: dict[str, str] = {}
        self.n = 0
        self.ev = make_evaluator(ctx.repo, fi, extra_call=self._calls)
        self.ev.int_transparent = True
        self.appends: list[tuple[str, Any]] = []

    def _calls(self, ev: Evaluator, env: Env, n: ast.Call) -> Any:
        f = n.func
        if isinstance(f, ast.Attribute) and f.attr == "copy" and \
                not n.args and isinstance(f.value, ast.Name):
            src = ev._arr(env, f.value)
            self.n += 1
            new = f"copy#{self.n}"
            self.copies[new] = src
            for (arr, idx), v in list(env.stores.items()):
                if arr == src:
                    env.stores[(new, idx)] = v
            return Poly.var(new)
        if isinstance(f, ast.Attribute) and f.attr == "append" and \
                len(n.args) == 1 and isinstance(f.value, ast.Name):
            self.appends.append((f.value.id, ev.expr(env, n.args[0])))
            return Poly.const(0)
        if isinstance(f, ast.Attribute) and f.attr == "__len__":
            return Poly.var("len#" + ast.unparse(n.args[0])) if n.args \
                else NotImplemented
        return NotImplemented

    def run(self, env: Env, stmts: list[ast.stmt],
            block: bool = False) -> Env:
        for s in stmts:
            if self.shallow and not block and isinstance(s, (ast.Assign, ast.AnnAssign)) \
                    and s.value is not None and not isinstance(
                    s.value, (ast.Subscript, ast.Name, ast.Attribute,
                              ast.Constant)):
                tg = s.targets[0] if isinstance(s, ast.Assign) else s.target
                is_copy = isinstance(s.value, ast.Call) and isinstance(
                    s.value.func, ast.Attribute) and \
                    s.value.func.attr == "copy"
                if isinstance(tg, ast.Name) and not is_copy:
                    env.vars[tg.id] = Poly.var(tg.id)
                    continue
            if isinstance(s, (ast.Assign, ast.AnnAssign, ast.AugAssign,
                              ast.Expr)):
                try:
                    env = self.ev.stmt(env, s)
                except Unsupported:
                    for n in ast.walk(s):
                        if isinstance(n, ast.Name) and isinstance(
                                n.ctx, ast.Store):
                            self.n += 1
                            env.vars[n.id] = Poly.var(f"{n.id}#{self.n}")
        return env

    def val(self, env: Env, arr: str, idx: Poly) -> Poly:
        k = (arr, (idx,))
        if k in env.stores:
            return env.stores[k]
        if arr in self.copies:
            return self.val(env, self.copies[arr], idx)
        return Poly.atom(("cell", arr, (idx,)))


def _item_stores(fi: FuncInfo, body: list[ast.stmt], items: str) \
        -> list[ast.Assign]:
    """Subscript stores into a name that aliases an element of `items`."""
    alias: set[str] = set()
    for n in ast.walk(ast.Module(body=body, type_ignores=[])):
        if isinstance(n, (ast.Assign, ast.AnnAssign)) and n.value is not None:
            v = n.value
            tg = n.targets[0] if isinstance(n, ast.Assign) else n.target
            if isinstance(tg, ast.Name) and isinstance(
                    v, ast.Subscript) and isinstance(
                    v.value, ast.Name) and v.value.id == items:
                alias.add(tg.id)
    out = []
    for n in ast.walk(ast.Module(body=body, type_ignores=[])):
        if isinstance(n, (ast.Assign, ast.AugAssign)):
            tgs = n.targets if isinstance(n, ast.Assign) else [n.target]
            for t in tgs:
                if isinstance(t, ast.Subscript) and isinstance(
                        t.value, ast.Name) and t.value.id in alias:
                    out.append(n)
                elif isinstance(t, ast.Subscript) and isinstance(
                        t.value, ast.Subscript) and isinstance(
                        t.value.value, ast.Name) and \
                        t.value.value.id == items:
                    out.append(n)
    del fi
    return out


def run(ctx: Ctx) -> None:
    repo = ctx.repo
    ctx.explanation = (
        "D17.1 area ledger of InstanceDecoder.decode: in phase 1 every cut "
        "block is evaluated symbolically - the two pieces' areas add up to "
        "the cut item's area (polynomial identity) and exactly one item is "
        "appended per iteration; in phase 2 every store that shrinks an "
        "item must be accompanied, on the same path, by an update of the "
        "scalar `current_area` (which the loop guard and the cut limit "
        "read) by exactly the area removed, the cut limit must divide the "
        "remaining slack by the item's *other* dimension, and the item list "
        "must not change size. D17.2 the Instance is built from the space's "
        "name and bin dimensions; min_area = (min_bins-1)*bin_area+1. "
        "D17.3 the only random generator is seeded from the bytes of x and "
        "decode writes no field. D17.4 the instgen objectives clamp their "
        "result into [0,1]. Not decided: lower_bound_bins == min_bins as a "
        "value, Errors == 0 on the template.")
    for rid, txt in (("D17.1", "area ledger / conservation / one append"),
                     ("D17.2", "dataflow into Instance(...) and min_area"),
                     ("D17.3", "determinism: seed derives from x only"),
                     ("D17.4", "objectives clamp to [0,1]")):
        ctx.rule(rid, txt)
    fi = repo.func(DEC, "InstanceDecoder.decode")
    body = func_body(fi)
    xname = fi.params[1]
    # the item list: the name passed to Instance(...)
    inst_cls = repo.resolve(fi.module, "Instance")
    ctx.need(isinstance(inst_cls, ClassInfo), "Instance class")
    call = None
    for n in ast.walk(fi.node):
        if isinstance(n, ast.Call) and repo.resolve_expr(
                fi.module, n.func) is inst_cls:
            call = n
    ctx.need(call is not None and len(call.args) == 4 and isinstance(
        call.args[3], ast.Name), "decode: Instance(name, w, h, items)")
    items = call.args[3].id
    # phases
    phase1 = next((s for s in body if isinstance(s, ast.For) and any(
        isinstance(c, ast.Call) and isinstance(c.func, ast.Attribute)
        and c.func.attr == "append" and isinstance(c.func.value, ast.Name)
        and c.func.value.id == items for c in ast.walk(s))), None)
    phase2 = next((s for s in body if isinstance(s, ast.While) and any(
        isinstance(n, ast.Name) and n.id == "current_area"
        for n in ast.walk(s.test))), None)
    ctx.need(phase1 is not None, "decode: phase-1 splitting loop")
    ctx.need(phase2 is not None, "decode: phase-2 slack loop guarded by "
             "current_area")
    _phase1(ctx, fi, phase1, items)
    _phase2(ctx, fi, phase2, items, body)
    _dataflow(ctx, fi, body, call, phase1, phase2)
    _determinism(ctx, fi, xname)
    _clamps(ctx)
    ctx.assumptions += [
        "items are [width, height] lists; cut_dimension is 0 or 1",
        "Instance(...) validates what it is given (C03/C19 cover its "
        "bounds)",
    ]


def _top_env(be: BlockEval, body: list[ast.stmt], upto: ast.stmt) -> Env:
    env = Env()
    env.vars["self"] = Poly.var("self")
    for s in body:
        if s is upto:
            break
        if isinstance(s, (ast.Assign, ast.AnnAssign, ast.AugAssign)):
            env = be.run(env, [s])
    return env


def _phase1(ctx: Ctx, fi: FuncInfo, loop: ast.For, items: str) -> None:
    stores = _item_stores(fi, loop.body, items)
    ctx.floor("phase1_item_stores", len(stores), 2)
    # blocks that append
    blocks: list[list[ast.stmt]] = []
    for st in stores:
        ch = _chain(loop.body, st)
        blk = ch[-1][0]
        if blk not in blocks:
            blocks.append(blk)
    for blk in blocks:
        be = BlockEval(ctx, fi, shallow=True)
        ch = _chain(loop.body, blk[0])
        env = Env()
        for b, i in ch[:-1]:
            env = be.run(env, b[:i])
        env = be.run(env, blk, block=True)
        # items touched: every array with a store
        touched = sorted({arr for (arr, idx) in env.stores
                          if idx not in (("fill",), ("summary",))})
        idxs = sorted({idx[0] for (arr, idx) in env.stores
                       if len(idx) == 1}, key=repr)
        ok = False
        detail = "cannot evaluate the cut"
        if len(idxs) == 1 and touched:
            d = idxs[0]
            o = Poly.const(1) - d
            root = [a for a in touched if a not in be.copies]
            if len(root) == 1:
                X = root[0]
                before = Poly.atom(("cell", X, (d,))) * Poly.atom(
                    ("cell", X, (o,)))
                appended = [v for nm, v in be.appends if nm == items]
                after = be.val(env, X, d) * be.val(env, X, o)
                for v in appended:
                    at = v.as_atom() if isinstance(v, Poly) else None
                    if at is not None and at[0] == "var":
                        after = after + be.val(env, at[1], d) * be.val(
                            env, at[1], o)
                ok = after == before and len(appended) == 1 and isinstance(
                    blk[-1], ast.Break)
                detail = (f"area before cut = {show(before)}; after = "
                          f"{show(after)}; {len(appended)} append(s); block "
                          f"ends with {type(blk[-1]).__name__}")
        ctx.ob("D17.1", fi, blk[0], ok, "phase 1: " + detail,
               construct="phase-1 cut conserves area, one append")
    # the only way out of the inner loops is the break after the append
    inner = [n for n in loop.body if isinstance(n, ast.While)]
    ok = len(inner) == 1 and isinstance(
        inner[0].test, ast.Constant) and inner[0].test.value is True
    n_app = sum(1 for c in ast.walk(loop) if isinstance(c, ast.Call)
                and isinstance(c.func, ast.Attribute)
                and c.func.attr in SIZE_MUTATORS
                and isinstance(c.func.value, ast.Name)
                and c.func.value.id == items)
    n_del = sum(1 for d in ast.walk(loop) if isinstance(d, ast.Delete))
    brks = [b for b in ast.walk(loop) if isinstance(b, ast.Break)]
    ok = ok and n_app == 1 and n_del == 0 and len(brks) == 1 and any(
        b is blk[-1] for blk in blocks for b in brks)
    ctx.ob("D17.1", fi, loop, ok,
           f"phase 1: one `while True` per split, {n_app} size-changing "
           f"call(s) on `{items}`, {len(brks)} break(s) - every iteration "
           "appends exactly one item" if ok else
           "phase 1: an iteration can leave the inner loop without exactly "
           "one append", construct="exactly one append per split")
    # range(n_bins, n_items)
    it = loop.iter
    ok = isinstance(it, ast.Call) and isinstance(it.func, ast.Name) and \
        it.func.id == "range" and len(it.args) == 2 and \
        ast.unparse(it.args[1]) == "self.space.n_items"
    lo_ok = False
    if ok:
        lo = it.args[0]
        for s in func_body(fi):
            if isinstance(s, (ast.Assign, ast.AnnAssign)):
                tg = s.targets[0] if isinstance(s, ast.Assign) else s.target
                if isinstance(tg, ast.Name) and isinstance(
                        lo, ast.Name) and tg.id == lo.id and \
                        s.value is not None and \
                        ast.unparse(s.value) == "self.space.min_bins":
                    lo_ok = True
    ctx.ob("D17.2", fi, loop, bool(ok and lo_ok),
           f"phase 1 performs range({ast.unparse(it.args[0]) if ok else '?'}"
           ", self.space.n_items) splits starting from min_bins bin-sized "
           "items: n_items items result",
           construct="number of splits")


def _phase2(ctx: Ctx, fi: FuncInfo, loop: ast.While, items: str,
            body: list[ast.stmt]) -> None:
    stores = _item_stores(fi, loop.body, items)
    if not stores:
        ctx.ob("D17.1", fi, loop, True, "phase 2 never changes an item",
               construct="phase-2 ledger", nontrivial=False)
    recompute = None
    for s in loop.body:
        if isinstance(s, ast.Assign) and any(
                isinstance(t, ast.Name) and t.id == "current_area"
                for t in s.targets):
            v = s.value
            if isinstance(v, ast.Call) and isinstance(
                    v.func, ast.Name) and v.func.id == "sum" and any(
                    isinstance(n, ast.Name) and n.id == items
                    for n in ast.walk(v)):
                recompute = s
    for st in stores:
        ch = _chain(loop.body, st)
        blk = ch[-1][0]
        be = BlockEval(ctx, fi, shallow=True)
        env = Env()
        area0 = Poly.var("current_area")
        env.vars["current_area"] = area0
        for b, i in ch[:-1]:
            env = be.run(env, b[:i])
        before_env = env.copy()
        env = be.run(env, blk, block=True)
        # full (deep) evaluation of the same context for the cut limit
        bef = BlockEval(ctx, fi)
        envf = Env()
        envf.vars["current_area"] = area0
        for b, i in ch[:-1]:
            envf = bef.run(envf, b[:i])
        envf_before = envf.copy()
        envf = bef.run(envf, blk)
        touched = sorted({(arr, idx[0]) for (arr, idx) in env.stores
                          if len(idx) == 1 and
                          (arr, idx) not in before_env.stores}, key=repr)
        ok = False
        detail = "cannot evaluate the shrinking store"
        if len(touched) == 1:
            X, d = touched[0]
            o = Poly.const(1) - d
            old = Poly.atom(("cell", X, (d,))) * Poly.atom(
                ("cell", X, (o,)))
            new = be.val(env, X, d) * be.val(env, X, o)
            delta_items = new - old
            cur = env.vars.get("current_area")
            delta_ledger = (cur - area0) if isinstance(cur, Poly) else None
            if recompute is not None and delta_ledger == Poly():
                ok = True
                detail = ("ledger is recomputed from the item list in the "
                          "loop body")
            else:
                ok = delta_ledger is not None and delta_ledger == delta_items
                detail = (f"items' area changes by {show(delta_items)}; "
                          "`current_area` changes by "
                          f"{show(delta_ledger) if delta_ledger is not None else '?'}"
                          " on the same path" + (
                              "" if ok else " - the guard `current_area > "
                              "min_area` and the cut limit keep using a "
                              "stale area, so more area than the slack can "
                              "be removed"))
        ctx.ob("D17.1", fi, st, ok, "phase 2: " + detail,
               construct="phase-2 ledger update",
               witness=None if ok else {
                   "store": ast.unparse(st),
                   "ledger_variable": "current_area"})
        # the slack budget: removed area = cut_position * other must leave
        # more than (min_bins - 1) * bin_area
        lim = envf.vars.get("cut_modulus")
        cp = envf.vars.get("cut_position")
        touched_f = sorted({(arr, idx[0]) for (arr, idx) in envf.stores
                            if len(idx) == 1 and
                            (arr, idx) not in envf_before.stores}, key=repr)
        ok_l = False
        detail_l = "cut limit not recognised"
        if len(touched_f) == 1 and isinstance(lim, Poly) and isinstance(
                cp, Poly):
            X, d = touched_f[0]
            other = Poly.atom(("cell", X, (Poly.const(1) - d,)))
            d1, c2 = _budget_margin(lim, other, area0)
            top_env = _top_env(BlockEval(ctx, fi), body, loop)
            mn = top_env.vars.get("min_area")
            sp = "self.space."
            floor_area = (Poly.var(sp + "min_bins") - Poly.const(1)) * \
                Poly.var(sp + "bin_width") * Poly.var(sp + "bin_height")
            d2 = (mn - floor_area).const_value() if isinstance(
                mn, Poly) else None
            # cut_position in [1, cut_modulus]
            a_cp = (cp - Poly.const(1)).as_atom()
            cp_ok = a_cp is not None and a_cp[0] == "app" and \
                a_cp[1] == "mod" and a_cp[2][1] == lim
            if d1 is None or d2 is None or c2 is None:
                detail_l = ("cannot write the cut limit as min(.., (current_"
                            "area - min_area [+c]) // other_dimension - a, "
                            "..) - b with min_area = (min_bins-1)*bin_area "
                            f"+ c': limit = {show(lim)[:140]}, min_area = "
                            f"{show(mn) if isinstance(mn, Poly) else mn}")
            else:
                d2e = d2 - c2
                ok_l = cp_ok and d1 >= 0 and d2e >= 0 and d1 + d2e >= 1
                detail_l = (
                    f"cut_position <= cut_modulus <= slack // other - {d1} "
                    f"with slack = current_area - (min_bins-1)*bin_area - "
                    f"{d2e}: the removed area cut_position*other is at most "
                    f"current_area - (min_bins-1)*bin_area - {d2e} - "
                    f"{d1}*other; at least one unit must remain "
                    f"(margins {d1} + {d2e} >= 1: "
                    f"{'yes' if d1 + d2e >= 1 else 'NO - the area can drop to exactly (min_bins-1) bins'})"
                    + ("" if cp_ok else "; cut_position is not "
                       "`(.. % cut_modulus) + 1`"))
        ctx.ob("D17.1", fi, st, ok_l, "phase 2: " + detail_l,
               construct="phase-2 slack budget")
    n_mut = sum(1 for c in ast.walk(loop) if isinstance(c, ast.Call)
                and isinstance(c.func, ast.Attribute)
                and c.func.attr in SIZE_MUTATORS
                and isinstance(c.func.value, ast.Name)
                and c.func.value.id == items) + sum(
        1 for d in ast.walk(loop) if isinstance(d, ast.Delete))
    ctx.ob("D17.1", fi, loop, n_mut == 0,
           "phase 2 does not change the number of items" if n_mut == 0
           else "phase 2 adds or removes items",
           construct="phase-2 item count", nontrivial=False)
    # guard reads the ledger and stops at min_area
    g = ast.unparse(loop.test).replace(" ", "")
    ok_g = any(isinstance(c, ast.Compare) and isinstance(
        c.left, ast.Name) and c.left.id == "current_area" and isinstance(
        c.ops[0], ast.Gt) and isinstance(c.comparators[0], ast.Name)
        and c.comparators[0].id == "min_area"
        for c in ast.walk(loop.test)) or any(
        isinstance(c, ast.Compare) and isinstance(c.left, ast.Name)
        and c.left.id == "min_area" and isinstance(c.ops[0], ast.Lt)
        and isinstance(c.comparators[0], ast.Name)
        and c.comparators[0].id == "current_area"
        for c in ast.walk(loop.test))
    del g
    ctx.ob("D17.1", fi, loop.test, ok_g,
           "phase 2 continues only while current_area > min_area",
           construct="phase-2 guard", nontrivial=False)


def _budget_margin(lim: Poly, other: Poly, area0: Poly) \
        -> tuple[Any, Any]:
    """lim = min(.., floordiv(area0 - min_area + c2, other) + c1, ..) + c0
    -> (-(c0 + c1), c2); (None, None) if not of that shape."""
    from fractions import Fraction
    c0 = lim.terms.get((), Fraction(0))
    rest = lim - Poly.const(c0)
    a = rest.as_atom()
    if a is None or a[0] != "app":
        return None, None
    args = list(a[2]) if a[1] == "min" else [rest] \
        if a[1] == "floordiv" else []
    for arg in args:
        c1 = arg.terms.get((), Fraction(0))
        fa = (arg - Poly.const(c1)).as_atom()
        if fa is not None and fa[0] == "app" and fa[1] == "floordiv":
            num, den = fa[2]
            if den != other:
                return None, None
            c2p = num - area0 + Poly.var("min_area")
            c2 = c2p.const_value()
            if c2 is None:
                return None, None
            return -(c0 + c1), c2
    return None, None


def _dataflow(ctx: Ctx, fi: FuncInfo, body: list[ast.stmt], call: ast.Call,
              phase1: ast.For, phase2: ast.While) -> None:
    be = BlockEval(ctx, fi)
    env = _top_env(be, body, phase2)
    sp = "self.space."
    bw, bh = Poly.var(sp + "bin_width"), Poly.var(sp + "bin_height")
    nb = Poly.var(sp + "min_bins")
    mn = env.vars.get("min_area")
    want = (nb - Poly.const(1)) * bw * bh
    off = (mn - want).const_value() if isinstance(mn, Poly) else None
    ctx.ob("D17.2", fi, phase2, off is not None and off >= 0,
           f"min_area = {show(mn) if isinstance(mn, Poly) else mn}; must be "
           "(min_bins - 1) * bin_area + c with c >= 0 (the margin itself is "
           "judged together with the cut limit)", construct="min_area")
    ca = env.vars.get("current_area")
    ctx.ob("D17.2", fi, phase2, isinstance(ca, Poly) and ca == nb * bw * bh,
           f"current_area starts as {show(ca) if isinstance(ca, Poly) else ca}"
           "; phase 1 conserves min_bins * bin_area",
           construct="initial ledger")
    try:
        args = [be.ev.expr(env, a) for a in call.args[:3]]
    except Unsupported:
        args = []
    ok = args == [Poly.var(sp + "inst_name"), bw, bh]
    ctx.ob("D17.2", fi, call, ok,
           "Instance(...) receives "
           f"{[show(a) for a in args]}; must be the space's name and bin "
           "dimensions", construct="Instance arguments")
    # initial items are bin sized
    ok_i = False
    for s in body:
        if isinstance(s, (ast.Assign, ast.AnnAssign)) and isinstance(
                s.value, ast.ListComp):
            lc = s.value
            if isinstance(lc.elt, ast.List) and len(lc.elt.elts) == 2:
                try:
                    e0 = be.ev.expr(env, lc.elt.elts[0])
                    e1 = be.ev.expr(env, lc.elt.elts[1])
                except Unsupported:
                    continue
                g = lc.generators[0]
                rng = isinstance(g.iter, ast.Call) and isinstance(
                    g.iter.func, ast.Name) and g.iter.func.id == "range" \
                    and len(g.iter.args) == 1
                if rng:
                    cnt = be.ev.expr(env, g.iter.args[0])
                    ok_i = (e0, e1, cnt) == (bw, bh, nb)
    ctx.ob("D17.2", fi, phase1, ok_i,
           "the item list starts as min_bins items of size bin_width x "
           "bin_height", construct="initial items")


def _determinism(ctx: Ctx, fi: FuncInfo, xname: str) -> None:
    gens = []
    for n in ast.walk(fi.node):
        if isinstance(n, ast.Call):
            src = ast.unparse(n.func)
            if src.split(".")[-1] in ("default_rng", "RandomState",
                                      "Random", "seed", "SeedSequence"):
                gens.append(n)
    ctx.floor("decode_generators", len(gens), 1)
    for g in gens:
        names = {n.id for a in list(g.args) + [k.value for k in g.keywords]
                 for n in ast.walk(a) if isinstance(n, ast.Name)}
        ok = bool(g.args or g.keywords) and names <= {xname, "int"} and \
            xname in names
        ctx.ob("D17.3", fi, g, ok,
               f"generator seeded from {sorted(names)}; must derive from "
               f"`{xname}` only", construct="generator seed provenance")
    bad = []
    for n in ast.walk(fi.node):
        if isinstance(n, (ast.Assign, ast.AugAssign, ast.AnnAssign)):
            for t in (n.targets if isinstance(n, ast.Assign)
                      else [n.target]):
                if isinstance(t, ast.Attribute) and ast.unparse(
                        t).startswith("self"):
                    bad.append(n)
        if isinstance(n, (ast.Global, ast.Nonlocal)):
            bad.append(n)
        if isinstance(n, ast.Call):
            src = ast.unparse(n.func)
            if src.startswith(("random.", "np.random.", "time.",
                               "os.urandom", "uuid.")) or src in (
                    "time", "perf_counter", "hash", "id"):
                bad.append(n)
    ctx.ob("D17.3", fi, bad[0] if bad else fi.node, not bad,
           "decode writes no field/global and uses no other source of "
           "nondeterminism" if not bad else
           f"`{ast.unparse(bad[0])[:60]}` makes decode stateful or "
           "nondeterministic", construct="decode stateless")


def _clamps(ctx: Ctx) -> None:
    repo = ctx.repo
    for modn, cls in (("errors", "Errors"), ("hardness", "Hardness"),
                      ("errors_and_hardness", "ErrorsAndHardness")):
        fi = repo.func(f"{PKG}.{modn}", f"{cls}.evaluate")
        rets = [r for r in ast.walk(fi.node) if isinstance(r, ast.Return)]
        ok = bool(rets)
        for r in rets:
            ok = ok and _is_unit_clamp(repo, fi, r.value)
        ctx.ob("D17.4", fi, rets[0] if rets else fi.node, ok,
               f"{cls}.evaluate returns max(0, min(1, .)) on every path"
               if ok else f"{cls}.evaluate can return an unclamped value",
               construct=f"{cls} clamp")
        for meth, want in (("lower_bound", 0.0), ("upper_bound", 1.0)):
            m = repo.func(f"{PKG}.{modn}", f"{cls}.{meth}")
            rs = [r for r in ast.walk(m.node) if isinstance(r, ast.Return)]
            okb = len(rs) == 1 and repo.const(m.module, rs[0].value) == want
            ctx.ob("D17.4", m, m.node, okb, f"{cls}.{meth}() == {want}",
                   construct=f"{cls}.{meth}", nontrivial=False)


def _is_unit_clamp(repo: Any, fi: FuncInfo, e: ast.expr | None) -> bool:
    if not (isinstance(e, ast.Call) and isinstance(e.func, ast.Name)
            and e.func.id in ("max", "min") and len(e.args) == 2):
        return False
    outer = e.func.id
    consts = [repo.const(fi.module, a) for a in e.args]
    inner = [a for a, c in zip(e.args, consts) if c is None]
    cv = [c for c in consts if c is not None]
    if len(inner) != 1 or len(cv) != 1:
        return False
    i = inner[0]
    if not (isinstance(i, ast.Call) and isinstance(i.func, ast.Name)
            and i.func.id in ("max", "min") and i.func.id != outer
            and len(i.args) == 2):
        return False
    c2 = [repo.const(fi.module, a) for a in i.args]
    cv2 = [c for c in c2 if c is not None]
    if len(cv2) != 1:
        return False
    lo, hi = (cv[0], cv2[0]) if outer == "max" else (cv2[0], cv[0])
    return lo == 0 and hi == 1
