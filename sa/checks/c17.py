"""C17 - generated instances keep the template's size and bin need."""
from __future__ import annotations

import ast
from typing import Any

from sa.kern import make_evaluator
from sa.report import Ctx
from sa.srcmodel import ClassInfo, FuncInfo, func_body, inline_locals
from sa.symterm import (Env, Evaluator, Poly, Unsupported, show)

DEC = "moptipyapps.binpacking2d.instgen.inst_decoding"
PKG = "moptipyapps.binpacking2d.instgen"
SIZE_MUTATORS = {"append", "extend", "insert", "pop", "remove", "clear"}


def _chain(root_body: list[ast.stmt], target: ast.AST) \
        -> list[tuple[list[ast.stmt], int]] | None:
    """Blocks from `root_body` down to the block holding `target`."""
    for i, s in enumerate(root_body):
        if s is target:
            return [(root_body, i)]
        for fld in ("body", "orelse", "finalbody"):
            sub = getattr(s, fld, None)
            if isinstance(sub, list) and sub and isinstance(
                    sub[0], ast.stmt):
                r = _chain(sub, target)
                if r is not None:
                    return [(root_body, i)] + r
    return None


def _simple_arith(e: ast.expr) -> bool:
    """+, -, * over names and constants only (e.g. `1 - cut_dimension`): a
    temporary of this kind is evaluated, not kept as a named symbol."""
    if isinstance(e, (ast.Name, ast.Constant)):
        return True
    if isinstance(e, ast.UnaryOp) and isinstance(e.op, (ast.USub, ast.UAdd)):
        return _simple_arith(e.operand)
    if isinstance(e, ast.BinOp) and isinstance(
            e.op, (ast.Add, ast.Sub, ast.Mult)):
        return _simple_arith(e.left) and _simple_arith(e.right)
    return False


class BlockEval:
    """Evaluates the straight-line context leading to a block."""

    def __init__(self, ctx: Ctx, fi: FuncInfo, shallow: bool = False) -> None:
        #: shallow: scalar temporaries stay named symbols (readable reports)
        self.shallow = shallow
        self.copies: dict[str, str] = {}
        self.n = 0
        self.ev = make_evaluator(ctx.repo, fi, extra_call=self._calls)
        self.ev.int_transparent = True
        self.appends: list[tuple[str, Any]] = []

    def _calls(self, ev: Evaluator, env: Env, n: ast.Call) -> Any:
        f = n.func
        if isinstance(f, ast.Attribute) and f.attr == "copy" and \
                not n.args and isinstance(f.value, ast.Name):
            src = ev._arr(env, f.value)
            self.n += 1
            new = f"copy#{self.n}"
            self.copies[new] = src
            for (arr, idx), v in list(env.stores.items()):
                if arr == src:
                    env.stores[(new, idx)] = v
            return Poly.var(new)
        if isinstance(f, ast.Attribute) and f.attr == "append" and \
                len(n.args) == 1 and isinstance(f.value, ast.Name):
            self.appends.append((f.value.id, ev.expr(env, n.args[0])))
            return Poly.const(0)
        if isinstance(f, ast.Attribute) and f.attr == "__len__":
            return Poly.var("len#" + ast.unparse(n.args[0])) if n.args \
                else NotImplemented
        return NotImplemented

    def run(self, env: Env, stmts: list[ast.stmt],
            block: bool = False) -> Env:
        for s in stmts:
            if self.shallow and not block and isinstance(s, (ast.Assign, ast.AnnAssign)) \
                    and s.value is not None and not isinstance(
                    s.value, (ast.Subscript, ast.Name, ast.Attribute,
                              ast.Constant)):
                tg = s.targets[0] if isinstance(s, ast.Assign) else s.target
                is_copy = isinstance(s.value, ast.Call) and isinstance(
                    s.value.func, ast.Attribute) and \
                    s.value.func.attr == "copy"
                if isinstance(tg, ast.Name) and not is_copy and \
                        not _simple_arith(s.value):
                    env.vars[tg.id] = Poly.var(tg.id)
                    continue
            if isinstance(s, (ast.Assign, ast.AnnAssign, ast.AugAssign,
                              ast.Expr)):
                try:
                    env = self.ev.stmt(env, s)
                except Unsupported:
                    for n in ast.walk(s):
                        if isinstance(n, ast.Name) and isinstance(
                                n.ctx, ast.Store):
                            self.n += 1
                            env.vars[n.id] = Poly.var(f"{n.id}#{self.n}")
        return env

    def val(self, env: Env, arr: str, idx: Poly) -> Poly:
        k = (arr, (idx,))
        if k in env.stores:
            return env.stores[k]
        if arr in self.copies:
            return self.val(env, self.copies[arr], idx)
        return Poly.atom(("cell", arr, (idx,)))


def _item_stores(fi: FuncInfo, body: list[ast.stmt], items: str) \
        -> list[ast.Assign]:
    """Subscript stores into a name that aliases an element of `items`."""
    alias: set[str] = set()
    for n in ast.walk(ast.Module(body=body, type_ignores=[])):
        if isinstance(n, (ast.Assign, ast.AnnAssign)) and n.value is not None:
            v = n.value
            tg = n.targets[0] if isinstance(n, ast.Assign) else n.target
            if isinstance(tg, ast.Name) and isinstance(
                    v, ast.Subscript) and isinstance(
                    v.value, ast.Name) and v.value.id == items:
                alias.add(tg.id)
    # a copy of an element that is later appended is a piece as well
    for n in ast.walk(ast.Module(body=body, type_ignores=[])):
        if isinstance(n, (ast.Assign, ast.AnnAssign)) and n.value is not None:
            v = n.value
            tg = n.targets[0] if isinstance(n, ast.Assign) else n.target
            if isinstance(tg, ast.Name) and isinstance(
                    v, ast.Call) and isinstance(
                    v.func, ast.Attribute) and v.func.attr == "copy" and \
                    isinstance(v.func.value, ast.Name) and \
                    v.func.value.id in alias:
                alias.add(tg.id)
    out = []
    for n in ast.walk(ast.Module(body=body, type_ignores=[])):
        if isinstance(n, (ast.Assign, ast.AugAssign)):
            tgs = n.targets if isinstance(n, ast.Assign) else [n.target]
            for t in tgs:
                if isinstance(t, ast.Subscript) and isinstance(
                        t.value, ast.Name) and t.value.id in alias:
                    out.append(n)
                elif isinstance(t, ast.Subscript) and isinstance(
                        t.value, ast.Subscript) and isinstance(
                        t.value.value, ast.Name) and \
                        t.value.value.id == items:
                    out.append(n)
    del fi
    return out


def run(ctx: Ctx) -> None:
    repo = ctx.repo
    ctx.explanation = (
        "D17.1 area ledger of InstanceDecoder.decode: in phase 1 every cut "
        "block is evaluated symbolically - the two pieces' areas add up to "
        "the cut item's area (polynomial identity) and exactly one item is "
        "appended per iteration; in phase 2 every store that shrinks an "
        "item must be accompanied, on the same path, by an update of the "
        "scalar `current_area` (which the loop guard and the cut limit "
        "read) by exactly the area removed, the cut limit must divide the "
        "remaining slack by the item's *other* dimension, and the item list "
        "must not change size. D17.2 the Instance is built from the space's "
        "name and bin dimensions; min_area = (min_bins-1)*bin_area+1. "
        "D17.3 the only random generator is seeded from the bytes of x and "
        "decode writes no field. D17.4 the instgen objectives clamp their "
        "result into [0,1]. D17.5 every size written into an item is >= 1 "
        "under the guards of its cut (linear entailment). D17.6 the item "
        "list is only indexed with a value reduced modulo the current "
        "number of items. D17.7 equal items are merged into one row whose "
        "multiplicity is the length of their run (scan / append / delete "
        "protocol: the total number of items is preserved) and the "
        "instance, built from the merged list, reaches the receiver on "
        "every path. D17.8 the cutting dimension stays in {0, 1}, the "
        "search direction in {-1, +1}, the search steps to (sel_i + "
        "sel_dir) mod n, the bounded search advances when it wraps, and no "
        "modulus is taken by a possibly-zero cut_modulus. D17.9 every "
        "deviation term of the similarity objective compares a statistic "
        "of the instance with the same statistic of the template (as "
        "defined in InstanceSpace.__init__), folds start neutral, rows are "
        "penalised only outside the template's own range: the value is 0 "
        "on the template. Not decided: "
        "lower_bound_bins == min_bins as a value (needs the validity of "
        "the DAMV bound, C03), Errors == 0 on the template, termination of "
        "phase 1's search when no item can be cut at all.")
    for rid, txt in (("D17.1", "area ledger / conservation / one append"),
                     ("D17.2", "dataflow into Instance(...) and min_area"),
                     ("D17.3", "determinism: seed derives from x only"),
                     ("D17.4", "objectives clamp to [0,1]")):
        ctx.rule(rid, txt)
    for rid, txt in ():
        ctx.rule(rid, txt)
    fi = repo.func(DEC, "InstanceDecoder.decode")
    body = func_body(fi)
    xname = fi.params[1]
    # the item list: the name passed to Instance(...)
    inst_cls = repo.resolve(fi.module, "Instance")
    ctx.need(isinstance(inst_cls, ClassInfo), "Instance class")
    call = None
    for n in ast.walk(fi.node):
        if isinstance(n, ast.Call) and repo.resolve_expr(
                fi.module, n.func) is inst_cls:
            call = n
    ctx.need(call is not None, "decode: Instance(...) is created")
    # the item list: a local bound to a list display / comprehension
    lists = [s for s in body if isinstance(s, (ast.Assign, ast.AnnAssign))
             and isinstance(getattr(s, "value", None),
                            (ast.ListComp, ast.List))
             and isinstance(s.targets[0] if isinstance(s, ast.Assign)
                            else s.target, ast.Name)]
    list_names = {(s.targets[0] if isinstance(s, ast.Assign)
                   else s.target).id for s in lists}
    items_name = call.args[3].id if len(call.args) == 4 and isinstance(
        call.args[3], ast.Name) and call.args[3].id in list_names else None
    ok_call = len(call.args) == 4 and not call.keywords and isinstance(
        call.args[3], ast.Name) and call.args[3].id == items_name
    ctx.ob("D17.2", fi, call, ok_call,
           "the instance is created as Instance(name, width, height, items) "
           "from the decoded item list" if ok_call else
           f"`{ast.unparse(call)[:90]}` does not pass the decoded item list "
           "as the fourth argument", construct="Instance receives the items")
    if not ok_call:
        return
    items = call.args[3].id
    # phases
    # phase 1: the top-level `for` that searches (inner `while`) for an
    # item to split and appends the second piece (a plain loop that fills
    # the initial list has no search)
    phase1 = next((s for s in body if isinstance(s, ast.For) and any(
        isinstance(c, ast.Call) and isinstance(c.func, ast.Attribute)
        and c.func.attr == "append" and isinstance(c.func.value, ast.Name)
        and c.func.value.id == items for c in ast.walk(s)) and any(
        isinstance(w, ast.While) for w in ast.walk(s))), None)
    # phase 2: the first top-level `while` after phase 1; its test compares
    # the area ledger (assigned in the loop) with the floor (not assigned)
    phase2 = next((s for s in body if isinstance(s, ast.While)
                   and phase1 is not None
                   and body.index(s) > body.index(phase1)), None)
    LEDGER = FLOOR = None
    if phase2 is not None:
        st_ = {n.id for n in ast.walk(phase2) if isinstance(n, ast.Name)
               and isinstance(n.ctx, ast.Store)}

        def const_step(nm: str) -> bool:
            """Is every update of `nm` in the loop a step by a constant?"""
            for u in ast.walk(phase2):
                if isinstance(u, ast.AugAssign) and isinstance(
                        u.target, ast.Name) and u.target.id == nm:
                    if not isinstance(repo.const(fi.module, u.value),
                                      (int, float)):
                        return False
                elif isinstance(u, (ast.Assign, ast.AnnAssign)) and any(
                        isinstance(t, ast.Name) and t.id == nm for t in (
                            u.targets if isinstance(u, ast.Assign)
                            else [u.target])) and u.value is not None:
                    v = u.value
                    if not (isinstance(v, ast.BinOp) and isinstance(
                            v.op, (ast.Add, ast.Sub)) and any(
                            isinstance(repo.const(fi.module, z),
                                       (int, float))
                            for z in (v.left, v.right))):
                        return False
            return True
        pairs = []
        for c in ast.walk(phase2.test):
            if isinstance(c, ast.Compare) and len(c.ops) == 1 and isinstance(
                    c.left, ast.Name) and isinstance(
                    c.comparators[0], ast.Name):
                a_, b_ = c.left.id, c.comparators[0].id
                # the loop runs while ledger > floor, and the floor is
                # fixed (a rising counter `i < n` has its smaller side
                # changing)
                big = small = None
                if isinstance(c.ops[0], (ast.Gt, ast.GtE)):
                    big, small = a_, b_
                elif isinstance(c.ops[0], (ast.Lt, ast.LtE)):
                    big, small = b_, a_
                if big is not None and small not in st_:
                    pairs.append((big, small))
        if len(pairs) == 1:
            LEDGER, FLOOR = pairs[0]
    if phase1 is None:
        ctx.ob("D17.1", fi, fi.node, False,
               "no loop appends the second piece of a cut to the item list: "
               "the number of items never reaches the template's",
               construct="one append per cut")
        return
    ctx.need(phase2 is not None and LEDGER is not None,
             "decode: phase-2 slack loop guarded by `area > floor`")
    global _LEDGER, _FLOOR
    _LEDGER, _FLOOR = LEDGER, FLOOR
    _phase1(ctx, fi, phase1, items)
    _phase2(ctx, fi, phase2, items, body)
    _dataflow(ctx, fi, body, call, phase1, phase2)
    _determinism(ctx, fi, xname)
    ctx.rule("D17.5", "every piece written into an item has size >= 1")
    _positive_pieces(ctx, fi, items)
    ctx.rule("D17.6", "item selections stay inside the list")
    _selection(ctx, fi, items)
    ctx.rule("D17.7", "equal items are merged with their multiplicity; the "
             "instance is delivered")
    _merge_and_deliver(ctx, fi, items, call)
    ctx.rule("D17.8", "search protocol: domains of the cutting dimension "
             "and direction, full cyclic scan, safe moduli")
    _search_protocol(ctx, fi, items)
    ctx.rule("D17.9", "the similarity objective is 0 on the template")
    _zero_on_template(ctx)
    _clamps(ctx)
    ctx.rule("D17.10", "hardness is a function of the instance: the seeds "
             "of its runs come from the instance name on every path, the "
             "memo is re-used only for the same name, and nothing else "
             "computed from an evaluated instance is kept")
    from sa.checks.c12 import _memo
    _memo(ctx, "D17.10")
    ctx.rule("D17.11", "a parameter declared as Iterable is traversed once")
    _single_pass(ctx)
    ctx.rule("D17.12", "random decisions of decode() come from a generator "
             "that decode() itself creates")
    _local_generator(ctx)
    ctx.assumptions += [
        "items are [width, height] lists; cut_dimension is 0 or 1",
        "Instance(...) validates what it is given (C03/C19 cover its "
        "bounds)",
    ]


_LEDGER = "current_area"
_FLOOR = "min_area"


def _top_env(be: BlockEval, body: list[ast.stmt], upto: ast.stmt) -> Env:
    env = Env()
    env.vars["self"] = Poly.var("self")
    for s in body:
        if s is upto:
            break
        if isinstance(s, (ast.Assign, ast.AnnAssign, ast.AugAssign)):
            env = be.run(env, [s])
    return env


def _phase1(ctx: Ctx, fi: FuncInfo, loop: ast.For, items: str) -> None:
    stores = _item_stores(fi, loop.body, items)
    ctx.count("phase1_item_stores", len(stores))
    ctx.ob("D17.1", fi, loop, len(stores) >= 2,
           "phase 1 writes both pieces of a cut" if len(stores) >= 2 else
           f"phase 1 writes only {len(stores)} of the two pieces of a cut: "
           "area is created or lost", construct="both pieces written")
    # blocks that append
    blocks: list[list[ast.stmt]] = []
    for st in stores:
        ch = _chain(loop.body, st)
        blk = ch[-1][0]
        if blk not in blocks:
            blocks.append(blk)
    for blk in blocks:
        be = BlockEval(ctx, fi, shallow=True)
        ch = _chain(loop.body, blk[0])
        env = Env()
        for b, i in ch[:-1]:
            env = be.run(env, b[:i])
        env = be.run(env, blk, block=True)
        # items touched: every array with a store
        touched = sorted({arr for (arr, idx) in env.stores
                          if idx not in (("fill",), ("summary",))})
        idxs = sorted({idx[0] for (arr, idx) in env.stores
                       if len(idx) == 1}, key=repr)
        ok = False
        detail = "cannot evaluate the cut"
        if len(idxs) == 1 and touched:
            d = idxs[0]
            o = Poly.const(1) - d
            root = [a for a in touched if a not in be.copies]
            if len(root) == 1:
                X = root[0]
                before = Poly.atom(("cell", X, (d,))) * Poly.atom(
                    ("cell", X, (o,)))
                appended = [v for nm, v in be.appends if nm == items]
                after = be.val(env, X, d) * be.val(env, X, o)
                for v in appended:
                    at = v.as_atom() if isinstance(v, Poly) else None
                    if at is not None and at[0] == "var":
                        after = after + be.val(env, at[1], d) * be.val(
                            env, at[1], o)
                ok = after == before and len(appended) == 1 and isinstance(
                    blk[-1], ast.Break)
                detail = (f"area before cut = {show(before)}; after = "
                          f"{show(after)}; {len(appended)} append(s); block "
                          f"ends with {type(blk[-1]).__name__}")
        ctx.ob("D17.1", fi, blk[0], ok, "phase 1: " + detail,
               construct="phase-1 cut conserves area, one append")
    # the only way out of the inner loops is the break after the append
    inner = [n for n in loop.body if isinstance(n, ast.While)]
    ok = len(inner) == 1 and isinstance(
        inner[0].test, ast.Constant) and inner[0].test.value is True
    n_app = sum(1 for c in ast.walk(loop) if isinstance(c, ast.Call)
                and isinstance(c.func, ast.Attribute)
                and c.func.attr in SIZE_MUTATORS
                and isinstance(c.func.value, ast.Name)
                and c.func.value.id == items)
    n_del = sum(1 for d in ast.walk(loop) if isinstance(d, ast.Delete))
    brks = [b for b in ast.walk(loop) if isinstance(b, ast.Break)]
    ok = ok and n_app == 1 and n_del == 0 and len(brks) == 1 and any(
        b is blk[-1] for blk in blocks for b in brks)
    ctx.ob("D17.1", fi, loop, ok,
           f"phase 1: one `while True` per split, {n_app} size-changing "
           f"call(s) on `{items}`, {len(brks)} break(s) - every iteration "
           "appends exactly one item" if ok else
           "phase 1: an iteration can leave the inner loop without exactly "
           "one append", construct="exactly one append per split")
    # range(n_bins, n_items)
    it = loop.iter
    from sa.srcmodel import inline_locals
    it = inline_locals(fi.node, it)
    ok = isinstance(it, ast.Call) and isinstance(it.func, ast.Name) and \
        it.func.id == "range" and len(it.args) == 2 and \
        ast.unparse(it.args[1]) == "self.space.n_items"
    lo_ok = bool(ok) and ast.unparse(it.args[0]) == "self.space.min_bins"
    ctx.ob("D17.2", fi, loop, bool(ok and lo_ok),
           f"phase 1 performs range({ast.unparse(it.args[0]) if ok else '?'}"
           ", self.space.n_items) splits starting from min_bins bin-sized "
           "items: n_items items result",
           construct="number of splits")


def _phase2(ctx: Ctx, fi: FuncInfo, loop: ast.While, items: str,
            body: list[ast.stmt]) -> None:
    stores = _item_stores(fi, loop.body, items)
    if not stores:
        ctx.ob("D17.1", fi, loop, True, "phase 2 never changes an item",
               construct="phase-2 ledger", nontrivial=False)
    recompute = None
    for s in loop.body:
        if isinstance(s, ast.Assign) and any(
                isinstance(t, ast.Name) and t.id == _LEDGER
                for t in s.targets):
            v = s.value
            if isinstance(v, ast.Call) and isinstance(
                    v.func, ast.Name) and v.func.id == "sum" and any(
                    isinstance(n, ast.Name) and n.id == items
                    for n in ast.walk(v)):
                recompute = s
    for st in stores:
        ch = _chain(loop.body, st)
        blk = ch[-1][0]
        be = BlockEval(ctx, fi, shallow=True)
        env = Env()
        area0 = Poly.var(_LEDGER)
        env.vars[_LEDGER] = area0
        for b, i in ch[:-1]:
            env = be.run(env, b[:i])
        before_env = env.copy()
        env = be.run(env, blk, block=True)
        # full (deep) evaluation of the same context for the cut limit
        bef = BlockEval(ctx, fi)
        envf = Env()
        envf.vars[_LEDGER] = area0
        for b, i in ch[:-1]:
            envf = bef.run(envf, b[:i])
        envf_before = envf.copy()
        envf = bef.run(envf, blk)
        touched = sorted({(arr, idx[0]) for (arr, idx) in env.stores
                          if len(idx) == 1 and
                          (arr, idx) not in before_env.stores}, key=repr)
        ok = False
        detail = "cannot evaluate the shrinking store"
        if len(touched) == 1:
            X, d = touched[0]
            o = Poly.const(1) - d
            old = Poly.atom(("cell", X, (d,))) * Poly.atom(
                ("cell", X, (o,)))
            new = be.val(env, X, d) * be.val(env, X, o)
            delta_items = new - old
            cur = env.vars.get(_LEDGER)
            delta_ledger = (cur - area0) if isinstance(cur, Poly) else None
            if recompute is not None and delta_ledger == Poly():
                ok = True
                detail = ("ledger is recomputed from the item list in the "
                          "loop body")
            else:
                ok = delta_ledger is not None and delta_ledger == delta_items
                detail = (f"items' area changes by {show(delta_items)}; "
                          "`current_area` changes by "
                          f"{show(delta_ledger) if delta_ledger is not None else '?'}"
                          " on the same path" + (
                              "" if ok else " - the guard `current_area > "
                              "min_area` and the cut limit keep using a "
                              "stale area, so more area than the slack can "
                              "be removed"))
        ctx.ob("D17.1", fi, st, ok, "phase 2: " + detail,
               construct="phase-2 ledger update",
               witness=None if ok else {
                   "store": ast.unparse(st),
                   "ledger_variable": _LEDGER})
        # the slack budget: removed area = cut_position * other must leave
        # more than (min_bins - 1) * bin_area
        lim = cp = None
        touched_f = sorted({(arr, idx[0]) for (arr, idx) in envf.stores
                            if len(idx) == 1 and
                            (arr, idx) not in envf_before.stores}, key=repr)
        ok_l = False
        detail_l = "cut limit not recognised"
        if len(touched_f) == 1:
            # by value: the shrinking store removes `cp` from dimension d,
            # and cp = (.. % lim) + 1
            X, d = touched_f[0]
            try:
                cp = Poly.atom(("cell", X, (d,))) - bef.val(envf, X, d)
            except Unsupported:
                cp = None
            a_cp0 = (cp - Poly.const(1)).as_atom() if isinstance(
                cp, Poly) else None
            if a_cp0 is not None and a_cp0[0] == "app" and \
                    a_cp0[1] == "mod":
                lim = a_cp0[2][1]
        if len(touched_f) == 1 and isinstance(lim, Poly) and isinstance(
                cp, Poly):
            X, d = touched_f[0]
            other = Poly.atom(("cell", X, (Poly.const(1) - d,)))
            d1, c2 = _budget_margin(lim, other, area0)
            top_env = _top_env(BlockEval(ctx, fi), body, loop)
            mn = top_env.vars.get(_FLOOR)
            sp = "self.space."
            floor_area = (Poly.var(sp + "min_bins") - Poly.const(1)) * \
                Poly.var(sp + "bin_width") * Poly.var(sp + "bin_height")
            d2 = (mn - floor_area).const_value() if isinstance(
                mn, Poly) else None
            # cut_position in [1, cut_modulus]
            a_cp = (cp - Poly.const(1)).as_atom()
            cp_ok = a_cp is not None and a_cp[0] == "app" and \
                a_cp[1] == "mod" and a_cp[2][1] == lim
            if d1 is None or d2 is None or c2 is None:
                detail_l = ("cannot write the cut limit as min(.., (current_"
                            "area - min_area [+c]) // other_dimension - a, "
                            "..) - b with min_area = (min_bins-1)*bin_area "
                            f"+ c': limit = {show(lim)[:140]}, min_area = "
                            f"{show(mn) if isinstance(mn, Poly) else mn}")
            else:
                d2e = d2 - c2
                ok_l = cp_ok and d1 >= 0 and d2e >= 0 and d1 + d2e >= 1
                detail_l = (
                    f"cut_position <= cut_modulus <= slack // other - {d1} "
                    f"with slack = current_area - (min_bins-1)*bin_area - "
                    f"{d2e}: the removed area cut_position*other is at most "
                    f"current_area - (min_bins-1)*bin_area - {d2e} - "
                    f"{d1}*other; at least one unit must remain "
                    f"(margins {d1} + {d2e} >= 1: "
                    f"{'yes' if d1 + d2e >= 1 else 'NO - the area can drop to exactly (min_bins-1) bins'})"
                    + ("" if cp_ok else "; cut_position is not "
                       "`(.. % cut_modulus) + 1`"))
        ctx.ob("D17.1", fi, st, ok_l, "phase 2: " + detail_l,
               construct="phase-2 slack budget")
    n_mut = sum(1 for c in ast.walk(loop) if isinstance(c, ast.Call)
                and isinstance(c.func, ast.Attribute)
                and c.func.attr in SIZE_MUTATORS
                and isinstance(c.func.value, ast.Name)
                and c.func.value.id == items) + sum(
        1 for d in ast.walk(loop) if isinstance(d, ast.Delete))
    ctx.ob("D17.1", fi, loop, n_mut == 0,
           "phase 2 does not change the number of items" if n_mut == 0
           else "phase 2 adds or removes items",
           construct="phase-2 item count", nontrivial=False)
    # guard reads the ledger and stops at min_area
    g = ast.unparse(loop.test).replace(" ", "")
    ok_g = any(isinstance(c, ast.Compare) and isinstance(
        c.left, ast.Name) and c.left.id == _LEDGER and isinstance(
        c.ops[0], ast.Gt) and isinstance(c.comparators[0], ast.Name)
        and c.comparators[0].id == _FLOOR
        for c in ast.walk(loop.test)) or any(
        isinstance(c, ast.Compare) and isinstance(c.left, ast.Name)
        and c.left.id == _FLOOR and isinstance(c.ops[0], ast.Lt)
        and isinstance(c.comparators[0], ast.Name)
        and c.comparators[0].id == _LEDGER
        for c in ast.walk(loop.test))
    del g
    ctx.ob("D17.1", fi, loop.test, ok_g,
           "phase 2 continues only while current_area > min_area",
           construct="phase-2 guard", nontrivial=False)


def _budget_margin(lim: Poly, other: Poly, area0: Poly) \
        -> tuple[Any, Any]:
    """lim = min(.., floordiv(area0 - min_area + c2, other) + c1, ..) + c0
    -> (-(c0 + c1), c2); (None, None) if not of that shape."""
    from fractions import Fraction
    c0 = lim.terms.get((), Fraction(0))
    rest = lim - Poly.const(c0)
    a = rest.as_atom()
    if a is not None and a[0] == "ite" and a[1][0] in ("lt", "le") and \
            {a[1][1], a[1][2]} == {a[2], a[3]} and a[1][1] == a[2]:
        # `x if x < y else y` is min(x, y)
        a = ("app", "min", (a[2], a[3]))
    if a is None or a[0] != "app":
        return None, None
    args = list(a[2]) if a[1] == "min" else [rest] \
        if a[1] == "floordiv" else []
    for arg in args:
        c1 = arg.terms.get((), Fraction(0))
        fa = (arg - Poly.const(c1)).as_atom()
        if fa is not None and fa[0] == "app" and fa[1] == "floordiv":
            num, den = fa[2]
            if den != other:
                return None, None
            c2p = num - area0 + Poly.var(_FLOOR)
            c2 = c2p.const_value()
            if c2 is None:
                return None, None
            return -(c0 + c1), c2
    return None, None


def _dataflow(ctx: Ctx, fi: FuncInfo, body: list[ast.stmt], call: ast.Call,
              phase1: ast.For, phase2: ast.While) -> None:
    be = BlockEval(ctx, fi)
    env = _top_env(be, body, phase2)
    sp = "self.space."
    bw, bh = Poly.var(sp + "bin_width"), Poly.var(sp + "bin_height")
    nb = Poly.var(sp + "min_bins")
    mn = env.vars.get(_FLOOR)
    want = (nb - Poly.const(1)) * bw * bh
    off = (mn - want).const_value() if isinstance(mn, Poly) else None
    ctx.ob("D17.2", fi, phase2, off is not None and off >= 0,
           f"min_area = {show(mn) if isinstance(mn, Poly) else mn}; must be "
           "(min_bins - 1) * bin_area + c with c >= 0 (the margin itself is "
           "judged together with the cut limit)", construct="min_area")
    ca = env.vars.get(_LEDGER)
    ctx.ob("D17.2", fi, phase2, isinstance(ca, Poly) and ca == nb * bw * bh,
           f"current_area starts as {show(ca) if isinstance(ca, Poly) else ca}"
           "; phase 1 conserves min_bins * bin_area",
           construct="initial ledger")
    try:
        args = [be.ev.expr(env, a) for a in call.args[:3]]
    except Unsupported:
        args = []
    ok = args == [Poly.var(sp + "inst_name"), bw, bh]
    ctx.ob("D17.2", fi, call, ok,
           "Instance(...) receives "
           f"{[show(a) for a in args]}; must be the space's name and bin "
           "dimensions", construct="Instance arguments")
    # initial items are bin sized
    ok_i = False
    for s in body:
        if isinstance(s, (ast.Assign, ast.AnnAssign)) and isinstance(
                s.value, ast.ListComp):
            lc = s.value
            if isinstance(lc.elt, ast.List) and len(lc.elt.elts) == 2:
                try:
                    e0 = be.ev.expr(env, lc.elt.elts[0])
                    e1 = be.ev.expr(env, lc.elt.elts[1])
                except Unsupported:
                    continue
                g = lc.generators[0]
                rng = isinstance(g.iter, ast.Call) and isinstance(
                    g.iter.func, ast.Name) and g.iter.func.id == "range" \
                    and len(g.iter.args) == 1
                if rng:
                    cnt = be.ev.expr(env, g.iter.args[0])
                    ok_i = (e0, e1, cnt) == (bw, bh, nb)
    # the same list built by `items = []` and an append loop
    items_nm = call.args[3].id if len(call.args) == 4 and isinstance(
        call.args[3], ast.Name) else None
    empties = [s for s in body if isinstance(s, (ast.Assign, ast.AnnAssign))
               and isinstance(getattr(s, "value", None), ast.List)
               and not s.value.elts and isinstance(
                   s.targets[0] if isinstance(s, ast.Assign) else s.target,
                   ast.Name) and (s.targets[0] if isinstance(s, ast.Assign)
                                  else s.target).id == items_nm]
    if not ok_i and len(empties) == 1:
        k0 = body.index(empties[0])
        fill = next((s for s in body[k0 + 1:] if isinstance(s, ast.For)),
                    None)
        between = body[k0 + 1:body.index(fill)] if fill is not None else []
        touched = any(isinstance(n, ast.Name) and n.id == items_nm
                      for s in between for n in ast.walk(s))
        if fill is not None and fill is not phase1 and not touched and \
                not fill.orelse and len(fill.body) == 1 and isinstance(
                fill.body[0], ast.Expr) and isinstance(
                fill.body[0].value, ast.Call) and ast.unparse(
                fill.body[0].value.func) == f"{items_nm}.append" and len(
                fill.body[0].value.args) == 1 and isinstance(
                fill.body[0].value.args[0], ast.List) and len(
                fill.body[0].value.args[0].elts) == 2 and isinstance(
                fill.iter, ast.Call) and isinstance(
                fill.iter.func, ast.Name) and fill.iter.func.id == "range" \
                and len(fill.iter.args) == 1:
            el = fill.body[0].value.args[0].elts
            try:
                ok_i = (be.ev.expr(env, el[0]), be.ev.expr(env, el[1]),
                        be.ev.expr(env, fill.iter.args[0])) == (bw, bh, nb)
            except Unsupported:
                ok_i = False
    ctx.ob("D17.2", fi, phase1, ok_i,
           "the item list starts as min_bins items of size bin_width x "
           "bin_height", construct="initial items")


def _determinism(ctx: Ctx, fi: FuncInfo, xname: str) -> None:
    gens = []
    for n in ast.walk(fi.node):
        if isinstance(n, ast.Call):
            src = ast.unparse(n.func)
            if src.split(".")[-1] in ("default_rng", "RandomState",
                                      "Random", "seed", "SeedSequence"):
                gens.append(n)
    ctx.count("decode_generators", len(gens))
    for g in gens:
        names = {n.id for a in list(g.args) + [k.value for k in g.keywords]
                 for n in ast.walk(inline_locals(fi.node, a))
                 if isinstance(n, ast.Name)}
        ok = bool(g.args or g.keywords) and names <= {xname, "int"} and \
            xname in names
        ctx.ob("D17.3", fi, g, ok,
               f"generator seeded from {sorted(names)}; must derive from "
               f"`{xname}` only", construct="generator seed provenance")
    bad = []
    for n in ast.walk(fi.node):
        if isinstance(n, (ast.Assign, ast.AugAssign, ast.AnnAssign)):
            for t in (n.targets if isinstance(n, ast.Assign)
                      else [n.target]):
                if isinstance(t, ast.Attribute) and ast.unparse(
                        t).startswith("self"):
                    bad.append(n)
        if isinstance(n, (ast.Global, ast.Nonlocal)):
            bad.append(n)
        if isinstance(n, ast.Call):
            src = ast.unparse(n.func)
            if src.startswith(("random.", "np.random.", "time.",
                               "os.urandom", "uuid.")) or src in (
                    "time", "perf_counter", "hash", "id"):
                bad.append(n)
    ctx.ob("D17.3", fi, bad[0] if bad else fi.node, not bad,
           "decode writes no field/global and uses no other source of "
           "nondeterminism" if not bad else
           f"`{ast.unparse(bad[0])[:60]}` makes decode stateful or "
           "nondeterministic", construct="decode stateless")


def _clamps(ctx: Ctx) -> None:
    repo = ctx.repo
    for modn, cls in (("errors", "Errors"), ("hardness", "Hardness"),
                      ("errors_and_hardness", "ErrorsAndHardness")):
        fi = repo.func(f"{PKG}.{modn}", f"{cls}.evaluate")
        rets = [r for r in ast.walk(fi.node) if isinstance(r, ast.Return)]
        ok = bool(rets)
        for r in rets:
            ok = ok and _is_unit_clamp(repo, fi, r.value)
        why = ""
        if not ok:
            # clamping written with comparisons: decide path by path that
            # the returned value is a constant in [0, 1] or is bounded by
            # the tests on its path
            ok, why = _unit_by_paths(repo, fi)
        ctx.ob("D17.4", fi, rets[0] if rets else fi.node, ok,
               f"{cls}.evaluate returns a value clamped to [0, 1] on every "
               "path" if ok else
               f"{cls}.evaluate can return an unclamped value{why}",
               construct=f"{cls} clamp")
        for meth, want in (("lower_bound", 0.0), ("upper_bound", 1.0)):
            m = repo.func(f"{PKG}.{modn}", f"{cls}.{meth}")
            rs = [r for r in ast.walk(m.node) if isinstance(r, ast.Return)]
            okb = len(rs) == 1 and repo.const(m.module, rs[0].value) == want
            ctx.ob("D17.4", m, m.node, okb, f"{cls}.{meth}() == {want}",
                   construct=f"{cls}.{meth}", nontrivial=False)


def _unit_by_paths(repo: Any, fi: FuncInfo) -> tuple[bool, str]:
    from sa.pathinline import paths
    from sa.srcmodel import fold_consts

    def src(e: ast.AST) -> str:
        return ast.unparse(e).replace(" ", "")

    def num(e: ast.expr) -> float | None:
        c = repo.const(fi.module, e)
        return float(c) if isinstance(c, (int, float)) and not isinstance(
            c, bool) else None

    def bounds(t: ast.expr, truth: bool, tgt: str) -> tuple[bool, bool]:
        """(lower >= 0 known, upper <= 1 known) for the expression `tgt`
        from the outcome `truth` of the test `t`."""
        if isinstance(t, ast.UnaryOp) and isinstance(t.op, ast.Not):
            return bounds(t.operand, not truth, tgt)
        if isinstance(t, ast.BoolOp):
            parts = [bounds(v, truth, tgt) for v in t.values]
            conj = (isinstance(t.op, ast.And) and truth) or (
                isinstance(t.op, ast.Or) and not truth)
            if conj:
                return any(p[0] for p in parts), any(p[1] for p in parts)
            return all(p[0] for p in parts), all(p[1] for p in parts)
        if not (isinstance(t, ast.Compare) and len(t.ops) == 1):
            return False, False
        l_, r_, op = t.left, t.comparators[0], t.ops[0]
        if src(r_) == tgt and num(l_) is not None:
            flip = {ast.Lt: ast.Gt, ast.Gt: ast.Lt, ast.LtE: ast.GtE,
                    ast.GtE: ast.LtE}
            if type(op) not in flip:
                return False, False
            l_, r_, op = r_, l_, flip[type(op)]()
        c = num(r_)
        if src(l_) != tgt or c is None:
            return False, False
        kind = type(op)
        if not truth:
            neg = {ast.Lt: ast.GtE, ast.GtE: ast.Lt, ast.Gt: ast.LtE,
                   ast.LtE: ast.Gt}
            if kind not in neg:
                return False, False
            kind = neg[kind]
        lo = kind in (ast.Gt, ast.GtE) and c >= 0.0
        hi = kind in (ast.Lt, ast.LtE) and c <= 1.0
        return lo, hi
    try:
        ps = [q for q in paths(func_body(fi)) if q.ended == "return"]
    except ValueError:
        return False, ": too many paths (cannot normalise)"
    if not ps:
        return False, ""
    for q in ps:
        ev = next((e for e in reversed(q.events) if e.kind == "return"),
                  None)
        v = ev.value if ev is not None else None
        if v is None:
            return False, " (a path returns nothing)"
        v = fold_consts(repo, fi.module, v)
        c = num(v)
        if c is not None:
            if 0.0 <= c <= 1.0:
                continue
            return False, f" (the constant {c})"
        if _is_unit_clamp(repo, fi, v):
            continue
        tgt = src(v)
        lo = hi = False
        for t, tr in q.guards:
            b_ = bounds(fold_consts(repo, fi.module, t), tr, tgt)
            lo, hi = lo or b_[0], hi or b_[1]
        if not (lo and hi):
            return False, (f": `{ast.unparse(v)[:80]}` is returned on a "
                           "path whose tests do not confine it to [0, 1]")
    return True, ""


def _is_unit_clamp(repo: Any, fi: FuncInfo, e: ast.expr | None) -> bool:
    if not (isinstance(e, ast.Call) and isinstance(e.func, ast.Name)
            and e.func.id in ("max", "min") and len(e.args) == 2):
        return False
    outer = e.func.id
    consts = [repo.const(fi.module, a) for a in e.args]
    inner = [a for a, c in zip(e.args, consts) if c is None]
    cv = [c for c in consts if c is not None]
    if len(inner) != 1 or len(cv) != 1:
        return False
    i = inner[0]
    if not (isinstance(i, ast.Call) and isinstance(i.func, ast.Name)
            and i.func.id in ("max", "min") and i.func.id != outer
            and len(i.args) == 2):
        return False
    c2 = [repo.const(fi.module, a) for a in i.args]
    cv2 = [c for c in c2 if c is not None]
    if len(cv2) != 1:
        return False
    lo, hi = (cv[0], cv2[0]) if outer == "max" else (cv2[0], cv[0])
    return lo == 0 and hi == 1


# ------------------------------------------------------------------ D17.5
def _lin_expr(e: ast.expr) -> Any:
    from sa.lin import Lin
    if isinstance(e, ast.Constant) and isinstance(e.value, int) and \
            not isinstance(e.value, bool):
        return Lin.const(e.value)
    if isinstance(e, ast.Name):
        return Lin.sym(e.id)
    if isinstance(e, ast.BinOp) and isinstance(e.op, (ast.Add, ast.Sub)):
        a, b = _lin_expr(e.left), _lin_expr(e.right)
        if a is None or b is None:
            return None
        return a + b if isinstance(e.op, ast.Add) else a - b
    if isinstance(e, ast.UnaryOp) and isinstance(e.op, ast.USub):
        a = _lin_expr(e.operand)
        return None if a is None else -a
    return None


def _lin_cond(t: ast.expr, truth: bool) -> list[Any]:
    if isinstance(t, ast.UnaryOp) and isinstance(t.op, ast.Not):
        return _lin_cond(t.operand, not truth)
    if isinstance(t, ast.BoolOp) and isinstance(t.op, ast.And) and truth:
        return [f for v in t.values for f in _lin_cond(v, True)]
    if isinstance(t, ast.Compare) and truth:
        out = []
        left = t.left
        for op, right in zip(t.ops, t.comparators):
            a, b = _lin_expr(left), _lin_expr(right)
            left = right
            if a is None or b is None:
                continue
            d = b - a
            if isinstance(op, ast.Lt):
                out.append(d - 1)
            elif isinstance(op, ast.LtE):
                out.append(d)
            elif isinstance(op, ast.Gt):
                out.append(-d - 1)
            elif isinstance(op, ast.GtE):
                out.append(-d)
            elif isinstance(op, ast.Eq):
                out += [d, -d]
        return out
    return []


def _positive_pieces(ctx: Ctx, fi: FuncInfo, items: str) -> None:
    """Every size written into an item is proven >= 1 under its guards."""
    from sa.lin import entails
    n_sites = 0

    flagged = [False]

    def walk(stmts: list[ast.stmt], facts: list[Any],
             alias: set[str]) -> None:
        nonlocal n_sites
        for s in stmts:
            if isinstance(s, (ast.Assign, ast.AnnAssign)) and s.value is not \
                    None and isinstance(
                    s.targets[0] if isinstance(s, ast.Assign) else s.target,
                    ast.Name):
                tg = (s.targets[0] if isinstance(s, ast.Assign)
                      else s.target).id
                v = s.value
                if (isinstance(v, ast.Subscript) and ast.unparse(
                        v.value) == items) or (
                        isinstance(v, ast.Call) and isinstance(
                            v.func, ast.Attribute) and v.func.attr == "copy"
                        and isinstance(v.func.value, ast.Name)
                        and v.func.value.id in alias):
                    alias.add(tg)
            if isinstance(s, ast.Assign) and isinstance(
                    s.targets[0], ast.Subscript) and isinstance(
                    s.targets[0].value, ast.Name) and \
                    s.targets[0].value.id in alias:
                n_sites += 1
                g = _lin_expr(s.value)
                ok = g is not None and entails(facts, g - 1)
                ctx.ob("D17.5", fi, s, ok,
                       f"`{ast.unparse(s)[:70]}` writes a size >= 1 (linear "
                       "entailment from the guards of the cut)" if ok else (
                           f"`{ast.unparse(s)[:70]}`: the cut is guarded by "
                           "a flag, the comparisons that bound the size are "
                           "not recognised" if flagged[0] else
                           f"`{ast.unparse(s)[:70]}` can write a size < 1: "
                           "the decoded instance would contain an empty "
                           "item and be rejected"), construct=f"piece "
                       f"{ast.unparse(s.value)[:40]}")
            if isinstance(s, ast.If):
                was = flagged[0]
                # a test of a boolean local carries no comparison
                t_ = s.test
                while isinstance(t_, ast.UnaryOp) and isinstance(
                        t_.op, ast.Not):
                    t_ = t_.operand
                if isinstance(t_, ast.Name):
                    flagged[0] = True
                walk(s.body, facts + _lin_cond(s.test, True), alias)
                walk(s.orelse, facts + _lin_cond(s.test, False), alias)
                flagged[0] = was
            elif isinstance(s, (ast.For, ast.While)):
                walk(s.body, list(facts), alias)
    walk(func_body(fi), [], set())
    ctx.count("piece_size_stores", n_sites)
    ctx.ob("D17.5", fi, fi.node, n_sites >= 3,
           f"{n_sites} stores of item sizes examined" if n_sites >= 3 else
           f"only {n_sites} stores of item sizes found (phase 1 writes both "
           "pieces, phase 2 the shrunk one)", construct="piece stores",
           nontrivial=False)


# ------------------------------------------------------------------ D17.6
def _selection(ctx: Ctx, fi: FuncInfo, items: str) -> None:
    """items[...] is only indexed with (expr) % (current number of items).

    Concerns the two cutting phases, i.e. everything before the list is
    sorted for merging (the merge scan has its own rule, D17.7)."""
    problems = []
    n = 0
    sort_line = min((c.lineno for c in ast.walk(fi.node) if isinstance(
        c, ast.Call) and isinstance(c.func, ast.Attribute)
        and c.func.attr == "sort" and ast.unparse(c.func.value) == items),
        default=10 ** 9)
    # the current number of items: the counter of the phase-1 loop (which
    # appends one item per round) and any local assigned len(items)
    counts: set[str] = set()
    for lp in ast.walk(fi.node):
        if isinstance(lp, ast.For) and isinstance(
                lp.target, ast.Name) and any(
                isinstance(c, ast.Call) and isinstance(
                    c.func, ast.Attribute) and c.func.attr == "append"
                and ast.unparse(c.func.value) == items
                for c in ast.walk(lp)):
            counts.add(lp.target.id)
    lens = [d for d in ast.walk(fi.node) if isinstance(
        d, (ast.Assign, ast.AnnAssign)) and d.value is not None and
        ast.unparse(d.value).replace(" ", "") in (
            f"list.__len__({items})", f"len({items})")
        and d.lineno < sort_line]
    for d in lens:
        tg = d.targets[0] if isinstance(d, ast.Assign) else d.target
        if isinstance(tg, ast.Name):
            counts.add(tg.id)
    for s in ast.walk(fi.node):
        if isinstance(s, (ast.Assign, ast.AnnAssign)) and isinstance(
                s.value, ast.Subscript) and ast.unparse(
                s.value.value) == items and isinstance(
                s.value.slice, ast.Name) and s.lineno < sort_line:
            idx = s.value.slice.id
            n += 1
            defs = [d for d in ast.walk(fi.node) if isinstance(
                d, (ast.Assign, ast.AnnAssign)) and d.value is not None
                and isinstance(d.targets[0] if isinstance(d, ast.Assign)
                               else d.target, ast.Name) and (
                    d.targets[0] if isinstance(d, ast.Assign)
                    else d.target).id == idx and d.lineno < sort_line]
            for d in defs:
                v = d.value
                if isinstance(v, ast.Name):      # orig_sel_i = sel_i etc.
                    continue
                if not (isinstance(v, ast.BinOp) and isinstance(
                        v.op, ast.Mod) and isinstance(v.right, ast.Name)
                        and v.right.id in counts):
                    problems.append(
                        f"`{ast.unparse(d)[:70]}`: the item index is not "
                        "reduced modulo the current number of items")
    ok_len = len(lens) == 1
    if not ok_len:
        problems.append("phase 2 does not take the number of items from "
                        "the list")
    ctx.ob("D17.6", fi, fi.node, not problems and n >= 2,
           f"all {n} item selections index the list with a value reduced "
           "modulo the current number of items (0 <= index < len)" if
           not problems and n >= 2 else "; ".join(problems) or
           "item selections not found", construct="item selection in range")


# ------------------------------------------------------------------ D17.7
def _merge_and_deliver(ctx: Ctx, fi: FuncInfo, items: str,
                       call: ast.Call) -> None:
    body = func_body(fi)

    def src(n: ast.AST) -> str:
        return ast.unparse(n).replace(" ", "")
    problems: list[str] = []
    sorts = [s for s in body if isinstance(s, ast.Expr)
             and src(s.value) == f"{items}.sort()"]
    merge = None
    mlo = mnn = None
    for s in body:
        if isinstance(s, ast.While) and sorts and body.index(s) > \
                body.index(sorts[0]) and isinstance(
                s.test, ast.Compare) and len(s.test.ops) == 1 and \
                isinstance(s.test.left, ast.Name) and isinstance(
                s.test.comparators[0], ast.Name):
            merge = s
            l_, r_ = s.test.left.id, s.test.comparators[0].id
            if isinstance(s.test.ops[0], ast.Lt):
                mlo, mnn = l_, r_
            elif isinstance(s.test.ops[0], ast.Gt):
                mlo, mnn = r_, l_
            break
    if not sorts or merge is None:
        problems.append("equal items are not brought together (sort) and "
                        "merged")
    else:
        lo = mlo or merge.test.left.id
        nn = mnn or src(merge.test.comparators[0])
        if mlo is None:
            problems.append("the merge scan does not run while lo < n")
        pre = body[:body.index(merge)]
        lo0 = [s for s in pre if isinstance(s, (ast.Assign, ast.AnnAssign))
               and src(s.targets[0] if isinstance(s, ast.Assign)
                       else s.target) == lo]
        n0 = [s for s in pre if isinstance(s, (ast.Assign, ast.AnnAssign))
              and src(s.targets[0] if isinstance(s, ast.Assign)
                      else s.target) == nn]
        if not lo0 or src(lo0[-1].value) != "0":
            problems.append("the merge scan does not start at 0")
        if not n0 or src(n0[-1].value) not in (f"list.__len__({items})",
                                               f"len({items})"):
            problems.append("the merge scan does not cover the whole list")
        mb = merge.body
        scan = next((s for s in mb if isinstance(s, ast.While) and
                     isinstance(s.test, ast.BoolOp)), None)
        dele = next((s for s in mb if isinstance(s, ast.While) and
                     isinstance(s.test, ast.Compare)), None)
        if scan is not None and dele is None:
            why = _merge_by_slice(fi, merge, scan, items, lo, nn)
            if why:
                problems.append(why)
        elif scan is None or dele is None:
            problems.append("merge: scan-equal / delete-duplicates loops "
                            "not found")
        else:
            hi = None

            def norm_cmp(v: ast.expr) -> str:
                """A comparison with its sides in a fixed order."""
                if isinstance(v, ast.Compare) and len(v.ops) == 1:
                    l_, r_ = src(v.left), src(v.comparators[0])
                    op = type(v.ops[0])
                    if op in (ast.Eq, ast.NotEq):
                        a_, b_ = sorted((l_, r_))
                        return f"{a_}{'==' if op is ast.Eq else '!='}{b_}"
                    if op is ast.Gt:
                        return f"{r_}<{l_}"
                    if op is ast.GtE:
                        return f"{r_}<={l_}"
                return src(v)
            parts = [norm_cmp(v) for v in scan.test.values]
            for v in scan.test.values:
                if isinstance(v, ast.Compare) and len(v.ops) == 1:
                    l_, r_ = v.left, v.comparators[0]
                    if isinstance(v.ops[0], ast.Lt) and isinstance(
                            l_, ast.Name) and src(r_) == nn:
                        hi = l_.id
                    if isinstance(v.ops[0], ast.Gt) and isinstance(
                            r_, ast.Name) and src(l_) == nn:
                        hi = r_.id
            cur = next((src(s.targets[0] if isinstance(s, ast.Assign)
                            else s.target) for s in mb if isinstance(
                s, (ast.Assign, ast.AnnAssign)) and s.value is not None
                and src(s.value) == f"{items}[{lo}]"), None)
            if hi is None or cur is None or not isinstance(
                    scan.test.op, ast.And) or sorted(parts) != sorted(
                    [f"{hi}<{nn}", "==".join(sorted(
                        (f"{items}[{hi}]", cur)))]) or [
                    src(s) for s in scan.body] not in (
                        [f"{hi}+=1"], [f"{hi}={hi}+1"], [f"{hi}=1+{hi}"]):
                problems.append("the run of equal items is not scanned as "
                                "`while hi < n and items[hi] == cur: hi += "
                                "1`")
            else:
                seq = [src(s) for s in mb]
                want_mult = f"{cur}.append({hi}-{lo})"
                if want_mult not in seq:
                    problems.append("the multiplicity hi - lo is not "
                                    "appended to the kept item")
                if src(dele.test) not in (f"{lo}<{hi}", f"{hi}>{lo}") \
                        or sorted(
                        src(s) for s in dele.body) != sorted(
                        [f"del{items}[{hi}]", f"{hi}-=1", f"{nn}-=1"]):
                    problems.append("duplicates are not deleted one by one "
                                    "(del items[hi]; hi -= 1; n -= 1 while "
                                    "lo < hi)")
                if f"{hi}-=1" not in seq or f"{lo}+=1" not in seq or \
                        f"{hi}={lo}" not in [
                        s_.replace(":int", "") for s_ in seq]:
                    problems.append("merge bookkeeping (hi = lo; ...; hi -= "
                                    "1; ...; lo += 1) incomplete")
                elif seq.index(want_mult) > seq.index(f"{hi}-=1") if \
                        want_mult in seq else False:
                    problems.append("the multiplicity is computed after hi "
                                    "was moved back")
    ctx.ob("D17.7", fi, merge or fi.node, not problems,
           "equal items are merged into one row whose third entry is the "
           "length of the run: the total number of items is preserved"
           if not problems else "; ".join(problems),
           construct="merge of equal items")
    # ---- the instance is built after the merge and delivered on all paths
    from sa.cfg import CFG
    cfg = CFG(fi.node)
    mk = next((n for n in cfg.nodes if n.kind == "stmt" and any(
        c is call for c in ast.walk(n.ast))), None)
    okd = False
    why = "Instance(...) statement not found"
    if mk is not None and isinstance(mk.ast, (ast.Assign, ast.AnnAssign)):
        res = src(mk.ast.targets[0] if isinstance(mk.ast, ast.Assign)
                  else mk.ast.target)
        yn = fi.params[2]

        def delivers(n: Any) -> bool:
            a = n.ast
            if n.kind != "stmt":
                return False
            if isinstance(a, ast.Assign) and src(a.targets[0]) == \
                    f"{yn}[0]" and src(a.value) == res:
                return True
            return isinstance(a, ast.Expr) and src(a.value) in (
                f"{yn}.append({res})",)
        okd = not cfg.can_reach_avoiding(mk, cfg.exit, delivers)
        why = "a path ends without storing the instance in the receiver"
        # y[0] = res only when the list is non-empty
        for n in cfg.nodes:
            if delivers(n) and isinstance(n.ast, ast.Assign):
                guard = [(t, lb) for t in cfg.nodes if t.kind == "test"
                         for m, lb in t.succ if m is n]
                nonempty = False
                if len(guard) == 1:
                    from sa.casesplit import equivalent
                    from sa.kern import py_calls
                    from sa.symterm import c_and, c_not
                    t, lb = guard[0]
                    if isinstance(t.ast, ast.Name) and t.ast.id == yn:
                        nonempty = lb is True
                    else:
                        gev = make_evaluator(ctx.repo, fi,
                                             extra_call=py_calls)

                        class LenCall(ast.NodeTransformer):
                            def visit_Call(self, c: ast.Call) -> ast.AST:
                                if src(c) in (f"list.__len__({yn})",
                                              f"len({yn})"):
                                    return ast.Name(id="len$",
                                                    ctx=ast.Load())
                                return self.generic_visit(c)
                        import copy as _copy
                        t2 = ast.fix_missing_locations(LenCall().visit(
                            _copy.deepcopy(t.ast)))
                        env = Env()
                        LEN = Poly.var("len$v")
                        env.vars["len$"] = LEN
                        try:
                            c = gev.cond(env, t2)
                            if lb is False:
                                c = c_not(c)
                            # the edge taken implies len >= 1
                            # (a length is never negative)
                            nonempty = lb in (True, False) and equivalent(
                                c_and(c, ("le", LEN, Poly.const(0)),
                                      ("le", Poly.const(0), LEN)),
                                ("false",))[0]
                        except Unsupported:
                            nonempty = False
                if not nonempty:
                    okd = False
                    why = "y[0] is written although the receiver may be empty"
        if merge is not None and body.index(merge) > next(
                (i for i, s in enumerate(body) if any(
                    c is call for c in ast.walk(s))), 10 ** 6):
            okd = False
            why = "the instance is built before the items are merged"
    ctx.ob("D17.7", fi, call, okd,
           "the instance is built from the merged items and stored in the "
           "receiver on every path (y[0] if present, else appended)"
           if okd else why, construct="instance delivered")


def _merge_by_slice(fi: FuncInfo, merge: ast.While, scan: ast.While,
                    items: str, lo: str, nn: str) -> str | None:
    """The other merge idiom: scan the run [lo, hi), append hi - lo to the
    kept item, `del items[lo + 1:hi]` (possibly only when hi - lo > 1),
    n -= (hi - lo) - 1, lo += 1.  All quantities are compared as values
    (locals inlined, every path of a round)."""
    from sa.casesplit import Splitter
    from sa.pathinline import paths
    from sa.symterm import Evaluator

    def src(n: ast.AST | None) -> str:
        return ast.unparse(n).replace(" ", "") if n is not None else "?"
    pev = Evaluator()
    pev.int_transparent = True
    env = Env()

    def num(e: ast.expr | None) -> Poly | None:
        try:
            return pev.num(env, e) if e is not None else None
        except Unsupported:
            return None
    # the scan: while hi < n and items[hi] == cur: hi += 1
    hi = None
    if isinstance(scan.test, ast.BoolOp) and isinstance(
            scan.test.op, ast.And):
        for v in scan.test.values:
            if isinstance(v, ast.Compare) and len(v.ops) == 1:
                l_, r_, op = v.left, v.comparators[0], v.ops[0]
                if isinstance(op, ast.Lt) and isinstance(
                        l_, ast.Name) and src(r_) == nn:
                    hi = l_.id
                if isinstance(op, ast.Gt) and isinstance(
                        r_, ast.Name) and src(l_) == nn:
                    hi = r_.id
    if hi is None or [src(x) for x in scan.body] not in (
            [f"{hi}+=1"], [f"{hi}={hi}+1"], [f"{hi}=1+{hi}"]):
        return ("merge idiom not recognised: the run of equal items is not "
                "scanned as `while hi < n and items[hi] == cur: hi += 1`")
    L, Hh, N = Poly.var(lo), Poly.var(hi), Poly.var(nn)
    one = Poly.const(1)
    try:
        qs = paths(merge.body)
    except ValueError:
        return "merge idiom not recognised: too many paths in a round"
    sp = Splitter(integer=True)
    saw_delete = False
    for q in qs:
        if q.ended:
            return "a round of the merge scan can end early"
        scans = [e for e in q.events if e.kind == "loop" and e.node is scan]
        dels = [e for e in q.events if e.kind == "other" and isinstance(
            e.node, ast.Delete)]
        apps = [e for e in q.events if e.kind == "expr" and isinstance(
            e.value, ast.Call) and isinstance(e.value.func, ast.Attribute)
            and e.value.func.attr == "append"]
        if len(scans) != 1 or len(dels) > 1 or len(apps) != 1 or len(
                q.events) != 2 + len(dels):
            return ("a round of the merge scan must scan the run, append "
                    "the multiplicity and delete the duplicates")
        # the scan starts at the kept item itself or right behind it and
        # compares with items[lo]
        hi0 = num((scans[0].pre or {}).get(hi))
        test_in = src(scans[0].value)
        cmp_ok = any(f"{items}[{lo}]=={items}[{h_}]" in test_in or
                     f"{items}[{h_}]=={items}[{lo}]" in test_in
                     for h_ in (lo, f"{lo}+1", f"1+{lo}"))
        if hi0 not in (L, L + one) or not cmp_ok:
            return "the scan of a run does not start at the kept item itself"
        # after the scan `hi` is whatever the loop left: a free name with
        # hi >= lo + 1 (the kept item equals itself)
        facts = sp.facts_of(("le", L + one, Hh), True)[0]
        try:
            for t, truth in q.guards:
                c = pev.cond(env, t)
                fs = sp.facts_of(c, truth)
                if len(fs) != 1:
                    raise Unsupported("disjunctive guard")
                facts = facts + fs[0]
        except Unsupported:
            return "merge idiom not recognised: guard of the deletion"
        mult = num(apps[0].value.args[0]) if len(
            apps[0].value.args) == 1 else None
        if mult != Hh - L or src(apps[0].value.func.value) != \
                f"{items}[{lo}]":
            return ("the multiplicity hi - lo is not appended to the kept "
                    "item")
        if dels:
            saw_delete = True
            dv = dels[0].value or []
            tgt = dv[0] if len(dv) == 1 else None
            ok_del = isinstance(tgt, ast.Subscript) and src(
                tgt.value) == items and isinstance(
                tgt.slice, ast.Slice) and tgt.slice.step is None
            if ok_del:
                lo_e = num(tgt.slice.lower)
                hi_e = num(tgt.slice.upper)
                ok_del = lo_e == L + one and hi_e == Hh
            if not ok_del:
                return "the duplicates items[lo + 1:hi] are not deleted"
        else:
            # nothing deleted: only right when the run has one element
            if not sp.equal(Hh - L, one, facts):
                return ("duplicates are kept: a round can skip the deletion "
                        "although the run has more than one element")
        n_new = num(q.env.get(nn)) if nn in q.env else N
        lo_new = num(q.env.get(lo))
        if n_new is None or not sp.equal(
                n_new, N - (Hh - L) + one, facts):
            return ("the number of rows is not reduced by the number of "
                    "deleted duplicates")
        if lo_new != L + one:
            return ("the merge scan does not advance to the next distinct "
                    "item")
        order = [q.events.index(scans[0]), q.events.index(apps[0])] + [
            q.events.index(d) for d in dels]
        if order != sorted(order):
            return "merge steps out of order (scan, append, delete)"
    if not saw_delete:
        return "the duplicates items[lo + 1:hi] are never deleted"
    return None


# ------------------------------------------------------------------ D17.8
def _search_protocol(ctx: Ctx, fi: FuncInfo, items: str = "items") -> None:
    """The search for a cuttable item visits every item in both directions
    of cutting; no division by a value that may be zero."""
    from sa.lin import entails
    repo = ctx.repo
    problems: list[str] = []

    # ---- roles, from the way names are used (never from their spelling)
    def _t(d: ast.stmt) -> ast.expr:
        return d.targets[0] if isinstance(d, ast.Assign) else d.target
    binds = [d for d in ast.walk(fi.node) if isinstance(
        d, (ast.Assign, ast.AnnAssign)) and getattr(d, "value", None)
        is not None and isinstance(_t(d), ast.Name)]
    # item aliases `a = items[I]` inside a search loop (a `while` nested in
    # a loop): I is the position of the search
    inner_whiles = [w for lp in ast.walk(fi.node) if isinstance(
        lp, (ast.For, ast.While)) for w in ast.walk(lp)
        if isinstance(w, ast.While) and w is not lp]
    in_search = {id(x) for w in inner_whiles for x in ast.walk(w)}
    ALIAS: set[str] = set()
    POS: set[str] = set()
    for d in binds:
        v = d.value
        if id(d) in in_search and isinstance(v, ast.Subscript) and \
                isinstance(v.value, ast.Name) and v.value.id == items and \
                isinstance(v.slice, ast.Name):
            ALIAS.add(_t(d).id)
            POS.add(v.slice.id)
    # the cutting dimension: a name that indexes an item alias
    CD: set[str] = set()
    for n in ast.walk(fi.node):
        if isinstance(n, ast.Subscript) and isinstance(
                n.value, ast.Name) and n.value.id in ALIAS and id(
                n) in in_search:
            for x in ast.walk(n.slice):
                if isinstance(x, ast.Name):
                    CD.add(x.id)
    # names derived from the dimension by +/- (e.g. other = 1 - dim) are
    # not dimensions themselves; keep the ones that are assigned 0/1 forms
    CD = {c for c in CD if not any(
        _t(d).id == c and isinstance(d.value, ast.BinOp) and any(
            isinstance(x, ast.Name) and x.id in CD and x.id != c
            for x in ast.walk(d.value)) for d in binds)}
    # the step `I = (I + D) % n`: D is the direction, n the modulus
    DIR: set[str] = set()
    MODN: set[str] = set()
    for d in binds:
        if _t(d).id in POS and id(d) in in_search:
            for x in ast.walk(d.value):
                if isinstance(x, ast.BinOp) and isinstance(
                        x.op, ast.Add) and any(
                        isinstance(y, ast.Name) and y.id in POS
                        for y in (x.left, x.right)):
                    for y in (x.left, x.right):
                        if isinstance(y, ast.Name) and y.id not in POS:
                            DIR.add(y.id)
                if isinstance(x, ast.BinOp) and isinstance(
                        x.op, ast.Mod) and isinstance(x.right, ast.Name):
                    MODN.add(x.right.id)
    # the start of the scan: a name compared for equality with the position
    ORIG: set[str] = set()
    for n in ast.walk(fi.node):
        if isinstance(n, ast.Compare) and len(n.ops) == 1 and isinstance(
                n.ops[0], ast.Eq) and id(n) in in_search:
            names = [x.id for x in [n.left] + n.comparators
                     if isinstance(x, ast.Name)]
            if len(names) == 2 and any(x in POS for x in names):
                ORIG |= {x for x in names if x not in POS}
    # sizes read from an item are >= 1 (rule D17.5 keeps that invariant)
    SIZES = {_t(d).id for d in binds if isinstance(
        d.value, ast.Subscript) and isinstance(d.value.value, ast.Name)
        and d.value.value.id in ALIAS}
    SIZES = {z for z in SIZES if all(
        isinstance(d.value, ast.Subscript) and isinstance(
            d.value.value, ast.Name) and d.value.value.id in ALIAS
        for d in binds if _t(d).id == z)}
    if not (ALIAS and POS and CD and DIR and ORIG):
        ctx.ob("D17.8", fi, fi.node, False,
               "search protocol not recognised: no `item = items[i]` with a "
               "stepping position, a cutting dimension, a direction and a "
               f"wrap test found (position {sorted(POS)}, dimension "
               f"{sorted(CD)}, direction {sorted(DIR)}, start {sorted(ORIG)})",
               construct="search for a cuttable item")
        return

    def asg(name: str) -> list[ast.expr]:
        return [d.value for d in ast.walk(fi.node) if isinstance(
            d, (ast.Assign, ast.AnnAssign)) and d.value is not None and
            isinstance(d.targets[0] if isinstance(d, ast.Assign)
                       else d.target, ast.Name) and (
                d.targets[0] if isinstance(d, ast.Assign)
                else d.target).id == name]

    def domain(e: ast.expr, env: dict[str, set[int]],
               depth: int = 0) -> set[int] | None:
        c = repo.const(fi.module, e)
        if isinstance(c, int) and not isinstance(c, bool):
            return {c}
        if isinstance(e, ast.IfExp):
            a, b = domain(e.body, env, depth), domain(e.orelse, env, depth)
            return None if a is None or b is None else a | b
        if isinstance(e, ast.Name) and e.id in env:
            return env[e.id]
        if isinstance(e, ast.Name) and depth < 4:
            # a temporary: the union over its definitions
            ds = [domain(v_, env, depth + 1) for v_ in asg(e.id)]
            if ds and all(d_ is not None for d_ in ds):
                out: set[int] = set()
                for d_ in ds:
                    out |= d_
                return out
            return None
        if isinstance(e, ast.UnaryOp) and isinstance(e.op, ast.USub):
            a = domain(e.operand, env, depth)
            return None if a is None else {-x for x in a}
        if isinstance(e, ast.BinOp) and isinstance(e.op, (ast.Add, ast.Sub)):
            a, b = domain(e.left, env, depth), domain(e.right, env, depth)
            if a is None or b is None:
                return None
            return {x + y if isinstance(e.op, ast.Add) else x - y
                    for x in a for y in b}
        return None
    # the cutting dimension is 0 or 1 (an index into [width, height])
    cd_env = {c: {0, 1} for c in CD}
    for c in sorted(CD):
        for v in asg(c):
            v2 = v
            # int(<comparison>) is 0 or 1
            if isinstance(v, ast.Call) and isinstance(
                    v.func, ast.Name) and v.func.id == "int" and len(
                    v.args) == 1 and isinstance(
                    v.args[0], (ast.Compare, ast.BoolOp)):
                continue
            d = domain(v2, cd_env)
            if d is None or not d <= {0, 1}:
                problems.append(f"`{c} = {ast.unparse(v)}` can leave "
                                f"{{0, 1}} (values "
                                f"{sorted(d) if d else '?'})")
    for n in ast.walk(fi.node):
        if isinstance(n, ast.Subscript) and isinstance(
                n.value, ast.Name) and n.value.id in ALIAS and not (
                isinstance(n.slice, ast.Name) and n.slice.id in CD):
            d = domain(n.slice, cd_env)
            if d is None or not d <= {0, 1}:
                problems.append(f"`{ast.unparse(n)}` indexes outside "
                                "[width, height]")
    # the search direction is +1 or -1
    for dn in sorted(DIR):
        for v in asg(dn):
            d = domain(v, {})
            if d is None or not d <= {-1, 1}:
                problems.append(f"`{dn} = {ast.unparse(v)}`: with a step "
                                "other than +-1 the search can miss items "
                                "and never end")
    # the step: sel_i := (sel_i + sel_dir) mod n (possibly re-normalised)
    def strip(e: ast.expr) -> ast.expr:
        # ((A % n) + n) % n  ==  (n + (A % n)) % n  ==  A % n
        if isinstance(e, ast.BinOp) and isinstance(e.op, ast.Mod) and \
                isinstance(e.left, ast.BinOp) and isinstance(
                e.left.op, ast.Add):
            for a_, b_ in ((e.left.left, e.left.right),
                           (e.left.right, e.left.left)):
                if ast.unparse(b_) == ast.unparse(e.right) and isinstance(
                        a_, ast.BinOp) and isinstance(
                        a_.op, ast.Mod) and ast.unparse(
                        a_.right) == ast.unparse(e.right):
                    return a_
        return e
    steps = [(p_, v) for p_ in sorted(POS) for v in asg(p_) if any(
        isinstance(x, ast.Name) and (x.id in DIR or x.id in POS)
        for x in ast.walk(v))]
    if len(steps) < 2:
        problems.append("the step to the next item (sel_i + sel_dir) was "
                        "not found in both phases")
    from sa.symterm import Evaluator
    pev = Evaluator()
    for p_, v in steps:
        core = strip(v)
        ok = isinstance(core, ast.BinOp) and isinstance(
            core.op, ast.Mod) and isinstance(
            core.right, ast.Name) and core.right.id in MODN
        if ok:
            try:
                lhs = pev.num(Env(), core.left)
                ok = any(lhs == Poly.var(p_) + Poly.var(dn) for dn in DIR)
            except Unsupported:
                ok = False
        if not ok:
            problems.append(f"`{p_} = {ast.unparse(v)[:60]}` is not "
                            "(position + direction) mod n: not every item "
                            "is visited, the search may not end")
    # divisions / moduli by values that are >= 1 under their guards
    def walk(stmts: list[ast.stmt], facts: list[Any]) -> None:
        for s in stmts:
            if isinstance(s, ast.If):
                walk(s.body, facts + _lin_cond(s.test, True))
                walk(s.orelse, facts + _lin_cond(s.test, False))
                continue
            if isinstance(s, (ast.For, ast.While)):
                walk(s.body, list(facts))
                continue
            for n in ast.walk(s):
                if isinstance(n, ast.BinOp) and isinstance(
                        n.op, (ast.Mod, ast.FloorDiv)) and isinstance(
                        n.right, ast.Name) and n.right.id not in MODN \
                        and n.right.id not in SIZES and id(n) in in_search:
                    g = _lin_expr(n.right)
                    if g is None or not entails(facts, g - 1):
                        problems.append(
                            f"`{ast.unparse(n)[:50]}`: the divisor "
                            f"`{n.right.id}` is not known to be >= 1 here")
    walk(func_body(fi), [])
    # bounded search loops: `while v < K` needs v to advance when the scan
    # has wrapped around (sel_i == orig_sel_i)
    def bounded(t: ast.expr) -> str | None:
        """`v < K` / `K > v` with a constant K -> v."""
        if isinstance(t, ast.Compare) and len(t.ops) == 1:
            l_, r_, op = t.left, t.comparators[0], t.ops[0]
            if isinstance(op, (ast.Lt, ast.LtE)) and isinstance(
                    l_, ast.Name) and isinstance(
                    repo.const(fi.module, r_), int):
                return l_.id
            if isinstance(op, (ast.Gt, ast.GtE)) and isinstance(
                    r_, ast.Name) and isinstance(
                    repo.const(fi.module, l_), int):
                return r_.id
        return None

    def inc_of(a: ast.stmt, v: str) -> int | None:
        """The constant a statement adds to v (None: not such a step)."""
        if isinstance(a, ast.AugAssign) and isinstance(
                a.target, ast.Name) and a.target.id == v and isinstance(
                a.op, ast.Add):
            c = repo.const(fi.module, a.value)
            return c if isinstance(c, int) else None
        if isinstance(a, ast.Assign) and len(a.targets) == 1 and isinstance(
                a.targets[0], ast.Name) and a.targets[0].id == v and \
                isinstance(a.value, ast.BinOp) and isinstance(
                a.value.op, ast.Add):
            for x, y in ((a.value.left, a.value.right),
                         (a.value.right, a.value.left)):
                if isinstance(x, ast.Name) and x.id == v and isinstance(
                        repo.const(fi.module, y), int):
                    return repo.const(fi.module, y)
        return None
    for w in ast.walk(fi.node):
        if isinstance(w, ast.While) and bounded(w.test) is not None and any(
                isinstance(x, ast.Name) and x.id in ORIG
                for x in ast.walk(w)):
            v = bounded(w.test)
            writes = [a for a in ast.walk(w) if isinstance(
                a, (ast.Assign, ast.AnnAssign, ast.AugAssign)) and any(
                isinstance(t, ast.Name) and t.id == v for t in (
                    a.targets if isinstance(a, ast.Assign)
                    else [a.target]))]
            wraps = [i_ for i_ in ast.walk(w) if isinstance(i_, ast.If)
                     and isinstance(i_.test, ast.Compare) and isinstance(
                         i_.test.ops[0], ast.Eq) and len(
                         i_.test.comparators) == 1 and any(
                         ast.unparse(x) in ORIG for x in [i_.test.left]
                         + i_.test.comparators) and any(
                         ast.unparse(x) in POS for x in [i_.test.left]
                         + i_.test.comparators)]
            good = [a for a in writes if (inc_of(a, v) or 0) >= 1]
            in_wrap = any(any(a is x for x in ast.walk(
                ast.Module(body=i_.body, type_ignores=[])))
                for a in good for i_ in wraps)
            if len(good) != len(writes) or not in_wrap:
                problems.append(
                    f"the bounded search `while {ast.unparse(w.test)}` does "
                    f"not advance `{v}` when the scan has wrapped around: "
                    "it may never end")
    uniq = list(dict.fromkeys(problems))
    if len(uniq) >= 3:
        # most recognisers miss: the search is written differently, not
        # wrong in one place - nothing is claimed
        problems = ["the way the search for a cuttable item is written is "
                    "not recognised (" + "; ".join(uniq)[:400] + ")"]
    ctx.ob("D17.8", fi, fi.node, not problems,
           "the cutting dimension stays in {0, 1}, the search direction in "
           "{-1, +1}, the search steps to (sel_i + sel_dir) mod n and every "
           "modulus by cut_modulus happens under cut_modulus >= 1"
           if not problems else "; ".join(dict.fromkeys(problems)),
           construct="search for a cuttable item")


# ------------------------------------------------------------------ D17.9
def _zero_on_template(ctx: Ctx) -> None:
    """Every deviation term of instgen.Errors compares a statistic of the
    instance with the same statistic of the template."""
    repo = ctx.repo
    sp = repo.func(PKG + ".instance_space", "InstanceSpace.__init__")
    er = repo.func(PKG + ".errors", "Errors.evaluate")

    def src(n: ast.AST) -> str:
        return ast.unparse(n).replace(" ", "")
    srcp = sp.params[1]
    from sa.srcmodel import inline_locals as inline_locals_
    # ---- what each attribute of the space is, in terms of the template
    space_stat: dict[str, tuple] = {}
    for n in ast.walk(sp.node):
        if isinstance(n, (ast.Assign, ast.AnnAssign)) and n.value is not None:
            tg = n.targets[0] if isinstance(n, ast.Assign) else n.target
            if not (isinstance(tg, ast.Attribute) and src(tg.value)
                    == "self"):
                continue
            v = n.value
            while isinstance(v, ast.Call) and src(v.func) in (
                    "check_int_range", "int") and v.args:
                v = v.args[0]
            # hoisted column slices are looked through
            v = inline_locals_(sp.node, v)
            while isinstance(v, ast.Call) and src(v.func) in (
                    "check_int_range", "int") and v.args:
                v = v.args[0]
            if isinstance(v, ast.Attribute) and src(v.value) == srcp:
                space_stat[tg.attr] = ("attr", v.attr)
            elif isinstance(v, ast.Call) and src(v.func) in ("min", "max") \
                    and len(v.args) == 1 and isinstance(
                    v.args[0], ast.Subscript) and src(
                    v.args[0].value) == srcp:
                sl = v.args[0].slice
                if isinstance(sl, ast.Tuple) and len(sl.elts) == 2 and \
                        isinstance(sl.elts[0], ast.Slice):
                    space_stat[tg.attr] = (src(v.func), src(sl.elts[1]))
    # ---- the instance side
    body = func_body(er)
    xpar = er.params[1]
    inst = None
    local: dict[str, str] = {}
    for s in ast.walk(er.node):
        if isinstance(s, (ast.Assign, ast.AnnAssign)) and s.value is not None:
            tg = s.targets[0] if isinstance(s, ast.Assign) else s.target
            if isinstance(tg, ast.Name):
                local.setdefault(tg.id, src(s.value))
                v_ = src(s.value)
                if v_ == f"{xpar}[0]" or (
                        "isinstance" in v_ and f"{xpar}[0]" in v_):
                    inst = tg.id
    loop = next((s for s in body if isinstance(s, ast.For)), None)
    problems: list[str] = []
    # the local that holds the instance space (`space = self.space`)
    SPN = next((k for k, v in local.items() if v == "self.space"), "space")
    SPD = SPN + "."
    if inst is None or loop is None:
        ctx.ob("D17.9", er, er.node, False,
               "Errors.evaluate structure not recognised",
               construct="zero on the template")
        return
    # the accumulator: the local that the returned ratio is computed from
    from sa.srcmodel import inline_locals
    rets = [r for r in ast.walk(er.node) if isinstance(r, ast.Return)
            and r.value is not None]
    acc = "errors"
    if rets:
        rv = inline_locals(er.node, rets[-1].value, keep={inst})
        divs = [n for n in ast.walk(rv) if isinstance(n, ast.BinOp)
                and isinstance(n.op, ast.Div) and isinstance(
                    n.left, ast.Name)]
        if len(divs) == 1:
            acc = divs[0].left.id
    rowv = src(loop.target)
    it = src(inline_locals(er.node, loop.iter, keep={inst}))
    rows_ok = it == f"range({inst}.n_different_items)"
    if not rows_ok:
        problems.append("the statistics do not run over all rows of the "
                        "instance")
    col_of: dict[str, str] = {}
    fold: dict[str, tuple] = {}
    area_ok = False
    area_var = None

    def fold_if(s_: ast.stmt) -> tuple[str, str, str] | None:
        """`if v < m: m = v` (min) / `if v > m: m = v` (max), mirrored
        spellings included -> (m, kind, v)."""
        if not (isinstance(s_, ast.If) and not s_.orelse and len(
                s_.body) == 1 and isinstance(
                s_.body[0], ast.Assign) and isinstance(
                s_.body[0].targets[0], ast.Name) and isinstance(
                s_.body[0].value, ast.Name) and isinstance(
                s_.test, ast.Compare) and len(s_.test.ops) == 1):
            return None
        m_, v_ = s_.body[0].targets[0].id, s_.body[0].value.id
        l_, r_ = src(s_.test.left), src(s_.test.comparators[0])
        op = s_.test.ops[0]
        if {l_, r_} != {m_, v_}:
            return None
        less = isinstance(op, (ast.Lt, ast.LtE))
        greater = isinstance(op, (ast.Gt, ast.GtE))
        if not (less or greater):
            return None
        v_smaller = (less and l_ == v_) or (greater and l_ == m_)
        return (m_, "min" if v_smaller else "max", v_)
    for s in loop.body:
        if isinstance(s, (ast.Assign, ast.AnnAssign)) and s.value is not None:
            tg = s.targets[0] if isinstance(s, ast.Assign) else s.target
            v = s.value
            while isinstance(v, ast.Call) and src(v.func) == "int" and v.args:
                v = v.args[0]
            if isinstance(tg, ast.Name) and isinstance(
                    v, ast.Subscript) and src(v.value) == inst and isinstance(
                    v.slice, ast.Tuple) and src(v.slice.elts[0]) == rowv:
                col_of[tg.id] = src(v.slice.elts[1])
            elif isinstance(tg, ast.Name) and isinstance(
                    v, ast.Call) and src(v.func) in ("min", "max") and len(
                    v.args) == 2 and tg.id in [src(a) for a in v.args]:
                other = [src(a) for a in v.args if src(a) != tg.id]
                if len(other) == 1:
                    fold[tg.id] = (src(v.func), col_of.get(other[0], "?"))
        if isinstance(s, ast.Assign) and isinstance(
                s.targets[0], ast.Name) and isinstance(
                s.value, ast.IfExp) and isinstance(
                s.value.test, ast.Compare) and len(
                s.value.test.ops) == 1:
            # m = v if v < m else m   (and mirrored / swapped spellings)
            m_ = s.targets[0].id
            b_, o_ = src(s.value.body), src(s.value.orelse)
            l_, r_ = src(s.value.test.left), src(
                s.value.test.comparators[0])
            op_ = s.value.test.ops[0]
            if {b_, o_} == {l_, r_} and m_ in (b_, o_) and isinstance(
                    op_, (ast.Lt, ast.LtE, ast.Gt, ast.GtE)):
                v_ = b_ if o_ == m_ else o_
                less = isinstance(op_, (ast.Lt, ast.LtE))
                # the branch taken when the test holds is `b_`
                picks_smaller = (less and b_ == l_) or (
                    not less and b_ == r_)
                if v_ in col_of:
                    fold[m_] = ("min" if picks_smaller else "max",
                                col_of[v_])
        fi_ = fold_if(s)
        if fi_ is not None and fi_[2] in col_of:
            fold[fi_[0]] = (fi_[1], col_of[fi_[2]])
        if isinstance(s, ast.AugAssign) and isinstance(s.op, ast.Add) and \
                isinstance(s.target, ast.Name) and s.target.id != acc:
            names = sorted(col_of.get(x.id, x.id) for x in ast.walk(s.value)
                           if isinstance(x, ast.Name))
            if names == ["IDX_HEIGHT", "IDX_REPETITION", "IDX_WIDTH"] \
                    and all(isinstance(x, (ast.Name, ast.BinOp, ast.Mult,
                                           ast.Load))
                            for x in ast.walk(s.value)):
                area_ok = True
                area_var = s.target.id
    # initial values of the folds must be neutral
    for v, (kind, c) in fold.items():
        init = local.get(v, "")
        # a start value held in a local (`w0 = space.bin_width`)
        if init in local and local[init].startswith(SPD):
            init = local[init]
        neutral = (kind == "max" and init == "0") or (
            kind == "min" and init in (SPD + "bin_width", SPD + "bin_height")
            and ("WIDTH" in c) == init.endswith("width"))
        if not neutral:
            problems.append(f"`{v}` starts at `{init}`, which is not "
                            f"neutral for the {kind} over column {c}")
    # ---- every |A - B| term pairs matching statistics
    n_terms = 0
    adds: list[ast.expr] = []
    for s in ast.walk(er.node):
        if isinstance(s, ast.AugAssign) and src(s.target) == acc and \
                isinstance(s.op, ast.Add):
            adds.append(s.value)
        elif isinstance(s, (ast.Assign, ast.AnnAssign)) and \
                s.value is not None and src(
                s.targets[0] if isinstance(s, ast.Assign)
                else s.target) == acc:
            adds.append(s.value)

    def abs_terms(e: ast.expr) -> list[ast.Call] | None:
        """e as a sum of abs(...) calls (and the accumulator / 0)."""
        if isinstance(e, ast.BinOp) and isinstance(e.op, ast.Add):
            a_, b_ = abs_terms(e.left), abs_terms(e.right)
            return None if a_ is None or b_ is None else a_ + b_
        if isinstance(e, ast.Call) and src(e.func) == "abs" and len(
                e.args) == 1:
            return [e]
        if isinstance(e, ast.Name) and e.id == acc:
            return []
        if isinstance(e, ast.Constant) and e.value == 0:
            return []
        return None
    for e in adds:
        terms = abs_terms(e)
        if terms is None:
            continue            # a range penalty (checked below)
        for call_ in terms:
            d = call_.args[0]
            if not (isinstance(d, ast.BinOp) and isinstance(d.op, ast.Sub)):
                problems.append(f"`{src(call_)}` is not a difference")
                continue
            n_terms += 1
            a, b = src(d.left), src(d.right)
            a = local.get(a, a) if a in local and a not in fold and \
                a != area_var else a
            b = local.get(b, b) if b in local and b not in fold and \
                b != area_var else b
            if not b.startswith(SPD):
                a, b = b, a
            attr = b[len(SPD):] if b.startswith(SPD) else None
            st = space_stat.get(attr or "")
            if st is None:
                problems.append(f"`{src(call_)}`: the goal `{b}` is not an "
                                "attribute computed from the template")
                continue
            if a.startswith(inst + "."):
                ok = st == ("attr", a[len(inst) + 1:])
            elif a in fold:
                ok = st == fold[a]
            elif a == area_var:
                ok = st == ("attr", "total_item_area") and area_ok
            else:
                ok = False
            if not ok:
                problems.append(
                    f"`{src(call_)}` compares `{a}` with the template's "
                    f"{st}: not the same statistic")
    if n_terms < 9:
        problems.append(f"only {n_terms} deviation terms found (bin width, "
                        "bin height, n_items, n_different, 4 extremes, "
                        "area)")
    # ---- range penalties only for rows outside the goal range
    for s in ast.walk(loop):
        if isinstance(s, ast.If) and fold_if(s) is None:
            chain = [s] + ([s.orelse[0]] if len(s.orelse) == 1 and isinstance(
                s.orelse[0], ast.If) else [])
            for c in chain:
                t = c.test
                if not (isinstance(t, ast.Compare) and len(t.ops) == 1 and
                        len(c.body) == 1 and isinstance(
                        c.body[0], ast.AugAssign) and src(
                        c.body[0].target) == acc):
                    continue
                w, g = src(t.left), src(t.comparators[0])
                lo = isinstance(t.ops[0], ast.Lt)
                hi = isinstance(t.ops[0], ast.Gt)
                if w not in col_of and g in col_of:
                    # mirrored: goal > width  ==  width < goal
                    w, g = g, w
                    lo, hi = hi, lo
                gv = local.get(g, g)
                st = space_stat.get(gv[len(SPD):]) if gv.startswith(
                    SPD) else None
                amt = c.body[0].value
                names = {x.id for x in ast.walk(amt)
                         if isinstance(x, ast.Name)}
                okp = st is not None and col_of.get(w) == st[1] and (
                    (lo and st[0] == "min") or (hi and st[0] == "max")) \
                    and {w, g} <= names
                if not okp:
                    problems.append(
                        f"`if {src(t)}: {src(c.body[0])}` is not a penalty "
                        "for leaving the template's range of that "
                        "dimension")
    definite = [p_ for p_ in problems if "which is not neutral" in p_
                or "not the same statistic" in p_]
    if problems and not definite:
        problems = ["the way Errors.evaluate accumulates its deviation "
                    "terms is not recognised: " + "; ".join(
                        dict.fromkeys(problems))[:600]]
    ctx.ob("D17.9", er, er.node, not problems,
           f"all {n_terms} deviation terms compare a statistic of the "
           "instance with the same statistic of the template (attributes, "
           "min/max folds over the same column with neutral start values, "
           "sum of n*w*h), and rows are only penalised outside the "
           "template's own range: every term vanishes on the template"
           if not problems else "; ".join(dict.fromkeys(problems))[:900],
           construct="zero on the template")



# ----------------------------------------------------------------- D17.11
_CONSUMERS = {"tuple", "list", "set", "frozenset", "sorted", "sum", "max",
              "min", "any", "all", "map", "filter", "zip", "enumerate",
              "iter", "next", "dict", "reversed"}


def _single_pass(ctx: Ctx) -> None:
    """The constructors of the instance-generation objectives declare
    `executors: Iterable[...]`: a generator is a legal argument and can be
    traversed once.  Every such parameter is consumed at most once before it
    is re-bound to a materialised collection (a second traversal would see
    nothing: zero runs, division by zero in `evaluate`)."""
    repo = ctx.repo
    n = 0
    for fi in repo.all_funcs():
        if not fi.module.name.startswith(
                "moptipyapps.binpacking2d.instgen"):
            continue
        a = fi.node.args
        for arg in a.posonlyargs + a.args + a.kwonlyargs:
            ann = ast.unparse(arg.annotation) if arg.annotation else ""
            if not ann.startswith("Iterable"):
                continue
            n += 1
            p = arg.arg
            uses: list[ast.AST] = []
            rebound_at = None
            for st in ast.walk(fi.node):
                if isinstance(st, (ast.For, ast.comprehension)) and \
                        isinstance(st.iter, ast.Name) and st.iter.id == p:
                    uses.append(st)
                elif isinstance(st, ast.Call) and isinstance(
                        st.func, ast.Name) and st.func.id in _CONSUMERS \
                        and any(isinstance(x, ast.Name) and x.id == p
                                for x in st.args):
                    uses.append(st)
                elif isinstance(st, ast.Starred) and isinstance(
                        st.value, ast.Name) and st.value.id == p:
                    uses.append(st)
            for st in ast.walk(fi.node):
                if isinstance(st, (ast.Assign, ast.AnnAssign)) and any(
                        isinstance(t, ast.Name) and t.id == p for t in (
                            st.targets if isinstance(st, ast.Assign)
                            else [st.target])):
                    rebound_at = st.lineno
            before = [u for u in uses if rebound_at is None
                      or getattr(u, "lineno", 0) <= rebound_at]
            ok = len(before) <= 1
            ctx.ob("D17.11", fi, before[1] if len(before) > 1 else fi.node,
                   ok, f"{fi.qualname}: `{p}: {ann[:30]}` is traversed "
                   f"{len(before)} time(s)" + ("" if ok else
                                               " before it is materialised: "
                                               "a one-shot iterable "
                                               "(generator, map) is empty "
                                               "the second time"),
                   construct=f"single pass over {p} in {fi.qualname}",
                   nontrivial=False)
    ctx.count("iterable_parameters", n)



# ----------------------------------------------------------------- D17.12
_RNG_METHODS = {"shuffle", "permutation", "permuted", "integers", "random",
                "choice", "normal", "uniform", "standard_normal", "bytes"}


def _local_generator(ctx: Ctx) -> None:
    """"Decoding the same vector again gives the same instance": a random
    generator that lives in a field of the decoder keeps its state from one
    `decode` to the next, so the result would depend on the call history.
    Every RNG method call in `decode` is on a generator made in `decode`."""
    repo = ctx.repo
    fi = repo.func("moptipyapps.binpacking2d.instgen.inst_decoding",
                   "InstanceDecoder.decode")
    n = 0
    for c in ast.walk(fi.node):
        if not (isinstance(c, ast.Call) and isinstance(
                c.func, ast.Attribute) and c.func.attr in _RNG_METHODS):
            continue
        recv = c.func.value
        root = recv
        while isinstance(root, (ast.Attribute, ast.Subscript)):
            root = root.value
        is_rng_call = isinstance(recv, ast.Call) and ast.unparse(
            recv.func).split(".")[-1] in ("default_rng", "Generator",
                                          "RandomState")
        local = isinstance(recv, ast.Name) and any(
            isinstance(st, (ast.Assign, ast.AnnAssign)) and isinstance(
                getattr(st, "value", None), ast.Call) and ast.unparse(
                st.value.func).split(".")[-1] in ("default_rng", "Generator",
                                                  "RandomState")
            and any(isinstance(t, ast.Name) and t.id == recv.id for t in (
                st.targets if isinstance(st, ast.Assign) else [st.target]))
            for st in ast.walk(fi.node))
        on_self = isinstance(root, ast.Name) and root.id == "self"
        if not (is_rng_call or local or on_self):
            continue            # not a generator (e.g. list.random ...)
        n += 1
        ok = is_rng_call or local
        ctx.ob("D17.12", fi, c, ok,
               f"`{ast.unparse(c)[:70]}` draws from a generator created in "
               "decode()" if ok else
               f"`{ast.unparse(c)[:70]}` draws from a generator kept in the "
               "decoder object: its state carries over from one decode() "
               "to the next, so the same vector no longer gives the same "
               "instance", construct="generator of decode", nontrivial=False)
    ctx.floor("decode_rng_calls", n, 1)
