"""C18 - TSPLIB and tour files load to the matrices the format prescribes."""
from __future__ import annotations

import ast
from fractions import Fraction
from typing import Any

from sa.kern import make_evaluator
from sa.report import Ctx
from sa.srcmodel import FuncInfo, func_body
from sa.symterm import Env, Evaluator, Poly, Unsupported, ite, show

MOD = "moptipyapps.tsp.instance"


def _app(fn: str, *args: Poly) -> Poly:
    return Poly.atom(("app", fn, tuple(args)))


def _cell(a: str, i: int) -> Poly:
    return Poly.atom(("cell", a, (Poly.const(i),)))


def run(ctx: Ctx) -> None:
    ctx.explanation = (
        "D18.1: the four coordinate distance functions are normalised "
        "symbolically and must equal the TSPLIB95 definitions (nint(sqrt), "
        "ceil(sqrt), ATT pseudo-Euclidean, GEO with PI=3.141592, "
        "RRR=6378.388, truncating degrees), and the EDGE_WEIGHT_TYPE table "
        "must map each type name to the function matching its formula. "
        "D18.2: each explicit-format index walker is a state machine whose "
        "start state and step function equal the successor function of the "
        "corresponding triangular enumeration (decided on all orderings of "
        "the compared quantities), with symmetric stores, untouched "
        "diagonal and the matching element count. D18.3: the writer emits "
        "only keys the reader handles, chooses UPPER_ROW iff symmetric and "
        "writes row i as self[i][i+1:] (the UPPER_ROW walker's order). "
        "D18.4: the tour parser rejects duplicates and wrong sizes and "
        "stores node-1. Not decided: arbitrary line wrapping, the shipped "
        "tours' lengths." " D18.5: a coordinate section "
        "becomes the symmetric n x n matrix of dist_func over all pairs j < "
        "i, rows validated (running index, dimension + 1 entries) and "
        "counted, dispatched with (n_cities, 2, stream, function) only "
        "under the matching EDGE_WEIGHT_TYPE. D18.6: every token of every "
        "line is converted and handed on exactly once (CFG must-pass), "
        "exactly n integral values are read. D18.7: header lines are split "
        "at the first colon, the six keys store their value under `key == "
        "KEY`, reach the section readers in the parameters they name, "
        "sections are dispatched by title, only EOF ends the file."
        )
    for rid, txt in (("D18.1", "distance functions == TSPLIB95"),
                     ("D18.2", "explicit format walkers"),
                     ("D18.3", "writer/reader agreement"),
                     ("D18.4", "tour parser checks")):
        ctx.rule(rid, txt)
    formulas = _distance_functions(ctx)
    _type_table(ctx, formulas)
    _walkers(ctx)
    _writer(ctx)
    _tour_parser(ctx)
    ctx.rule("D18.5", "coordinate section -> symmetric matrix of the "
             "distance function over all pairs")
    _points_to_matrix(ctx)
    ctx.rule("D18.6", "every token is converted and handed on exactly once; "
             "exactly n integers are read")
    _number_reading(ctx)
    ctx.rule("D18.7", "header keys reach the section readers in the "
             "parameters they name")
    _header(ctx)
    ctx.exhaustive = True
    ctx.assumptions += [
        "TSPLIB95 (Reinelt) distance definitions; GEO degrees are "
        "truncated (int), as in the TSPLIB FAQ and reference "
        "implementation",
        "float arithmetic treated as real arithmetic",
    ]


# ------------------------------------------------------------------ D18.1
def _nint_ok(ctx: Ctx) -> FuncInfo:
    """Path by path: where the value is known to be an int it is returned
    unchanged, where it is known to be a float int(v + 0.5) is returned, no
    other path returns."""
    from sa.pathinline import paths
    from sa.srcmodel import func_body as _fb
    fi = ctx.repo.func(MOD, "__nint")
    p = fi.params[0]
    ok_int = ok_float = False
    other: list[str] = []
    try:
        ps = [q for q in paths(_fb(fi)) if q.ended == "return"]
    except ValueError:
        ps = []
    for q in ps:
        facts: dict[str, bool] = {}
        for t, tr in q.guards:
            while isinstance(t, ast.UnaryOp) and isinstance(t.op, ast.Not):
                t, tr = t.operand, not tr
            if isinstance(t, ast.Call) and ast.unparse(
                    t.func) == "isinstance" and len(
                    t.args) == 2 and ast.unparse(t.args[0]) == p:
                facts[ast.unparse(t.args[1])] = tr
        ev = next((e for e in reversed(q.events) if e.kind == "return"),
                  None)
        v = ev.value if ev is not None else None
        if v is None:
            other.append("a path returns nothing")
        elif facts.get("int") is True:
            if ast.unparse(v) == p:
                ok_int = True
            else:
                other.append(f"an integer is returned as "
                             f"`{ast.unparse(v)[:40]}`")
        elif facts.get("float") is True:
            okf = False
            if isinstance(v, ast.Call) and ast.unparse(
                    v.func) == "int" and len(v.args) == 1 and isinstance(
                    v.args[0], ast.BinOp) and isinstance(
                    v.args[0].op, ast.Add):
                l_, r_ = v.args[0].left, v.args[0].right
                okf = any(
                    isinstance(a_, ast.Name) and a_.id == p
                    and ctx.repo.const(fi.module, b_) == 0.5
                    for a_, b_ in ((l_, r_), (r_, l_)))
            if okf:
                ok_float = True
            else:
                other.append(f"a float is rounded by "
                             f"`{ast.unparse(v)[:40]}`")
        else:
            other.append("a value that is neither known to be an int nor "
                         "a float is returned")
    ok = ok_int and ok_float and not other
    ctx.ob("D18.1", fi, fi.node, ok,
           "nint(v) = v for integers and int(v + 0.5) otherwise" + (
               "" if ok else ": " + ("; ".join(dict.fromkeys(other))
                                      or "no such paths found")),
           construct="nint")
    return fi


def _evaluator(ctx: Ctx, fi: FuncInfo, nint: FuncInfo) -> Evaluator:
    repo = ctx.repo

    def hook(ev: Evaluator, env: Env, n: ast.Call) -> Any:
        if isinstance(n.func, ast.Name):
            r = repo.resolve(fi.module, n.func.id)
            if r is nint and len(n.args) + len(n.keywords) == 1:
                return _app("nint", ev.num(env, (
                    n.args[0] if n.args else n.keywords[0].value)))
            if n.func.id == "int" and len(n.args) == 1:
                return _app("int", ev.num(env, n.args[0]))
        fn = n.func.id if isinstance(n.func, ast.Name) else (
            n.func.attr if isinstance(n.func, ast.Attribute) and isinstance(
                n.func.value, ast.Name) and n.func.value.id == "math"
            else None)
        if fn in ("radians", "degrees") and len(n.args) == 1 and \
                not n.keywords:
            # math.radians(x) = x * pi / 180 with the double closest to pi
            import math
            k = Fraction(math.pi) / 180
            return ev.num(env, n.args[0]).scale(
                k if fn == "radians" else 1 / k)
        return NotImplemented
    return make_evaluator(repo, fi, extra_call=hook)


def _distance_functions(ctx: Ctx) -> dict[str, str]:
    """function name -> TSPLIB type it implements."""
    repo = ctx.repo
    nint = _nint_ok(ctx)
    a0, a1, b0, b1 = _cell("a", 0), _cell("a", 1), _cell("b", 0), \
        _cell("b", 1)
    d2 = (a0 - b0) * (a0 - b0) + (a1 - b1) * (a1 - b1)
    euc = _app("nint", _app("sqrt", d2))
    r_ceil = _app("sqrt", d2)
    ceil = ite(("eq", *sorted((_app("int", r_ceil), r_ceil),
                              key=lambda p: repr(p.key()))),
               _app("int", r_ceil), _app("int", r_ceil) + Poly.const(1))
    r_att = _app("sqrt", d2.scale(Fraction(1, 10)))
    t_att = _app("nint", r_att)
    att = ite(("lt", t_att, r_att), t_att + Poly.const(1), t_att)

    def rad(x: Poly) -> Poly:
        deg = _app("int", x)
        return (deg + (x - deg).scale(Fraction(5, 3))).scale(
            Fraction("3.141592") / 180)
    lat1, lon1, lat2, lon2 = rad(a0), rad(a1), rad(b0), rad(b1)
    q1 = _app("cos", lon1 - lon2)
    q2 = _app("cos", lat1 - lat2)
    q3 = _app("cos", lat1 + lat2)
    one = Poly.const(1)
    geo = _app("int", _app("acos", ((one + q1) * q2 - (one - q1) * q3
                                    ).scale(Fraction(1, 2))).scale(
        Fraction("6378.388")) + one)
    refs = {"EUC_2D": euc, "CEIL_2D": ceil, "ATT": att, "GEO": geo}
    out: dict[str, str] = {}
    funcs = [f for f in repo.module(MOD).funcs.values()
             if f.name.startswith("__dist_")]
    ctx.floor("distance_functions", len(funcs), 4)
    for fi in funcs:
        ev = _evaluator(ctx, fi, nint)
        env = Env()
        env.vars["a"] = ("array", "a")
        env.vars["b"] = ("array", "b")
        try:
            got = ev.block(env, func_body(fi)).returned
        except Unsupported as u:
            ctx.ob("D18.1", fi, u.node or fi.node, False,
                   f"cannot normalise: {u}", construct=f"{fi.name}")
            continue
        # `cos` is even: normalise cos(-x) by trying both argument signs
        match = None
        for ty, ref in refs.items():
            if isinstance(got, Poly) and (got == ref or _cos_equal(
                    got, ref)):
                match = ty
        if match is not None:
            out[fi.name] = match
        ctx.ob("D18.1", fi, fi.node, match is not None,
               f"{fi.name} == TSPLIB95 {match}" if match else
               f"{fi.name} = {show(got)[:200]} matches none of the "
               "TSPLIB95 distance definitions", construct=f"{fi.name}")
    return out


def _cos_equal(a: Poly, b: Poly) -> bool:
    """Equality up to cos(x) = cos(-x)."""
    from sa.symterm import all_atoms

    def norm(p: Poly) -> Poly:
        sub = {}
        for at in all_atoms(p):
            if at[0] == "app" and at[1] == "cos":
                x = norm(at[2][0])
                key_pos = repr(x.key())
                key_neg = repr((-x).key())
                y = x if key_pos <= key_neg else -x
                sub[at] = Poly.atom(("app", "cos", (y,)))
            elif at[0] == "app" and at[1] in ("acos", "int", "sqrt"):
                sub[at] = Poly.atom(("app", at[1], tuple(
                    norm(x) for x in at[2])))
        return p.subst(sub) if sub else p
    try:
        return norm(a) == norm(b)
    except RecursionError:
        return False


def _const_truth(t: ast.expr, funcs: set[str]) -> bool | None:
    """Truth of a guard whose locals were inlined, where it is decided by
    constants: `None is None`, `f is not None` (f a module-level function),
    and / or / not of those."""
    if isinstance(t, ast.BoolOp):
        vs = [_const_truth(v, funcs) for v in t.values]
        if isinstance(t.op, ast.And):
            return False if False in vs else (
                True if all(v is True for v in vs) else None)
        return True if True in vs else (
            False if all(v is False for v in vs) else None)
    if isinstance(t, ast.UnaryOp) and isinstance(t.op, ast.Not):
        v = _const_truth(t.operand, funcs)
        return None if v is None else not v
    if isinstance(t, ast.Compare) and len(t.ops) == 1 and isinstance(
            t.ops[0], (ast.Is, ast.IsNot)):
        def kind(e: ast.expr) -> str | None:
            if isinstance(e, ast.Constant):
                return "none" if e.value is None else "obj"
            if isinstance(e, ast.Name) and e.id in funcs:
                return "obj"
            return None
        ka, kb = kind(t.left), kind(t.comparators[0])
        if ka is None or kb is None or "none" not in (ka, kb):
            return None
        same = ka == kb
        return same if isinstance(t.ops[0], ast.Is) else not same
    return None


def _pos_atoms(guards: tuple) -> list[ast.expr]:
    """The atoms that hold on a path: conjuncts of tests taken as true,
    negated disjuncts of tests taken as false."""
    out: list[ast.expr] = []

    def add(t: ast.expr, truth: bool) -> None:
        if isinstance(t, ast.UnaryOp) and isinstance(t.op, ast.Not):
            add(t.operand, not truth)
        elif isinstance(t, ast.BoolOp) and isinstance(
                t.op, ast.And if truth else ast.Or):
            for v in t.values:
                add(v, truth)
        elif truth:
            out.append(t)
        elif isinstance(t, ast.Compare) and len(t.ops) == 1 and isinstance(
                t.ops[0], ast.NotEq):
            out.append(ast.Compare(left=t.left, ops=[ast.Eq()],
                                   comparators=t.comparators))
    for t, truth in guards:
        add(t, truth)
    return out


def _type_table(ctx: Ctx, formulas: dict[str, str]) -> None:
    """Path by path through the dispatcher: every feasible path that builds
    the matrix hands `__matrix_from_points` a distance function, and the
    path condition contains `edge_weight_type == T` for the TSPLIB type T
    whose formula that function implements."""
    from sa.pathinline import paths
    repo = ctx.repo
    fi = repo.func(MOD, "_matrix_from_node_coord_section")
    mod = fi.module
    EWT = fi.params[1] if len(fi.params) > 1 else "edge_weight_type"
    funcs = set(formulas)
    all_dist = {f.name for f in repo.module(MOD).funcs.values()
                if f.name.startswith("__dist_")}
    partial = False
    seen: set[str] = set()
    done: set[str] = set()
    builds = 0
    bad_guard: list[str] = []
    unknown: list[str] = []
    try:
        ps = paths(func_body(fi))
    except ValueError:
        ps = []
        unknown.append("too many paths")
    for p in ps:
        if any(_const_truth(t, all_dist) is (not truth)
               for t, truth in p.guards):
            continue            # infeasible
        for e in p.events:
            calls = [c for c in ast.walk(e.value) if isinstance(c, ast.Call)
                     and isinstance(c.func, ast.Name)
                     and "matrix_from_points" in c.func.id] \
                if isinstance(e.value, ast.AST) else []
            for c in calls:
                builds += 1
                d = c.args[3] if len(c.args) >= 4 and not c.keywords \
                    else None
                if isinstance(d, ast.Constant) and d.value is None:
                    bad_guard.append("a path with the conditions "
                                     + " and ".join(
                                         ("" if tr else "not ")
                                         + f"({ast.unparse(t)[:60]})"
                                         for t, tr in p.guards[-3:]))
                    continue
                if isinstance(d, ast.Name) and d.id in all_dist and \
                        d.id not in funcs:
                    partial = True      # reported by the formula rule
                    continue
                if not (isinstance(d, ast.Name) and d.id in funcs):
                    unknown.append(ast.unparse(d) if d is not None
                                   else ast.unparse(c)[:60])
                    continue
                fn = d.id
                ty = None
                for a_ in _pos_atoms(p.guards):
                    if isinstance(a_, ast.Compare) and len(
                            a_.ops) == 1 and isinstance(a_.ops[0], ast.Eq):
                        for x, y in ((a_.left, a_.comparators[0]),
                                     (a_.comparators[0], a_.left)):
                            if isinstance(x, ast.Name) and x.id == EWT:
                                v = repo.const(mod, y)
                                if isinstance(v, str):
                                    ty = v
                ok = ty is not None and formulas.get(fn) == ty
                if ty is not None:
                    seen.add(ty)
                key = f"{fn}/{ty}/{ok}"
                if key in done:
                    continue
                done.add(key)
                ctx.ob("D18.1", fi, e.node, ok,
                       f"EDGE_WEIGHT_TYPE {ty!r} uses {fn}, which "
                       f"implements {formulas.get(fn, 'no TSPLIB formula')}"
                       if ty is not None else
                       f"{fn} (implementing {formulas.get(fn, '?')}) is "
                       "handed to the matrix builder on a path whose "
                       "conditions do not require the matching "
                       "EDGE_WEIGHT_TYPE",
                       construct=f"type table {formulas.get(fn, fn)}")
    n = len(seen)
    ctx.count("edge_weight_types", n)
    miss = sorted(set(formulas.values()) - seen)
    if unknown or not builds:
        ctx.ob("D18.1", fi, fi.node, False,
               "the dispatch from EDGE_WEIGHT_TYPE to the distance function "
               "is not recognised (" + ("; ".join(unknown[:3]) or
                                        "no call of the matrix builder")
               + ")", construct="type table shape")
    ctx.ob("D18.1", fi, fi.node,
           (not miss and n >= 4) or bool(unknown) or partial,
           "every implemented TSPLIB distance type has its branch" if
           not miss and n >= 4 else
           f"no branch selects a distance function for {miss}",
           construct="type table complete")
    ctx.ob("D18.1", fi, fi.node, not bad_guard,
           "the matrix is built only when a distance function was selected"
           if not bad_guard else "the matrix can be built without a "
           "selected distance function: " + bad_guard[0],
           construct="dispatch guard")


# ------------------------------------------------------------------ D18.2
def _walkers(ctx: Ctx) -> None:
    repo = ctx.repo
    fi = repo.func(MOD, "_matrix_from_edge_weights")
    mod = fi.module
    n = Poly.var("n_cities")
    tri = _app("floordiv", n * (n - Poly.const(1)), Poly.const(2))
    i, j = Poly.var("i"), Poly.var("j")
    one, zero = Poly.const(1), Poly.const(0)
    spec = {
        "UPPER_ROW": {"start": (one, zero), "count": tri, "diag": False,
                      "succ": lambda: (
                          ite(("lt", i + one, n), i + one, j + Poly.const(2)),
                          ite(("lt", i + one, n), j, j + one))},
        "LOWER_DIAG_ROW": {"start": (zero, zero), "count": n + tri,
                           "diag": True, "succ": lambda: (
                               ite(("le", i + one, j), i + one, zero),
                               ite(("le", i + one, j), j, j + one))},
        "UPPER_DIAG_ROW": {"start": (zero, zero), "count": n + tri,
                           "diag": True, "succ": lambda: (
                               ite(("lt", i + one, n), i + one, j + one),
                               ite(("lt", i + one, n), j, j + one))},
    }
    found = set()
    from sa.casesplit import Splitter, describe
    from sa.pathinline import Path, paths
    from sa.symterm import c_not
    fmt_par = fi.params[3] if len(fi.params) > 3 else "edge_weight_format"
    fmt_par = next((p_ for p_ in fi.params if "format" in p_), fmt_par)
    all_paths = paths(func_body(fi))
    ev = make_evaluator(repo, fi)
    ev.int_transparent = True

    def fmt_of(q: Any) -> tuple[str | None, bool]:
        """(format constant a path is selected for, selected by ==)."""
        sel = None
        eq_ok = True
        for tst, truth in q.guards:
            if isinstance(tst, ast.Compare) and len(tst.ops) == 1 and \
                    isinstance(tst.left, ast.Name) and \
                    tst.left.id == fmt_par:
                c = repo.const(mod, tst.comparators[0])
                if truth and isinstance(c, str):
                    sel = c
                    eq_ok = isinstance(tst.ops[0], ast.Eq)
                elif not truth and isinstance(tst.ops[0], ast.NotEq) and \
                        isinstance(c, str):
                    sel = c
        return sel, eq_ok
    by_fmt: dict[str, list[Any]] = {}
    for q in all_paths:
        f_, eq_ok = fmt_of(q)
        if f_ is not None and q.ended == "return":
            by_fmt.setdefault(f_, []).append((q, eq_ok))
    nenv = Env()
    for fmt, qs in sorted(by_fmt.items()):
        q, eq_ok = qs[0]
        node = next((e.node for e in q.events if e.kind == "return"),
                    fi.node)
        ctx.ob("D18.2", fi, node, eq_ok and len(qs) == 1,
               f"the {fmt} reader is selected exactly for "
               f"EDGE_WEIGHT_FORMAT == {fmt!r}" if eq_ok and len(qs) == 1
               else f"the {fmt} reader is not selected by one equality "
               "test", construct=f"format dispatch {fmt}")
        ret = next((e for e in q.events if e.kind == "return"), None)
        loops = [e for e in q.events if e.kind == "loop"]
        if fmt == "FULL_MATRIX":
            found.add(fmt)
            ok = False
            # the returned matrix: np.array(__read_n_ints(n*n, ..)).reshape(
            # (n, n)), possibly through a local that is post-processed
            rv = ret.value if ret is not None else None
            from sa.pathinline import subst
            for _ in range(4):
                if rv is None or not any(
                        isinstance(x, ast.Name) and x.id in q.objs
                        for x in ast.walk(rv)):
                    break
                rv = subst(rv, q.objs)
            for c_ in ast.walk(rv) if rv is not None else []:
                if isinstance(c_, ast.Call) and isinstance(
                        c_.func, ast.Attribute) and \
                        c_.func.attr == "reshape" and len(c_.args) == 1:
                    reads = [r for r in ast.walk(c_.func.value)
                             if isinstance(r, ast.Call) and ast.unparse(
                                 r.func).endswith("__read_n_ints")]
                    try:
                        shp = ev.expr(nenv, c_.args[0])
                        cnt = ev.num(nenv, reads[0].args[0]) if len(
                            reads) == 1 else None
                        ok = shp == (n, n) and cnt == n * n
                    except Unsupported:
                        ok = False
            ctx.ob("D18.2", fi, node, ok,
                   "FULL_MATRIX reads n*n numbers and reshapes them to "
                   "(n, n) row by row", construct="walker FULL_MATRIX",
                   nontrivial=False)
            continue
        if fmt not in spec:
            continue
        found.add(fmt)
        spc = spec[fmt]
        if len(loops) != 1 or not isinstance(loops[0].node, ast.For):
            ctx.ob("D18.2", fi, node, False, f"{fmt}: no loop over the "
                   "numbers", construct=f"walker {fmt} step")
            continue
        le = loops[0]
        loop = le.node
        # how many numbers are read: the iterated value, inlined
        count = None
        reads = [r for r in ast.walk(le.value) if isinstance(r, ast.Call)
                 and ast.unparse(r.func).endswith("__read_n_ints")]
        if len(reads) != 1:
            ctx.ob("D18.2", fi, loop, False,
                   f"{fmt}: the loop `for ... in {ast.unparse(le.value)[:60]}"
                   "` is not a walk over the numbers read; the walker is "
                   "not recognised", construct=f"walker {fmt} shape")
            continue
        if len(reads) == 1:
            try:
                count = ev.num(nenv, reads[0].args[0])
            except Unsupported:
                count = None
        okc = count == spc["count"]
        ctx.ob("D18.2", fi, loop, okc,
               f"{fmt}: reads {show(count) if count is not None else '?'} "
               f"numbers; the format has {show(spc['count'])}",
               construct=f"walker {fmt} count")
        # the two index variables: those used to address the matrix
        idx_names: list[str] = []
        for x in ast.walk(loop):
            if isinstance(x, ast.Subscript) and isinstance(
                    x.ctx, ast.Store) and isinstance(x.slice, ast.Tuple):
                for e_ in x.slice.elts:
                    if isinstance(e_, ast.Name) and \
                            e_.id not in idx_names:
                        idx_names.append(e_.id)
        bq = paths(loop.body, Path(env=dict(le.extra)))
        # role: the variable that is stepped by one on the path that stays
        # in the row is `i`, the other `j`
        roles = None
        for a_, b_ in ((idx_names + ["?", "?"])[:2],
                       (idx_names + ["?", "?"])[1::-1]):
            try:
                s_i = ev.num(nenv, le.pre[a_]) if a_ in le.pre else None
                s_j = ev.num(nenv, le.pre[b_]) if b_ in le.pre else None
            except Unsupported:
                s_i = s_j = None
            if (s_i, s_j) == spc["start"]:
                roles = (a_, b_)
                break
        start_ok = roles is not None
        if roles is None and len(idx_names) == 2 and spc["start"][0] == \
                spc["start"][1]:
            roles = (idx_names[0], idx_names[1])
        ctx.ob("D18.2", fi, loop, start_ok,
               f"{fmt}: starts at (i, j) = ({show(spc['start'][0])}, "
               f"{show(spc['start'][1])})" if start_ok else
               f"{fmt}: the walk does not start at (i, j) = "
               f"({show(spc['start'][0])}, {show(spc['start'][1])})",
               construct=f"walker {fmt} start")
        if roles is None:
            continue
        # symmetric start (0, 0): decide the roles by the step
        cand_roles = [roles] if spc["start"][0] != spc["start"][1] else [
            roles, roles[::-1]]
        step_bad: str | None = "not evaluated"
        stores_ok = False
        n_cases = 0
        for ri, rj in cand_roles:
            benv = Env()
            benv.vars[ri] = i
            benv.vars[rj] = j
            benv.vars[loop.target.id if isinstance(
                loop.target, ast.Name) else "v"] = Poly.var("v")
            wi, wj = spc["succ"]()
            bad = None
            st_ok = True
            spl = Splitter()
            try:
                for w in bq:
                    facts: list[Any] = []
                    conds = []
                    for tst, truth in w.guards:
                        c = ev.cond(benv, tst)
                        conds.append(c if truth else c_not(c))
                    gi = ev.num(benv, w.env[ri]) if ri in w.env else i
                    gj = ev.num(benv, w.env[rj]) if rj in w.env else j
                    from sa.symterm import c_and as _c_and
                    pc = _c_and(*conds) if conds else ("true",)
                    for fs, (pcv, a1, a2, b1, b2), tr in spl.cases(
                            (pc, gi, gj, wi, wj), facts):
                        if pcv != ("true",):
                            continue
                        n_cases += 1
                        if not (spl.equal(a1, b1, fs) and spl.equal(
                                a2, b2, fs)):
                            bad = bad or (f"[{describe(tr)[:140]}] the step "
                                          f"goes to ({show(a1)}, {show(a2)}"
                                          f"), the enumeration to "
                                          f"({show(b1)}, {show(b2)})")
                    # stores of this path
                    sts = [e for e in w.events if e.kind == "store"]
                    tg = set()
                    for e in sts:
                        try:
                            tg.add(ev.index(benv, e.value.slice))
                        except Unsupported:
                            st_ok = False
                        if not (isinstance(e.extra, ast.Name)
                                and isinstance(loop.target, ast.Name)
                                and e.extra.id == loop.target.id):
                            st_ok = False
                    diag_guard = any(
                        (truth and ev.cond(benv, tst) == c_not(
                            ("eq", *sorted((i, j), key=lambda p_: repr(
                                p_.key()))))) for tst, truth in w.guards)
                    on_diag = any(
                        (not truth and ev.cond(benv, tst) == c_not(
                            ("eq", *sorted((i, j), key=lambda p_: repr(
                                p_.key()))))) for tst, truth in w.guards)
                    if spc["diag"]:
                        if on_diag:
                            st_ok = st_ok and not sts
                        else:
                            st_ok = st_ok and diag_guard and tg == {
                                (i, j), (j, i)}
                    else:
                        st_ok = st_ok and tg == {(i, j), (j, i)}
                    if [e for e in w.events if e.kind != "store"] or \
                            w.ended is not None:
                        st_ok = False
            except (Unsupported, KeyError) as u:
                bad = f"step not normalised: {u}"
            if bad is None:
                step_bad = None
                stores_ok = st_ok
                break
            step_bad = bad
            stores_ok = st_ok
        ctx.count("orderings_enumerated", n_cases)
        ctx.ob("D18.2", fi, loop, step_bad is None,
               f"{fmt}: on every outcome of its tests the step equals the "
               "successor of the triangular enumeration"
               if step_bad is None else
               f"{fmt}: the step differs from the triangular enumeration's "
               f"successor: {step_bad}", construct=f"walker {fmt} step")
        ctx.ob("D18.2", fi, loop, stores_ok,
               f"{fmt}: each number is stored symmetrically at [i, j] and "
               "[j, i]" + ("; diagonal entries are skipped" if spc["diag"]
                           else ""), construct=f"walker {fmt} stores")
    ctx.count("explicit_formats", len(found))
    ctx.ob("D18.2", fi, fi.node, len(found) >= 4,
           "FULL_MATRIX, UPPER_ROW, LOWER_DIAG_ROW and UPPER_DIAG_ROW each "
           "have a reader" if len(found) >= 4 else
           f"only {sorted(found)} have a reader", construct="formats covered")
    outer = [nd for nd in ast.walk(fi.node) if isinstance(nd, ast.If)
             and isinstance(nd.test, ast.Compare) and isinstance(
                 nd.test.left, ast.Name)
             and nd.test.left.id == "edge_weight_type"]
    oko = len(outer) == 1 and isinstance(
        outer[0].test.ops[0], ast.Eq) and repo.const(
        mod, outer[0].test.comparators[0]) == "EXPLICIT"
    ctx.ob("D18.2", fi, outer[0] if outer else fi.node, oko,
           "explicit matrices are read exactly for EDGE_WEIGHT_TYPE == "
           "'EXPLICIT'" if oko else "the explicit readers are not guarded "
           "by EDGE_WEIGHT_TYPE == 'EXPLICIT'",
           construct="explicit type guard")


# ------------------------------------------------------------------ D18.3
def _writer(ctx: Ctx) -> None:
    repo = ctx.repo
    ts = repo.func(MOD, "Instance.to_stream")
    fs = repo.func(MOD, "_from_stream")
    emitted = set()
    from sa.pathinline import flatten_fstring as _flat
    for n in ast.walk(ts.node):
        if isinstance(n, ast.Call) and isinstance(n.func, ast.Name) and \
                len(ts.params) > 1 and n.func.id == ts.params[1] and \
                len(n.args) == 1:
            toks_ = _flat(n.args[0]) or []
            if toks_ and toks_[0][0] == "val" and isinstance(
                    toks_[0][1], ast.Name) and \
                    toks_[0][1].id.startswith("_KEY_"):
                emitted.add(toks_[0][1].id)
    handled = {c.comparators[0].id for c in ast.walk(fs.node)
               if isinstance(c, ast.Compare) and len(c.ops) == 1
               and isinstance(c.ops[0], ast.Eq) and isinstance(
                   c.left, ast.Name)
               and isinstance(c.comparators[0], ast.Name)
               and c.comparators[0].id.startswith("_KEY_")}
    missing = sorted(emitted - handled - {"_KEY_COMMENT"})
    need_keys = {"_KEY_NAME", "_KEY_TYPE", "_KEY_DIMENSION",
                 "_KEY_EDGE_WEIGHT_TYPE", "_KEY_EDGE_WEIGHT_FORMAT"}
    not_written = sorted(need_keys - emitted)
    plain = {ast.unparse(c.args[0]) for c in ast.walk(ts.node)
             if isinstance(c, ast.Call) and isinstance(c.func, ast.Name)
             and c.func.id == ts.params[1] and c.args
             and isinstance(c.args[0], ast.Name)}
    for mk_ in ("_START_EDGE_WEIGHT_SECTION", "_EOF"):
        if mk_ not in plain:
            not_written.append(mk_)
    ctx.ob("D18.3", ts, ts.node, not not_written,
           "the writer emits NAME, TYPE, DIMENSION, EDGE_WEIGHT_TYPE, "
           "EDGE_WEIGHT_FORMAT, the section marker and EOF" if
           not not_written else
           f"the writer does not emit {not_written}: the file cannot be "
           "read back", construct="TSPLIB header complete")
    ctx.ob("D18.3", ts, ts.node, not missing and len(emitted) >= 5,
           f"writer emits {sorted(emitted)}; all are handled by the reader "
           "(COMMENT is ignored by design)" if not missing else
           f"writer emits {missing}, which the reader does not handle",
           construct="TSPLIB key sets")
    src = ast.unparse(ts.node)
    # ---- per path (symmetric / asymmetric): the TYPE and EDGE_WEIGHT_FORMAT
    # header values and the rows that are emitted
    from sa.pathinline import Path, flatten_fstring, paths
    coll = ts.params[1]
    selfn = ts.params[0]
    sym_src = f"{selfn}.is_symmetric"
    ok_ty = ok_fmt = True
    ok_rows = ok_full = None
    n_paths = {True: 0, False: 0}
    def polarity(guards: tuple) -> set:
        pol_ = set()
        for tst, truth in guards:
            t_, tr_ = tst, truth
            while isinstance(t_, ast.UnaryOp) and isinstance(
                    t_.op, ast.Not):
                t_, tr_ = t_.operand, not tr_
            if ast.unparse(t_) == sym_src:
                pol_.add(tr_)
        return pol_
    for q in paths(func_body(ts)):
        if q.ended == "raise":
            continue
        pol = polarity(q.guards)
        if len(pol) != 1:
            continue          # contradictory (infeasible) or unconstrained
        sym = next(iter(pol))
        n_paths[sym] += 1
        for e in q.events:
            if e.kind == "expr" and isinstance(
                    e.value, ast.Call) and ast.unparse(
                    e.value.func) == coll and len(e.value.args) == 1:
                toks = flatten_fstring(e.value.args[0]) or []
                key = repo.const(ts.module, toks[0][1]) if toks and \
                    toks[0][0] == "val" else None
                vals = [repo.const(ts.module, v) for k_, v in toks[1:]
                        if k_ == "val"]
                if key == "TYPE":
                    ok_ty = ok_ty and vals == [
                        "TSP" if sym else "ATSP"]
                elif key == "EDGE_WEIGHT_FORMAT":
                    ok_fmt = ok_fmt and vals == [
                        "UPPER_ROW" if sym else "FULL_MATRIX"]
            elif e.kind == "loop" and isinstance(e.node, ast.For) and any(
                    isinstance(c_, ast.Call) and ast.unparse(
                        c_.func) == coll for c_ in ast.walk(e.node)) and \
                    ast.unparse(e.value).startswith("range("):
                lp = e.node
                rng = ast.unparse(e.value).replace(" ", "")
                iv_ = lp.target.id if isinstance(lp.target, ast.Name) \
                    else "?"
                subs = set()
                for w in paths(lp.body, Path(env=dict(e.extra))):
                    if (not sym) in polarity(w.guards):
                        continue        # the branch of the other kind
                    for ev_ in w.events:
                        if ev_.kind == "expr":
                            subs |= {ast.unparse(x).replace(" ", "")
                                     for x in ast.walk(ev_.value)
                                     if isinstance(x, ast.Subscript)}
                full_rng = rng == f"range({selfn}.n_cities)"
                if sym:
                    good = full_rng and f"{selfn}[{iv_}][{iv_}+1:]" in subs
                    ok_rows = good if ok_rows is None else (ok_rows and good)
                else:
                    good = full_rng and f"{selfn}[{iv_}]" in subs and not \
                        any(":" in x for x in subs)
                    ok_full = good if ok_full is None else (ok_full and good)
    ok_choice = ok_fmt and ok_ty and n_paths[True] >= 1 and \
        n_paths[False] >= 1
    ctx.ob("D18.3", ts, ts.node, ok_choice,
           "symmetric instances are written as TSP / UPPER_ROW, others as "
           "ATSP / FULL_MATRIX", construct="writer format choice")
    ctx.ob("D18.3", ts, ts.node, bool(ok_rows and ok_full),
           "UPPER_ROW output is row i = self[i][i+1:] for i = 0..n-1: the "
           "order (row j, columns j+1..n-1) the UPPER_ROW walker consumes; "
           "FULL_MATRIX output is whole rows",
           construct="writer row order")
    sec = "_START_EDGE_WEIGHT_SECTION"
    ok_sec = sec in src and sec in ast.unparse(fs.node) and \
        "_EWT_EXPLICIT" in src
    ctx.ob("D18.3", ts, ts.node, ok_sec,
           "writer and reader use the same section marker and EXPLICIT "
           "type constants", construct="section markers", nontrivial=False)


# ------------------------------------------------------------------ D18.4
def _tour_parser(ctx: Ctx) -> None:
    """The result is a permutation of 0..n-1: every id >= 1 is seen once
    (a set records each accepted id), the count equals the largest id.

    Decided on the paths through the line loop and the token loop with all
    locals inlined (sa.pathinline): `continue` chains versus nested
    if/elif, hoisted constants, max() versus a conditional update and the
    names of the locals do not matter."""
    from sa.pathinline import Path, paths
    from sa.srcmodel import inline_locals
    repo = ctx.repo
    fi = repo.func("moptipyapps.tsp.known_optima", "_from_stream")
    problems: list[str] = []

    def src(n: ast.AST | None) -> str:
        return ast.unparse(n).replace(" ", "") if n is not None else "?"
    body = func_body(fi)
    outer = next((s for s in body if isinstance(s, ast.For)), None)
    inner = next((s for s in ast.walk(outer) if isinstance(s, ast.For)
                  and s is not outer), None) if outer else None
    pre = [q for q in paths(body[:body.index(outer)])
           if q.ended is None] if outer is not None else []
    if outer is None or inner is None or len(pre) != 1:
        problems.append("tour parser structure not recognised")
    else:
        pp = pre[0]
        assigned = {n.id for n in ast.walk(outer) if isinstance(n, ast.Name)
                    and isinstance(n.ctx, ast.Store)}
        init_vals = {k: v for k, v in pp.env.items()}
        flags = [k for k in assigned if repo.const(
            fi.module, init_vals.get(k)) is False]
        sets = [k for k, v in pp.objs.items() if src(v) == "set()"]
        lists = [k for k, v in pp.objs.items() if src(v) == "[]"]
        env0 = {k: v for k, v in pp.env.items() if k not in assigned}
        oq = paths(outer.body, Path(env=env0, objs=dict(pp.objs)))

        def guard_is(tst: ast.AST, want: str) -> bool:
            return src(tst) == want

        def has_const_guard(q: Any, pred: Any) -> bool:
            return any(truth and pred(tst) for tst, truth in q.guards)

        def is_marker(tst: ast.AST) -> bool:
            return isinstance(tst, ast.Compare) and len(
                tst.ops) == 1 and isinstance(tst.ops[0], ast.Eq) and (
                repo.const(fi.module, tst.comparators[0]) == "TOUR_SECTION"
                or repo.const(fi.module, tst.left) == "TOUR_SECTION")

        def is_term(tst: ast.AST) -> bool:
            if isinstance(tst, ast.Compare) and len(
                    tst.ops) == 1 and isinstance(tst.ops[0], ast.In):
                c = repo.const(fi.module, tst.comparators[0])
                if c is None and isinstance(
                        tst.comparators[0], (ast.Tuple, ast.List, ast.Set)):
                    c = tuple(repo.const(fi.module, e)
                              for e in tst.comparators[0].elts)
                return isinstance(c, tuple) and set(c) == {"-1", "EOF"}
            if isinstance(tst, ast.BoolOp) and isinstance(tst.op, ast.Or):
                # x == "EOF" or x == "-1" (either order, same x)
                vals, lefts = set(), set()
                for v_ in tst.values:
                    if not (isinstance(v_, ast.Compare) and len(
                            v_.ops) == 1 and isinstance(v_.ops[0], ast.Eq)):
                        return False
                    a_, b_ = v_.left, v_.comparators[0]
                    ca, cb = repo.const(fi.module, a_), repo.const(
                        fi.module, b_)
                    if isinstance(cb, str):
                        vals.add(cb)
                        lefts.add(src(a_))
                    elif isinstance(ca, str):
                        vals.add(ca)
                        lefts.add(src(b_))
                    else:
                        return False
                return vals == {"-1", "EOF"} and len(lefts) == 1
            return False
        flag = flags[0] if len(flags) == 1 else None
        if flag is None or len(sets) != 1 or len(lists) != 1:
            problems.append("tour parser structure not recognised")
        else:
            seen, lst = sets[0], lists[0]
            n_marker = n_read = 0
            for q in oq:
                if q.ended == "raise":
                    continue
                sets_flag = repo.const(fi.module, q.env.get(flag)) is True \
                    if flag in q.env else False
                if sets_flag:
                    n_marker += 1
                    if not has_const_guard(q, is_marker):
                        problems.append("the TOUR_SECTION marker does not "
                                        "switch the parser to reading ids")
                elif flag in q.env and src(q.env[flag]) != flag:
                    problems.append("the reading flag is changed outside "
                                    "the TOUR_SECTION marker")
                if q.ended == "break" and not has_const_guard(q, is_term):
                    problems.append("the line loop is left early elsewhere")
                if has_const_guard(q, is_term) and q.ended != "break":
                    problems.append("reading does not stop exactly at `-1` "
                                    "/ EOF")
                reads = [e for e in q.events if e.kind == "loop"
                         and e.node is inner]
                if reads:
                    n_read += 1
                    def needs_flag(tst: ast.AST, truth: bool) -> bool:
                        while isinstance(tst, ast.UnaryOp) and isinstance(
                                tst.op, ast.Not):
                            tst, truth = tst.operand, not truth
                        return truth and guard_is(tst, flag)
                    if not any(needs_flag(tst, truth)
                               for tst, truth in q.guards):
                        problems.append("ids are read outside the tour "
                                        "section")
                other = [e for e in q.events if e not in reads]
                if other:
                    problems.append("a line does more than switch the "
                                    "flag / stop / read ids")
            if n_marker == 0:
                problems.append("the TOUR_SECTION marker does not switch "
                                "the parser to reading ids")
            if not any(q.ended == "break" for q in oq):
                problems.append("reading does not stop exactly at `-1` / "
                                "EOF")
            if n_read == 0:
                problems.append("ids are never read")
            # ---- one token
            tok = src(inner.target)
            iq = paths(inner.body, Path(objs=dict(pp.objs)))
            mxs = set()
            n_ok_paths = 0
            for w in iq:
                conv = None
                for g, _t in w.guards:
                    for c in ast.walk(g):
                        if isinstance(c, ast.Call) and src(
                                c.func) == "check_to_int_range":
                            conv = c
                for e in w.events:
                    for c in ast.walk(e.value) if isinstance(
                            e.value, ast.AST) else []:
                        if isinstance(c, ast.Call) and src(
                                c.func) == "check_to_int_range":
                            conv = c
                if conv is None:
                    problems.append("node ids are not range-checked")
                    continue
                if repo.const(fi.module, conv.args[2]) != 1 or src(
                        conv.args[0]) != tok:
                    problems.append("node ids are not converted from their "
                                    "token with lower limit 1")
                node_src = src(conv)
                dup_guard = [truth for g, truth in w.guards
                             if src(g) == f"{node_src}in{seen}"]
                if w.ended == "raise":
                    if dup_guard != [True]:
                        problems.append("a token is rejected for another "
                                        "reason than a repeated id")
                    continue
                n_ok_paths += 1
                if dup_guard != [False]:
                    problems.append("an id that was seen before is not "
                                    "rejected")
                evs = [src(e.value) for e in w.events if e.kind == "expr"]
                if f"{seen}.add({node_src})" not in evs:
                    problems.append("accepted ids are not remembered: "
                                    "duplicates cannot be detected")
                if f"{lst}.append({node_src}-1)" not in evs:
                    problems.append("ids are not stored zero-based")
                if len(evs) != 2 or len(w.events) != 2:
                    problems.append("a token does more than remember and "
                                    "store its id")
                # the running maximum
                for k, v in w.env.items():
                    vs = src(v)
                    if vs in (f"max({k},{node_src})",
                              f"max({node_src},{k})"):
                        mxs.add(k)
                    elif vs == node_src and k != src(inner.target):
                        # conditional update: taken when node > max
                        if any(truth and src(g) in (
                                f"{node_src}>{k}", f"{k}<{node_src}")
                                for g, truth in w.guards):
                            mxs.add(k)
            # the add must follow the duplicate test
            adds = [x for x in ast.walk(inner) if isinstance(
                x, ast.Call) and isinstance(x.func, ast.Attribute)
                and x.func.attr == "add" and src(x.func.value) == seen]
            tests = [x for x in ast.walk(inner) if isinstance(x, ast.If)
                     and x.body and isinstance(x.body[-1], ast.Raise)]
            if adds and tests and min(a_.lineno for a_ in adds) < min(
                    t_.lineno for t_ in tests):
                problems.append("the id is remembered before the duplicate "
                                "test")
            mx = next(iter(mxs)) if len(mxs) == 1 else None
            if mx is None:
                problems.append("the largest id is not tracked")
            else:
                # a conditional update needs the complementary path to
                # leave the maximum alone
                for w in iq:
                    if w.ended is None and mx in w.env and src(
                            w.env[mx]) not in (
                            f"max({mx},{src(inner.target)})",):
                        pass
                if repo.const(fi.module, init_vals.get(mx)) not in (0, -1):
                    problems.append("the largest id does not start below "
                                    "every valid id")
                size = [s_ for s_ in body if isinstance(s_, ast.If)
                        and s_.body and isinstance(s_.body[-1], ast.Raise)
                        and src(inline_locals(fi.node, s_.test)) in (
                            f"len({lst})!={mx}", f"{mx}!=len({lst})")]
                if not size:
                    problems.append("the number of ids is not compared "
                                    "with the largest id")
            rets = [r for r in body if isinstance(r, ast.Return)]
            if len(rets) != 1 or not src(rets[0].value).startswith(
                    f"np.array({lst},"):
                problems.append("the id list is not what is returned")
    ctx.ob("D18.4", fi, fi.node, not problems,
           "tour parser: ids >= 1 are read only inside TOUR_SECTION up to "
           "-1/EOF, every accepted id is remembered and a repeated one "
           "rejected, count == largest id, stored zero-based: the result "
           "is a permutation of 0..n-1" if not problems else
           "; ".join(dict.fromkeys(problems)),
           construct="tour parser checks")


# ------------------------------------------------------------------ D18.5
def _arith_locals(fi: FuncInfo) -> dict[str, ast.expr]:
    """Locals assigned exactly once to an arithmetic expression / tuple over
    parameters, constants and other such locals (`row_len = coord_dim + 1`,
    `shape = (n, n)`)."""
    from sa.srcmodel import single_assignments
    params = set(fi.params)
    sa_ = single_assignments(fi.node)
    out: dict[str, ast.expr] = {}

    def pure(e: ast.AST) -> bool:
        if isinstance(e, ast.Constant):
            return isinstance(e.value, (int, float))
        if isinstance(e, ast.Name):
            return e.id in params or e.id in out
        if isinstance(e, ast.BinOp):
            return pure(e.left) and pure(e.right)
        if isinstance(e, ast.UnaryOp):
            return pure(e.operand)
        if isinstance(e, ast.Tuple):
            return all(pure(x) for x in e.elts)
        return False
    for _ in range(3):
        for k, v in sa_.items():
            if k not in out and k not in params and pure(v):
                out[k] = v
    return out


def _points_to_matrix(ctx: Ctx) -> None:
    """NODE_COORD_SECTION -> symmetric matrix of dist_func over all pairs."""
    repo = ctx.repo
    fi = repo.func(MOD, "__matrix_from_points")
    n_, dim_, stream_, df_ = fi.params
    from sa.pathinline import subst as _subst
    al_ = _arith_locals(fi)
    if al_:
        import dataclasses
        node_ = _subst(fi.node, al_)
        for _k in range(2):
            node_ = _subst(node_, al_)
        fi = dataclasses.replace(fi, node=node_)
    body = func_body(fi)

    def src(n: ast.AST) -> str:
        return ast.unparse(n).replace(" ", "")
    problems: list[str] = []
    rd = next((s for s in body if isinstance(s, ast.For)
               and src(s.iter) == stream_), None)
    if rd is None:
        problems.append("the coordinate lines are not read from the stream")
    else:
        calls = [c for c in ast.walk(rd) if isinstance(c, ast.Call)
                 and isinstance(c.func, ast.Name) and repo.resolve(
                     fi.module, c.func.id) is repo.func(MOD, "__line_to_nums")]
        row = None
        if len(calls) == 1 and len(calls[0].args) == 2 and src(
                calls[0].args[1]).endswith(".append"):
            row = src(calls[0].args[1])[:-7]
            if not isinstance(calls[0].args[0], ast.Name):
                problems.append("the tokeniser does not receive the line")
        else:
            problems.append("each line is not tokenised into a row buffer")
        idx = next((s.target.id for s in rd.body if isinstance(
            s, ast.AugAssign) and isinstance(s.op, ast.Add) and isinstance(
            s.target, ast.Name) and repo.const(fi.module, s.value) == 1),
            None)
        if idx is None:
            # n = n + 1 / n = 1 + n
            for s in rd.body:
                if isinstance(s, ast.Assign) and len(
                        s.targets) == 1 and isinstance(
                        s.targets[0], ast.Name) and src(s.value) in (
                        f"{s.targets[0].id}+1", f"1+{s.targets[0].id}"):
                    idx = s.targets[0].id
        pre = body[:body.index(rd)]
        if idx is None or not any(isinstance(s, (ast.Assign, ast.AnnAssign))
                                  and src(s.targets[0] if isinstance(
                                      s, ast.Assign) else s.target) == idx
                                  and repo.const(fi.module, s.value) == 0
                                  for s in pre):
            problems.append("rows are not counted 1, 2, 3, ...")
        if row is not None and idx is not None:
            chk = next((s for s in rd.body if isinstance(s, ast.If) and s.body
                        and isinstance(s.body[-1], ast.Raise)
                        and row in src(s.test)), None)
            want = {f"len({row})!=({dim_}+1)", f"len({row})!={dim_}+1",
                    f"notisinstance({row}[0],int)", f"{row}[0]!={idx}"}
            got = set()
            if chk is not None and isinstance(chk.test, ast.BoolOp) and \
                    isinstance(chk.test.op, ast.Or):
                got = {src(v).replace("(notisinstance", "notisinstance")
                       .rstrip(")") + (")" if "isinstance" in src(v) else "")
                       for v in chk.test.values}
                got = {g.replace("(len(", "len(") for g in got}
            norm = {g.replace("(", "").replace(")", "") for g in got}
            wantn = {w.replace("(", "").replace(")", "") for w in
                     (f"len({row})!={dim_}+1",
                      f"notisinstance({row}[0],int)", f"{row}[0]!={idx}")}
            table_ok = False
            if chk is not None:
                # the raise condition as a propositional formula over the
                # three facts A: len(row) == dim + 1, B: isinstance(row[0],
                # int), C: row[0] == idx; it must be (not A) or (not B) or
                # (not C) - compared on all 8 assignments
                def atom(e: ast.expr) -> tuple[str, bool] | None:
                    t_ = src(e).replace("(", "").replace(")", "")
                    table = {
                        f"len{row}=={dim_}+1": ("A", True),
                        f"{dim_}+1==len{row}": ("A", True),
                        f"len{row}!={dim_}+1": ("A", False),
                        f"{dim_}+1!=len{row}": ("A", False),
                        f"1+{dim_}==len{row}": ("A", True),
                        f"len{row}==1+{dim_}": ("A", True),
                        f"isinstance{row}[0],int": ("B", True),
                        f"{row}[0]=={idx}": ("C", True),
                        f"{idx}=={row}[0]": ("C", True),
                        f"{row}[0]!={idx}": ("C", False),
                        f"{idx}!={row}[0]": ("C", False)}
                    return table.get(t_)

                def val(e: ast.expr, asg: dict[str, bool]) -> bool | None:
                    if isinstance(e, ast.UnaryOp) and isinstance(
                            e.op, ast.Not):
                        v_ = val(e.operand, asg)
                        return None if v_ is None else not v_
                    if isinstance(e, ast.BoolOp):
                        vs = [val(x, asg) for x in e.values]
                        if any(x is None for x in vs):
                            return None
                        return all(vs) if isinstance(e.op, ast.And) \
                            else any(vs)
                    a_ = atom(e)
                    if a_ is None:
                        return None
                    return asg[a_[0]] == a_[1]
                table_ok = True
                for A_ in (True, False):
                    for B_ in (True, False):
                        for C_ in (True, False):
                            got_ = val(chk.test, {"A": A_, "B": B_,
                                                  "C": C_})
                            if got_ is not (not (A_ and B_ and C_)):
                                table_ok = False
            if norm != wantn and not table_ok:
                problems.append(
                    "a coordinate row is not rejected exactly when it has "
                    f"not {dim_}+1 entries or its first entry is not the "
                    "running integer index")
            del want
            app = [s for s in rd.body if isinstance(s, ast.Expr) and isinstance(
                s.value, ast.Call) and src(s.value.func).endswith(".append")
                and s.value.args and src(s.value.args[0]) == f"{row}[1:]"]
            clr = [s for s in rd.body if isinstance(s, ast.Expr)
                   and src(s.value) == f"{row}.clear()"]
            # a buffer that is created anew for every line needs no clear
            fresh = [s for s in rd.body if isinstance(
                s, (ast.Assign, ast.AnnAssign)) and s.value is not None
                and src(s.targets[0] if isinstance(s, ast.Assign)
                        else s.target) == row and src(s.value) in (
                    "[]", "list()")]
            tok_at = next((k for k, s in enumerate(rd.body) if calls and any(
                x is calls[0] for x in ast.walk(s))), None)
            fresh_ok = len(fresh) == 1 and not clr and tok_at is not None \
                and rd.body.index(fresh[0]) < tok_at
            if len(app) != 1 or not (fresh_ok or (
                    len(clr) == 1 and rd.body.index(
                    app[0]) < rd.body.index(clr[0]))):
                problems.append("the coordinates of a row (all but its "
                                "index) are not stored before the buffer is "
                                "reused")
            coords = src(app[0].value.func)[:-7] if app else None
            tot = [s for s in body if isinstance(s, ast.If) and s.body and
                   isinstance(s.body[-1], ast.Raise) and src(s.test) in (
                       f"{idx}!={n_}", f"{n_}!={idx}")]
            if not tot:
                problems.append("the number of rows is not compared with "
                                "the announced number of cities")
            # ---- the matrix
            fill = next((s for s in body if isinstance(s, ast.For)
                         and s is not rd), None)
            zero = [s for s in body if isinstance(s, (ast.Assign,
                                                      ast.AnnAssign))
                    and isinstance(s.value, ast.Call) and src(
                        s.value.func) == "np.zeros" and s.value.args
                    and src(s.value.args[0]) == f"({n_},{n_})"]
            if fill is None or len(zero) != 1 or coords is None:
                problems.append("no n x n zero matrix filled from the "
                                "coordinates")
            else:
                mname = src(zero[0].targets[0] if isinstance(
                    zero[0], ast.Assign) else zero[0].target)
                inner = next((s for s in fill.body if isinstance(s, ast.For)),
                             None)
                from sa.pathinline import Path, paths
                env0: dict[str, ast.expr] = {}
                iv = "?"
                ok_outer = False
                if isinstance(fill.target, ast.Name) and src(
                        fill.iter) == f"range({n_})":
                    iv = fill.target.id
                    ok_outer = True
                elif isinstance(fill.target, ast.Tuple) and len(
                        fill.target.elts) == 2 and all(isinstance(
                            t, ast.Name) for t in fill.target.elts) and \
                        src(fill.iter) == f"enumerate({coords})" and tot:
                    # all rows of the coordinate list, whose length was
                    # compared with n: the element stands for coords[i]
                    iv = fill.target.elts[0].id
                    env0[fill.target.elts[1].id] = ast.Subscript(
                        value=ast.Name(id=coords, ctx=ast.Load()),
                        slice=ast.Name(id=iv, ctx=ast.Load()),
                        ctx=ast.Load())
                    ok_outer = True
                ok_l = ok_outer and inner is not None and isinstance(
                    inner.target, ast.Name) and src(
                    inner.iter) in (f"range({iv})",)
                if not ok_l:
                    problems.append("the pairs are not enumerated as j < i "
                                    "< n")
                else:
                    jv = inner.target.id
                    pre_q = paths(fill.body[:fill.body.index(inner)],
                                  Path(env=dict(env0)))
                    start_env = dict(pre_q[0].env) if len(pre_q) == 1 \
                        else dict(env0)
                    iq = paths(inner.body, Path(env=start_env))
                    want_args = sorted([f"{coords}[{iv}]",
                                        f"{coords}[{jv}]"])
                    ok_d = False
                    neg_ok = False
                    sym_ok = False
                    dsrc = None
                    for w in iq:
                        for e in w.events:
                            if e.kind == "store" and isinstance(
                                    e.extra, ast.Call) and src(
                                    e.extra.func) == df_:
                                dsrc = src(e.extra)
                                ok_d = sorted(src(a_) for a_ in
                                              e.extra.args) == want_args \
                                    and not e.extra.keywords
                    if dsrc is not None:
                        def dtruth(t_: ast.AST, d_: float) -> bool | None:
                            if isinstance(t_, ast.UnaryOp) and isinstance(
                                    t_.op, ast.Not):
                                v_ = dtruth(t_.operand, d_)
                                return None if v_ is None else not v_
                            if isinstance(t_, ast.BoolOp):
                                vs = [dtruth(x, d_) for x in t_.values]
                                if any(x is None for x in vs):
                                    return None
                                return all(vs) if isinstance(
                                    t_.op, ast.And) else any(vs)
                            if isinstance(t_, ast.Call) and src(
                                    t_.func) == "isinstance":
                                return True       # an int distance
                            if isinstance(t_, ast.Compare) and len(
                                    t_.ops) == 1:
                                def nv(x: ast.expr) -> float | None:
                                    if src(x) == dsrc:
                                        return d_
                                    c_ = repo.const(fi.module, x)
                                    return float(c_) if isinstance(
                                        c_, (int, float)) and not \
                                        isinstance(c_, bool) else None
                                l_, r_ = nv(t_.left), nv(t_.comparators[0])
                                if l_ is None or r_ is None:
                                    return None
                                return {ast.Lt: l_ < r_, ast.LtE: l_ <= r_,
                                        ast.Gt: l_ > r_, ast.GtE: l_ >= r_,
                                        ast.Eq: l_ == r_,
                                        ast.NotEq: l_ != r_}.get(
                                    type(t_.ops[0]))
                            return None

                        def raised(d_: float) -> bool | None:
                            res_ = False
                            for w in iq:
                                if w.ended != "raise":
                                    continue
                                allg = True
                                for t_, tr_ in w.guards:
                                    v_ = dtruth(t_, d_)
                                    if v_ is None:
                                        return None
                                    if v_ != tr_:
                                        allg = False
                                        break
                                res_ = res_ or allg
                            return res_
                        neg_ok = raised(-1.0) is True and raised(
                            0.0) is False and raised(1.0) is False
                        for w in iq:
                            if w.ended is not None:
                                continue
                            st = sorted(src(e.value) for e in w.events
                                        if e.kind == "store" and src(
                                            e.extra) == dsrc)
                            sym_ok = st == sorted([f"{mname}[{iv},{jv}]",
                                                   f"{mname}[{jv},{iv}]"]) \
                                and len(w.events) == 2
                    if not ok_d:
                        problems.append("the stored value is not dist_func("
                                        "coordinates[i], coordinates[j])")
                    elif not sym_ok:
                        problems.append("the distance is not stored "
                                        "symmetrically")
                    if not neg_ok:
                        problems.append("negative distances are not "
                                        "rejected (and only those)")
                rets = [r for r in ast.walk(fi.node)
                        if isinstance(r, ast.Return)]
                if len(rets) != 1 or src(rets[0].value) != mname:
                    problems.append("the filled matrix is not returned")
    ctx.ob("D18.5", fi, fi.node, not problems,
           "a coordinate section becomes an n x n matrix with m[i,j] = "
           "m[j,i] = dist_func(point i, point j) for all j < i, rows "
           "validated (index, dimension) and counted" if not problems else
           "; ".join(problems), construct="coordinates to matrix")
    # ---- call binding and coordinate dimension in the dispatcher
    dp = repo.func(MOD, "_matrix_from_node_coord_section")
    calls = [c for c in ast.walk(dp.node) if isinstance(c, ast.Call)
             and isinstance(c.func, ast.Name) and repo.resolve(
                 dp.module, c.func.id) is repo.func(
                     MOD, "__matrix_from_points")]
    # the second argument: a local that only ever holds 2 (or the literal);
    # the fourth: the local the branches store the distance function in
    a_ = calls[0].args if len(calls) == 1 else []
    cdn = src(a_[1]) if len(a_) >= 2 else "?"
    dfn = src(a_[3]) if len(a_) >= 4 else "?"
    dims = [s for s in ast.walk(dp.node) if isinstance(s, ast.Assign)
            and src(s.targets[0]) == cdn]
    dfs = [s for s in ast.walk(dp.node) if isinstance(s, ast.Assign)
           and src(s.targets[0]) == dfn and isinstance(s.value, ast.Name)]
    two = (len(a_) >= 2 and repo.const(dp.module, a_[1]) == 2) or (
        bool(dims) and all(repo.const(dp.module, s.value) == 2
                           for s in dims))
    okb = len(calls) == 1 and not calls[0].keywords and len(a_) == 4 and \
        src(a_[0]) == dp.params[0] and src(a_[2]) == dp.params[-1] and \
        two and bool(dfs)
    ctx.ob("D18.5", dp, calls[0] if calls else dp.node, okb,
           "the dispatcher passes (n_cities, 2, stream, distance function) "
           "in this order" if okb else
           "the dispatcher does not call __matrix_from_points(n_cities, "
           "coord_dim = 2, stream, dist_fun)",
           construct="dispatcher arguments")


# ------------------------------------------------------------------ D18.6
def _number_reading(ctx: Ctx) -> None:
    """__read_n_ints / __line_to_nums hand on every number exactly once."""
    from sa.cfg import CFG, calls_in
    repo = ctx.repo

    def src(n: ast.AST) -> str:
        return ast.unparse(n).replace(" ", "")
    fi = repo.func(MOD, "__read_n_ints")
    problems: list[str] = []
    body = func_body(fi)
    res = next((src(s.targets[0] if isinstance(s, ast.Assign) else s.target)
                for s in body if isinstance(s, (ast.Assign, ast.AnnAssign))
                and isinstance(s.value, ast.List) and not s.value.elts), None)
    app = next((s for s in body if isinstance(s, ast.FunctionDef)), None)
    loop = next((s for s in body if isinstance(s, ast.For)), None)
    if res is None or app is None or loop is None:
        problems.append("__read_n_ints: result list / appender / loop not "
                        "found")
    else:
        fwd = None
        for a, d in zip(app.args.args[::-1], app.args.defaults[::-1]):
            if src(d) == f"{res}.append":
                fwd = a.arg
        val = app.args.args[0].arg
        cfg = CFG(app)
        def is_sink(c: ast.Call) -> bool:
            # the default-argument alias `fwd=res.append` or the closure
            # call `res.append(..)` itself
            return (isinstance(c.func, ast.Name) and fwd is not None
                    and c.func.id == fwd) or src(c.func) == f"{res}.append"
        sinks = [n for n in cfg.nodes if n.kind == "stmt" and any(
            is_sink(c) for c in calls_in(n.ast))]
        if not sinks:
            problems.append("the appender does not forward to the result "
                            "list")
        else:
            if cfg.can_reach_avoiding(cfg.entry, cfg.exit,
                                      lambda n: n in sinks):
                problems.append("a number can pass the appender without "
                                "being stored")
            for s in sinks:
                c = next(c for c in calls_in(s.ast) if is_sink(c))
                a = src(c.args[0]) if c.args else "?"
                if a != val:
                    d = [x for x in ast.walk(app) if isinstance(
                        x, (ast.Assign, ast.AnnAssign)) and src(
                        x.targets[0] if isinstance(x, ast.Assign)
                        else x.target) == a]
                    eq = [x for x in ast.walk(app) if isinstance(x, ast.If)
                          and x.body and isinstance(x.body[-1], ast.Raise)
                          and src(x.test) in (f"{a}!={val}", f"{val}!={a}")]
                    if len(d) != 1 or src(d[0].value) != f"int({val})" \
                            or not eq:
                        problems.append("a non-integer value is not "
                                        "rejected before it is stored as "
                                        "int")
        first = loop.body[0] if loop.body else None
        okc = isinstance(first, ast.Expr) and isinstance(
            first.value, ast.Call) and isinstance(
            first.value.func, ast.Name) and repo.resolve(
            fi.module, first.value.func.id) is repo.func(
            MOD, "__line_to_nums") and [src(a) for a in first.value.args] \
            == [src(loop.target), app.name]
        if not okc:
            problems.append("not every line is tokenised into the appender")
        brk = [s for s in loop.body if isinstance(s, ast.If) and any(
            isinstance(x, ast.Break) for x in s.body)]
        n_ = fi.params[0]
        if len(brk) != 1 or src(brk[0].test) not in (
                f"len({res})=={n_}", f"len({res})>={n_}",
                f"{n_}==len({res})", f"{n_}<=len({res})"):
            problems.append("reading does not stop when n numbers were "
                            "read")
        tail = [s for s in body if isinstance(s, ast.If) and s.body and
                isinstance(s.body[-1], ast.Raise)]
        from sa.srcmodel import inline_locals
        if len(tail) != 1 or src(inline_locals(fi.node, tail[0].test)) \
                not in (f"len({res})!={n_}", f"{n_}!=len({res})"):
            problems.append("a wrong number of values is not rejected")
        rets = [r for r in body if isinstance(r, ast.Return)]
        if len(rets) != 1 or src(rets[0].value) != res:
            problems.append("the list of numbers is not returned")
    # ---- the tokeniser
    tk = repo.func(MOD, "__line_to_nums")
    coll = tk.params[1]
    wl = next((s for s in func_body(tk) if isinstance(s, ast.While)), None)
    if wl is None:
        problems.append("__line_to_nums: scanning loop not found")
    else:
        cfg = CFG(tk.node)
        head = next(n for n in cfg.nodes if n.ast is wl and n.kind == "join")
        sinks = [n for n in cfg.nodes if n.kind == "stmt" and any(
            isinstance(c.func, ast.Name) and c.func.id == coll
            for c in calls_in(n.ast))]
        parts = [s for s in ast.walk(wl) if isinstance(
            s, (ast.Assign, ast.AnnAssign)) and isinstance(
            s.value, ast.Subscript) and isinstance(
            s.value.slice, ast.Slice)]
        if len(parts) != 1:
            problems.append("__line_to_nums: no single token slice")
        else:
            pn = src(parts[0].targets[0] if isinstance(parts[0], ast.Assign)
                     else parts[0].target)
            P = next(n for n in cfg.nodes if n.ast is parts[0])
            # from the token to the next round only through one collector
            if any(cfg.can_reach_avoiding(m, head, lambda n: n in sinks)
                   for m, _ in P.succ):
                problems.append("a token can be skipped without being "
                                "handed to the collector")
            for s in sinks:
                c = next(c for c in calls_in(s.ast) if isinstance(
                    c.func, ast.Name) and c.func.id == coll)
                if pn not in {x.id for x in ast.walk(c)
                              if isinstance(x, ast.Name)} and not any(
                        isinstance(x, ast.Name) and x.id in {
                            src(d.targets[0] if isinstance(d, ast.Assign)
                                else d.target) for d in ast.walk(wl)
                            if isinstance(d, (ast.Assign, ast.AnnAssign))
                            and pn in src(d.value)} for x in ast.walk(c)):
                    problems.append("the collector receives something "
                                    "else than the value of the token")
            lo, hi = parts[0].value.slice.lower, parts[0].value.slice.upper
            adv = [s for s in wl.body if isinstance(s, ast.Assign)
                   and lo is not None and hi is not None
                   and src(s.targets[0]) == src(lo)
                   and src(s.value) == src(hi)]
            if len(adv) != 1 or wl.body[-1] is not adv[0]:
                problems.append("the scan position is not moved behind the "
                                "token: the loop cannot end")
    ctx.ob("D18.6", fi, fi.node, not problems,
           "every whitespace-separated token of every line is converted "
           "and handed on exactly once; exactly n integral values are "
           "collected (non-integral ones rejected) and returned"
           if not problems else "; ".join(problems),
           construct="number reading protocol")


# ------------------------------------------------------------------ D18.7
def _header(ctx: Ctx) -> None:
    """_from_stream: `KEY : value` lines reach the section readers in the
    parameter the key names; sections are dispatched by their title."""
    repo = ctx.repo
    fi = repo.func(MOD, "_from_stream")
    mod = fi.module

    def src(n: ast.AST) -> str:
        return ast.unparse(n).replace(" ", "")
    problems: list[str] = []
    loop0 = next((s for s in func_body(fi) if isinstance(s, ast.For)), None)
    if loop0 is None:
        ctx.ob("D18.7", fi, fi.node, False, "the loop over the lines is "
               "not recognised", construct="header protocol")
        return
    from sa.srcmodel import fold_consts
    loop = fold_consts(repo, mod, loop0)
    # ---- key / value split at the first colon
    defs = {}
    for s in ast.walk(loop):
        if isinstance(s, (ast.Assign, ast.AnnAssign)) and s.value is not None:
            tg = s.targets[0] if isinstance(s, ast.Assign) else s.target
            if isinstance(tg, ast.Name):
                defs.setdefault(tg.id, []).append(s.value)
    sep = next((k for k, v in defs.items() if any(
        src(x).endswith(".find(':')") or src(x).endswith('.find(":")')
        for x in v)), None)
    line = None
    KEY = VALUE = None
    if sep is None:
        other = [src(x) for v in defs.values() for x in v
                 if ".rfind(" in src(x) or ".find(" in src(x)
                 or ".rindex(" in src(x) or ".index(" in src(x)]
        problems.append("lines are not split at their first colon"
                        + (f" (`{other[0][:50]}`)" if other else "")
                        if other else "the split of a line into key and "
                        "value is not recognised")
    else:
        line = src(defs[sep][0]).split(".find(")[0]
        # the locals holding the text before / after the colon
        KEY = next((k for k, v in defs.items() if any(
            src(x) in (f"{line}[:{sep}].strip()", f"{line}[0:{sep}].strip()")
            for x in v)), None)
        VALUE = next((k for k, v in defs.items() if any(
            src(x) in (f"{line}[{sep}+1:].strip()",
                       f"{line}[1+{sep}:].strip()") for x in v)), None)
        if KEY is None or VALUE is None:
            problems.append("key / value are not the text before / after "
                            "the colon (stripped)")
    # ---- which variable holds the value of which key
    var_of_key: dict[str, str] = {}
    for s in ast.walk(loop):
        if isinstance(s, ast.If) and isinstance(
                s.test, ast.Compare) and len(s.test.ops) == 1 and isinstance(
                s.test.ops[0], ast.Eq) and src(s.test.left) == KEY:
            k = repo.const(mod, s.test.comparators[0])
            if not isinstance(k, str):
                continue
            for b in ast.walk(ast.Module(body=s.body, type_ignores=[])):
                if isinstance(b, (ast.Assign, ast.AnnAssign)) and \
                        b.value is not None:
                    tg = b.targets[0] if isinstance(b, ast.Assign) \
                        else b.target
                    if isinstance(tg, ast.Name) and VALUE in {
                            x.id for x in ast.walk(b.value)
                            if isinstance(x, ast.Name)}:
                        var_of_key[tg.id] = k
    ctx.count("header_keys", len(var_of_key))
    want_keys = {"NAME", "TYPE", "DIMENSION", "EDGE_WEIGHT_TYPE",
                 "EDGE_WEIGHT_FORMAT", "NODE_COORD_TYPE"}
    if set(var_of_key.values()) != want_keys:
        problems.append(
            "not every header key stores its value under `key == KEY` "
            f"(found {sorted(var_of_key.values())})")
    # a key may occur once: the guard raises iff the variable is set already
    for s in ast.walk(loop):
        if isinstance(s, ast.If) and isinstance(
                s.test, ast.Compare) and src(s.test.left) == KEY:
            inner = [b for b in s.body if isinstance(b, ast.If) and b.body
                     and isinstance(b.body[-1], ast.Raise) and isinstance(
                         b.test, ast.Compare) and isinstance(
                         b.test.comparators[0], ast.Constant)
                     and b.test.comparators[0].value is None]
            for b in inner:
                v = src(b.test.left)
                if v in var_of_key and not isinstance(
                        b.test.ops[0], ast.IsNot):
                    problems.append(f"the first {var_of_key[v]} line is "
                                    "rejected as a duplicate")
    # the only way out of the line loop is the EOF line
    for br in [x for x in ast.walk(loop) if isinstance(x, ast.Break)]:
        par = next((i_ for i_ in ast.walk(loop) if isinstance(i_, ast.If)
                    and br in i_.body), None)
        if par is None or not (isinstance(par.test, ast.Compare) and len(
                par.test.ops) == 1 and isinstance(
                par.test.ops[0], ast.Eq) and repo.const(
                mod, par.test.comparators[0]) == "EOF"):
            problems.append("reading the file is abandoned before the EOF "
                            f"line (break at line {br.lineno})")
    # ---- section dispatch
    want_sections = {"NODE_COORD_SECTION": "_matrix_from_node_coord_section",
                     "EDGE_WEIGHT_SECTION": "_matrix_from_edge_weights"}
    found = {}
    # path by path through the body of the line loop: a reader is called
    # for the titles T for which `line == T` is consistent with the path
    # condition (the tests of `line` against constants are evaluated for
    # every candidate title and for "some other text")
    from sa.pathinline import paths as _paths
    titles = {repo.const(mod, c.comparators[0]) for c in ast.walk(loop)
              if isinstance(c, ast.Compare) and len(c.ops) == 1
              and line is not None and src(c.left) == line}
    titles = {t for t in titles if isinstance(t, str)}

    line_forms = {line} | {src(x) for x in defs.get(line or "", [])}

    def holds(t: ast.expr, text: str | None) -> bool | None:
        if isinstance(t, ast.BoolOp):
            vs = [holds(v, text) for v in t.values]
            if isinstance(t.op, ast.And):
                return False if False in vs else (
                    None if None in vs else True)
            return True if True in vs else (None if None in vs else False)
        if isinstance(t, ast.UnaryOp) and isinstance(t.op, ast.Not):
            v = holds(t.operand, text)
            return None if v is None else not v
        if isinstance(t, ast.Compare) and len(t.ops) == 1 and \
                line is not None and src(t.left) in line_forms:
            c = repo.const(mod, t.comparators[0])
            if isinstance(c, str) and isinstance(
                    t.ops[0], (ast.Eq, ast.NotEq)):
                return (c == text) == isinstance(t.ops[0], ast.Eq)
            if isinstance(t.ops[0], (ast.In, ast.NotIn)) and isinstance(
                    t.comparators[0], (ast.Tuple, ast.List, ast.Set)):
                cs = [repo.const(mod, e) for e in t.comparators[0].elts]
                if all(isinstance(x, str) for x in cs):
                    return (text in cs) == isinstance(t.ops[0], ast.In)
        return None
    try:
        body_paths = _paths(list(loop.body)) if line is not None else []
    except ValueError:
        body_paths = []
        problems.append("the body of the line loop has too many paths; "
                        "the section dispatch is not recognised")
    origs = {c.func.id: c for c in ast.walk(loop) if isinstance(
        c, ast.Call) and isinstance(c.func, ast.Name)
        and c.func.id in want_sections.values()}
    for q in body_paths:
        # assignments are bound in the environment of the path, other
        # statements are events; the conditions of the whole path apply
        vals = [e.value for e in q.events] + list(q.env.values()) + list(
            q.objs.values())
        called = {c.func.id for v in vals if isinstance(v, ast.AST)
                  for c in ast.walk(v) if isinstance(c, ast.Call)
                  and isinstance(c.func, ast.Name)
                  and c.func.id in want_sections.values()}
        for fn_ in sorted(called):
            for t_ in sorted(titles) + [None]:
                if all(holds(g, t_) is not (not tr) for g, tr in q.guards):
                    found.setdefault(t_, []).append(origs[fn_])
    if None in found and titles:
        problems.append(f"{found[None][0].func.id} is called for lines "
                        "that are not the title of its section")
    for title, fn in want_sections.items():
        cs_ = found.get(title, [])
        if not cs_ and not titles:
            problems.append(f"the dispatch of section {title!r} is not "
                            "recognised")
            continue
        if not cs_ or any(c_.func.id != fn for c_ in cs_):
            problems.append(f"section {title!r} is not read by {fn}")
            continue
        c = cs_[0]
        callee = repo.func(MOD, fn)
        if c.keywords or len(c.args) != len(callee.params):
            problems.append(f"{fn} is not called positionally with all its "
                            "parameters")
            continue
        for a, p in zip(c.args, callee.params):
            if p == "stream":
                if src(a) != fi.params[0]:
                    problems.append(f"{fn} does not continue reading the "
                                    "same stream")
                continue
            v = src(a)
            k = var_of_key.get(v)
            alias = {"n_cities": "dimension"}
            if k is None or k.lower() != alias.get(p, p):
                problems.append(
                    f"{fn}: parameter `{p}` receives `{v}`, which holds the "
                    f"value of key {k!r}")
    # ---- end of file and the constructed instance
    eof = [s for s in ast.walk(loop) if isinstance(s, ast.If) and isinstance(
        s.test, ast.Compare) and line is not None and src(
        s.test.left) == line and isinstance(
        s.test.ops[0], ast.Eq) and repo.const(
        mod, s.test.comparators[0]) == "EOF" and any(
        isinstance(x, ast.Break) for x in s.body)]
    if not eof:
        problems.append("reading does not stop at the EOF line")
    mk = [c for c in ast.walk(fi.node) if isinstance(c, ast.Call)
          and src(c.func) == "Instance"]
    okm = len(mk) == 1 and len(mk[0].args) == 3 and var_of_key.get(
        src(mk[0].args[0])) == "NAME" and src(mk[0].args[2]) in {
        src(t.targets[0]) for t in ast.walk(loop) if isinstance(
            t, ast.Assign) and isinstance(t.value, ast.Call)
        and isinstance(t.value.func, ast.Name)
        and t.value.func.id in want_sections.values()}
    if not okm:
        problems.append("the instance is not built from the NAME value and "
                        "the matrix of the data section")
    ctx.ob("D18.7", fi, loop, not problems,
           "`KEY : value` lines are split at the first colon; DIMENSION, "
           "EDGE_WEIGHT_TYPE, EDGE_WEIGHT_FORMAT and NODE_COORD_TYPE reach "
           "the section readers in the parameters of these names; "
           "NODE_COORD_SECTION / EDGE_WEIGHT_SECTION are read by their "
           "readers from the same stream; EOF ends the file; the instance "
           "is Instance(NAME, bound, matrix)" if not problems else
           "; ".join(dict.fromkeys(problems)),
           construct="header protocol")
