"""C18 - TSPLIB and tour files load to the matrices the format prescribes."""
from __future__ import annotations

import ast
from fractions import Fraction
from typing import Any

from sa import ordenum
from sa.kern import make_evaluator
from sa.report import Ctx
from sa.srcmodel import FuncInfo, func_body
from sa.symterm import Env, Evaluator, Poly, Unsupported, ite, show

MOD = "moptipyapps.tsp.instance"


def _app(fn: str, *args: Poly) -> Poly:
    return Poly.atom(("app", fn, tuple(args)))


def _cell(a: str, i: int) -> Poly:
    return Poly.atom(("cell", a, (Poly.const(i),)))


def run(ctx: Ctx) -> None:
    ctx.explanation = (
        "D18.1: the four coordinate distance functions are normalised "
        "symbolically and must equal the TSPLIB95 definitions (nint(sqrt), "
        "ceil(sqrt), ATT pseudo-Euclidean, GEO with PI=3.141592, "
        "RRR=6378.388, truncating degrees), and the EDGE_WEIGHT_TYPE table "
        "must map each type name to the function matching its formula. "
        "D18.2: each explicit-format index walker is a state machine whose "
        "start state and step function equal the successor function of the "
        "corresponding triangular enumeration (decided on all orderings of "
        "the compared quantities), with symmetric stores, untouched "
        "diagonal and the matching element count. D18.3: the writer emits "
        "only keys the reader handles, chooses UPPER_ROW iff symmetric and "
        "writes row i as self[i][i+1:] (the UPPER_ROW walker's order). "
        "D18.4: the tour parser rejects duplicates and wrong sizes and "
        "stores node-1. Not decided: arbitrary line wrapping, the shipped "
        "tours' lengths.")
    for rid, txt in (("D18.1", "distance functions == TSPLIB95"),
                     ("D18.2", "explicit format walkers"),
                     ("D18.3", "writer/reader agreement"),
                     ("D18.4", "tour parser checks")):
        ctx.rule(rid, txt)
    formulas = _distance_functions(ctx)
    _type_table(ctx, formulas)
    _walkers(ctx)
    _writer(ctx)
    _tour_parser(ctx)
    ctx.exhaustive = True
    ctx.assumptions += [
        "TSPLIB95 (Reinelt) distance definitions; GEO degrees are "
        "truncated (int), as in the TSPLIB FAQ and reference "
        "implementation",
        "float arithmetic treated as real arithmetic",
    ]


# ------------------------------------------------------------------ D18.1
def _nint_ok(ctx: Ctx) -> FuncInfo:
    fi = ctx.repo.func(MOD, "__nint")
    p = fi.params[0]
    ok_int = ok_float = False
    for n in ast.walk(fi.node):
        if isinstance(n, ast.If) and isinstance(n.test, ast.Call) and \
                ast.unparse(n.test.func) == "isinstance":
            ty = ast.unparse(n.test.args[1])
            ret = n.body[0] if n.body and isinstance(
                n.body[0], ast.Return) else None
            if ret is None:
                continue
            if ty == "int" and ast.unparse(ret.value) == p:
                ok_int = True
            if ty == "float":
                v = ret.value
                if isinstance(v, ast.Call) and ast.unparse(
                        v.func) == "int" and isinstance(
                        v.args[0], ast.BinOp) and isinstance(
                        v.args[0].op, ast.Add):
                    sides = {ast.unparse(v.args[0].left),
                             ast.unparse(v.args[0].right)}
                    ok_float = sides == {p, "0.5"}
    ctx.ob("D18.1", fi, fi.node, ok_int and ok_float,
           "nint(v) = v for integers and int(v + 0.5) otherwise",
           construct="nint")
    return fi


def _evaluator(ctx: Ctx, fi: FuncInfo, nint: FuncInfo) -> Evaluator:
    repo = ctx.repo

    def hook(ev: Evaluator, env: Env, n: ast.Call) -> Any:
        if isinstance(n.func, ast.Name):
            r = repo.resolve(fi.module, n.func.id)
            if r is nint and len(n.args) == 1:
                return _app("nint", ev.num(env, n.args[0]))
            if n.func.id == "int" and len(n.args) == 1:
                return _app("int", ev.num(env, n.args[0]))
        fn = n.func.id if isinstance(n.func, ast.Name) else (
            n.func.attr if isinstance(n.func, ast.Attribute) and isinstance(
                n.func.value, ast.Name) and n.func.value.id == "math"
            else None)
        if fn in ("radians", "degrees") and len(n.args) == 1 and \
                not n.keywords:
            # math.radians(x) = x * pi / 180 with the double closest to pi
            import math
            k = Fraction(math.pi) / 180
            return ev.num(env, n.args[0]).scale(
                k if fn == "radians" else 1 / k)
        return NotImplemented
    return make_evaluator(repo, fi, extra_call=hook)


def _distance_functions(ctx: Ctx) -> dict[str, str]:
    """function name -> TSPLIB type it implements."""
    repo = ctx.repo
    nint = _nint_ok(ctx)
    a0, a1, b0, b1 = _cell("a", 0), _cell("a", 1), _cell("b", 0), \
        _cell("b", 1)
    d2 = (a0 - b0) * (a0 - b0) + (a1 - b1) * (a1 - b1)
    euc = _app("nint", _app("sqrt", d2))
    r_ceil = _app("sqrt", d2)
    ceil = ite(("eq", *sorted((_app("int", r_ceil), r_ceil),
                              key=lambda p: repr(p.key()))),
               _app("int", r_ceil), _app("int", r_ceil) + Poly.const(1))
    r_att = _app("sqrt", d2.scale(Fraction(1, 10)))
    t_att = _app("nint", r_att)
    att = ite(("lt", t_att, r_att), t_att + Poly.const(1), t_att)

    def rad(x: Poly) -> Poly:
        deg = _app("int", x)
        return (deg + (x - deg).scale(Fraction(5, 3))).scale(
            Fraction("3.141592") / 180)
    lat1, lon1, lat2, lon2 = rad(a0), rad(a1), rad(b0), rad(b1)
    q1 = _app("cos", lon1 - lon2)
    q2 = _app("cos", lat1 - lat2)
    q3 = _app("cos", lat1 + lat2)
    one = Poly.const(1)
    geo = _app("int", _app("acos", ((one + q1) * q2 - (one - q1) * q3
                                    ).scale(Fraction(1, 2))).scale(
        Fraction("6378.388")) + one)
    refs = {"EUC_2D": euc, "CEIL_2D": ceil, "ATT": att, "GEO": geo}
    out: dict[str, str] = {}
    funcs = [f for f in repo.module(MOD).funcs.values()
             if f.name.startswith("__dist_")]
    ctx.floor("distance_functions", len(funcs), 4)
    for fi in funcs:
        ev = _evaluator(ctx, fi, nint)
        env = Env()
        env.vars["a"] = ("array", "a")
        env.vars["b"] = ("array", "b")
        try:
            got = ev.block(env, func_body(fi)).returned
        except Unsupported as u:
            ctx.ob("D18.1", fi, u.node or fi.node, False,
                   f"cannot normalise: {u}", construct=f"{fi.name}")
            continue
        # `cos` is even: normalise cos(-x) by trying both argument signs
        match = None
        for ty, ref in refs.items():
            if isinstance(got, Poly) and (got == ref or _cos_equal(
                    got, ref)):
                match = ty
        if match is not None:
            out[fi.name] = match
        ctx.ob("D18.1", fi, fi.node, match is not None,
               f"{fi.name} == TSPLIB95 {match}" if match else
               f"{fi.name} = {show(got)[:200]} matches none of the "
               "TSPLIB95 distance definitions", construct=f"{fi.name}")
    return out


def _cos_equal(a: Poly, b: Poly) -> bool:
    """Equality up to cos(x) = cos(-x)."""
    from sa.symterm import all_atoms

    def norm(p: Poly) -> Poly:
        sub = {}
        for at in all_atoms(p):
            if at[0] == "app" and at[1] == "cos":
                x = norm(at[2][0])
                key_pos = repr(x.key())
                key_neg = repr((-x).key())
                y = x if key_pos <= key_neg else -x
                sub[at] = Poly.atom(("app", "cos", (y,)))
            elif at[0] == "app" and at[1] in ("acos", "int", "sqrt"):
                sub[at] = Poly.atom(("app", at[1], tuple(
                    norm(x) for x in at[2])))
        return p.subst(sub) if sub else p
    try:
        return norm(a) == norm(b)
    except RecursionError:
        return False


def _type_table(ctx: Ctx, formulas: dict[str, str]) -> None:
    repo = ctx.repo
    fi = repo.func(MOD, "_matrix_from_node_coord_section")
    mod = fi.module
    n = 0
    for node in ast.walk(fi.node):
        if not isinstance(node, ast.If):
            continue
        ty = None
        for c in ast.walk(node.test):
            if isinstance(c, ast.Compare) and isinstance(
                    c.left, ast.Name) and c.left.id == "edge_weight_type" \
                    and isinstance(c.ops[0], ast.Eq):
                ty = repo.const(mod, c.comparators[0])
        fn = None
        for s in node.body:
            if isinstance(s, ast.Assign) and isinstance(
                    s.targets[0], ast.Name) and \
                    s.targets[0].id == "dist_fun" and isinstance(
                    s.value, ast.Name):
                fn = s.value.id
        if ty is None or fn is None:
            continue
        n += 1
        ok = formulas.get(fn) == ty
        ctx.ob("D18.1", fi, node, ok,
               f"EDGE_WEIGHT_TYPE {ty!r} uses {fn}, which implements "
               f"{formulas.get(fn, 'no TSPLIB formula')}",
               construct=f"type table {ty}")
    ctx.floor("edge_weight_types", n, 4)


# ------------------------------------------------------------------ D18.2
def _walkers(ctx: Ctx) -> None:
    repo = ctx.repo
    fi = repo.func(MOD, "_matrix_from_edge_weights")
    mod = fi.module
    n = Poly.var("n_cities")
    tri = _app("floordiv", n * (n - Poly.const(1)), Poly.const(2))
    i, j = Poly.var("i"), Poly.var("j")
    one, zero = Poly.const(1), Poly.const(0)
    spec = {
        "UPPER_ROW": {"start": (one, zero), "count": tri, "diag": False,
                      "succ": lambda: (
                          ite(("lt", i + one, n), i + one, j + Poly.const(2)),
                          ite(("lt", i + one, n), j, j + one))},
        "LOWER_DIAG_ROW": {"start": (zero, zero), "count": n + tri,
                           "diag": True, "succ": lambda: (
                               ite(("le", i + one, j), i + one, zero),
                               ite(("le", i + one, j), j, j + one))},
        "UPPER_DIAG_ROW": {"start": (zero, zero), "count": n + tri,
                           "diag": True, "succ": lambda: (
                               ite(("lt", i + one, n), i + one, j + one),
                               ite(("lt", i + one, n), j, j + one))},
    }
    found = set()
    for node in ast.walk(fi.node):
        if not (isinstance(node, ast.If) and isinstance(
                node.test, ast.Compare) and isinstance(
                node.test.left, ast.Name)
                and node.test.left.id == "edge_weight_format"):
            continue
        fmt = repo.const(mod, node.test.comparators[0])
        if fmt == "FULL_MATRIX":
            found.add(fmt)
            src = ast.unparse(ast.Module(body=node.body, type_ignores=[]))
            ok = "__read_n_ints(n_cities * n_cities" in src and \
                ".reshape((n_cities, n_cities))" in src
            ctx.ob("D18.2", fi, node, ok,
                   "FULL_MATRIX reads n*n numbers and reshapes them to "
                   "(n, n) row by row", construct="walker FULL_MATRIX",
                   nontrivial=False)
            continue
        if fmt not in spec:
            continue
        found.add(fmt)
        sp = spec[fmt]
        ev = make_evaluator(repo, fi)
        env = Env()
        count = None
        loop = None
        for s in node.body:
            if isinstance(s, (ast.Assign, ast.AnnAssign)) and isinstance(
                    s.value, ast.Call) and ast.unparse(
                    s.value.func).endswith("__read_n_ints"):
                try:
                    count = ev.num(env, s.value.args[0])
                except Unsupported:
                    count = None
            elif isinstance(s, (ast.Assign, ast.AnnAssign)) and \
                    s.value is not None and isinstance(
                    s.targets[0] if isinstance(s, ast.Assign)
                    else s.target, ast.Name):
                try:
                    env = ev.stmt(env, s)
                except Unsupported:
                    pass
            elif isinstance(s, ast.For):
                loop = s
        okc = count == sp["count"]
        ctx.ob("D18.2", fi, node, okc,
               f"{fmt}: reads {show(count) if count is not None else '?'} "
               f"numbers; the format has {show(sp['count'])}",
               construct=f"walker {fmt} count")
        start = (env.vars.get("i"), env.vars.get("j"))
        ctx.ob("D18.2", fi, node, start == sp["start"],
               f"{fmt}: starts at (i, j) = "
               f"({show(start[0]) if start[0] is not None else '?'}, "
               f"{show(start[1]) if start[1] is not None else '?'})",
               construct=f"walker {fmt} start")
        if loop is None:
            ctx.ob("D18.2", fi, node, False, f"{fmt}: no loop over the "
                   "numbers", construct=f"walker {fmt} step")
            continue
        # the body: stores, then the step
        benv = Env()
        benv.vars["i"] = i
        benv.vars["j"] = j
        stores = []
        step_stmts = []
        guard_diag = False
        for s in loop.body:
            tgt_sub = isinstance(s, ast.Assign) and any(
                isinstance(t, ast.Subscript) for t in s.targets)
            if tgt_sub:
                stores.append(s)
            elif isinstance(s, ast.If) and any(
                    isinstance(x, ast.Assign) and any(
                        isinstance(t, ast.Subscript) for t in x.targets)
                    for x in s.body):
                guard_diag = ast.unparse(s.test).replace(" ", "") in (
                    "i!=j", "j!=i")
                stores += [x for x in s.body if isinstance(x, ast.Assign)]
            else:
                step_stmts.append(s)
        try:
            for s in step_stmts:
                benv = ev.stmt(benv, s)
            gi, gj = benv.vars["i"], benv.vars["j"]
            wi, wj = sp["succ"]()
            terms = ordenum.ite_cond_terms(gi) + [
                t for t in ordenum.ite_cond_terms(gj)] + \
                ordenum.ite_cond_terms(wi)
            uniq: list[Poly] = []
            for t in terms:
                if t not in uniq:
                    uniq.append(t)
            bad = None
            cnt = 0
            for m in ordenum.enumerate_models(uniq, integer=False):
                cnt += 1
                if (m.select(gi), m.select(gj)) != (m.select(wi),
                                                    m.select(wj)):
                    bad = m.describe()
            ctx.count("orderings_enumerated", cnt)
            ctx.ob("D18.2", fi, loop, bad is None,
                   f"{fmt}: the step (i, j) -> ({show(gi)[:70]}, "
                   f"{show(gj)[:70]}) equals the successor of the "
                   "triangular enumeration" if bad is None else
                   f"{fmt}: the step differs from the triangular "
                   f"enumeration's successor for {bad}",
                   construct=f"walker {fmt} step")
        except (Unsupported, KeyError) as u:
            ctx.ob("D18.2", fi, loop, False, f"{fmt}: step not normalised: "
                   f"{u}", construct=f"walker {fmt} step")
        # stores: res[j, i] = res[i, j] = v
        oks = len(stores) == 1 and len(stores[0].targets) == 2 and {
            ast.unparse(t).replace(" ", "") for t in stores[0].targets
        } == {"res[j,i]", "res[i,j]"} and isinstance(
            stores[0].value, ast.Name) and stores[0].value.id == \
            loop.target.id
        okd = (guard_diag == sp["diag"])
        ctx.ob("D18.2", fi, stores[0] if stores else loop, oks and okd,
               f"{fmt}: each number is stored symmetrically at [i, j] and "
               "[j, i]" + ("; diagonal entries are skipped" if sp["diag"]
                           else ""), construct=f"walker {fmt} stores")
    ctx.floor("explicit_formats", len(found), 4)


# ------------------------------------------------------------------ D18.3
def _writer(ctx: Ctx) -> None:
    repo = ctx.repo
    ts = repo.func(MOD, "Instance.to_stream")
    fs = repo.func(MOD, "_from_stream")
    emitted = set()
    for n in ast.walk(ts.node):
        if isinstance(n, ast.JoinedStr) and n.values and isinstance(
                n.values[0], ast.FormattedValue) and isinstance(
                n.values[0].value, ast.Name) and \
                n.values[0].value.id.startswith("_KEY_"):
            emitted.add(n.values[0].value.id)
    handled = {c.comparators[0].id for c in ast.walk(fs.node)
               if isinstance(c, ast.Compare) and isinstance(
                   c.left, ast.Name) and c.left.id == "key"
               and isinstance(c.comparators[0], ast.Name)}
    missing = sorted(emitted - handled - {"_KEY_COMMENT"})
    ctx.ob("D18.3", ts, ts.node, not missing and len(emitted) >= 5,
           f"writer emits {sorted(emitted)}; all are handled by the reader "
           "(COMMENT is ignored by design)" if not missing else
           f"writer emits {missing}, which the reader does not handle",
           construct="TSPLIB key sets")
    src = ast.unparse(ts.node)
    ok_fmt = "_EWF_UPPER_ROW if self.is_symmetric else _EWF_FULL_MATRIX" \
        in src
    ok_ty = "_TYPE_SYMMETRIC_TSP if self.is_symmetric else " \
            "_TYPE_ASYMMETRIC_TSP" in src
    ctx.ob("D18.3", ts, ts.node, ok_fmt and ok_ty,
           "symmetric instances are written as TSP / UPPER_ROW, others as "
           "ATSP / FULL_MATRIX", construct="writer format choice")
    # row emission under is_symmetric
    sym_rows = full_rows = None
    for n in ast.walk(ts.node):
        if isinstance(n, ast.If) and ast.unparse(n.test) == \
                "self.is_symmetric":
            for br, name in ((n.body, "sym"), (n.orelse, "full")):
                for lp in br:
                    if isinstance(lp, ast.For):
                        rng = ast.unparse(lp.iter).replace(" ", "")
                        emitted_rows = [
                            ast.unparse(x) for x in ast.walk(lp)
                            if isinstance(x, ast.Subscript)]
                        if name == "sym":
                            sym_rows = (rng, emitted_rows)
                        else:
                            full_rows = (rng, emitted_rows)
    iv = "i"
    ok_rows = sym_rows is not None and sym_rows[0] == \
        "range(self.n_cities)" and any(
        r.replace(" ", "") == f"self[{iv}][{iv}+1:]" for r in sym_rows[1])
    ok_full = full_rows is not None and full_rows[0] == \
        "range(self.n_cities)" and f"self[{iv}]" in full_rows[1]
    ctx.ob("D18.3", ts, ts.node, bool(ok_rows and ok_full),
           "UPPER_ROW output is row i = self[i][i+1:] for i = 0..n-1: the "
           "order (row j, columns j+1..n-1) the UPPER_ROW walker consumes; "
           "FULL_MATRIX output is whole rows",
           construct="writer row order")
    sec = "_START_EDGE_WEIGHT_SECTION"
    ok_sec = sec in src and sec in ast.unparse(fs.node) and \
        "_EWT_EXPLICIT" in src
    ctx.ob("D18.3", ts, ts.node, ok_sec,
           "writer and reader use the same section marker and EXPLICIT "
           "type constants", construct="section markers", nontrivial=False)


# ------------------------------------------------------------------ D18.4
def _tour_parser(ctx: Ctx) -> None:
    repo = ctx.repo
    fi = repo.func("moptipyapps.tsp.known_optima", "_from_stream")
    src = ast.unparse(fi.node)
    dup = any(isinstance(n, ast.If) and n.body and isinstance(
        n.body[-1], ast.Raise) and isinstance(n.test, ast.Compare)
        and isinstance(n.test.ops[0], ast.In) for n in ast.walk(fi.node))
    size = any(isinstance(n, ast.If) and n.body and isinstance(
        n.body[-1], ast.Raise) and "len(nodes)" in ast.unparse(n.test)
        and "max_node" in ast.unparse(n.test) and isinstance(
            n.test.ops[0], ast.NotEq) for n in ast.walk(fi.node))
    minus1 = "nodes.append(node - 1)" in src
    rng = any(isinstance(n, ast.Call) and ast.unparse(n.func) ==
              "check_to_int_range" and len(n.args) >= 3 and repo.const(
        fi.module, n.args[2]) == 1 for n in ast.walk(fi.node))
    ok = dup and size and minus1 and rng
    ctx.ob("D18.4", fi, fi.node, ok,
           "tour parser: ids >= 1, duplicates rejected, count == largest "
           "id, stored zero-based: the result is a permutation of 0..n-1"
           if ok else f"tour parser checks missing: duplicate={dup} "
           f"size={size} zero_based={minus1} range={rng}",
           construct="tour parser checks")
