"""D16.4 - rules on the neural-network code *generator* `make_ann`."""
from __future__ import annotations

import ast

from sa.report import Ctx
from sa.srcmodel import ClassInfo, FuncInfo, func_body


def _emit_fields(call: ast.Call) -> list[tuple[str, str]]:
    """
    For `write(f"... params[{params}] ...")` return [(array, varname), ...]
    for every `<array>[{<name>}]` pattern in the f-string.
    """
    out: list[tuple[str, str]] = []
    if not call.args or not isinstance(call.args[0], ast.JoinedStr):
        return out
    vals = call.args[0].values
    for i, v in enumerate(vals):
        if isinstance(v, ast.FormattedValue) and i > 0 and isinstance(
                vals[i - 1], ast.Constant):
            pre = str(vals[i - 1].value)
            post = str(vals[i + 1].value) if i + 1 < len(vals) and \
                isinstance(vals[i + 1], ast.Constant) else ""
            if pre.endswith("[") and post.startswith("]"):
                arr = ""
                j = len(pre) - 2
                while j >= 0 and (pre[j].isalnum() or pre[j] == "_"):
                    arr = pre[j] + arr
                    j -= 1
                val = v.value
                name = val.id if isinstance(val, ast.Name) \
                    else ast.unparse(val)
                # `{counter + k}`: the counter with a constant offset
                if isinstance(val, ast.BinOp) and isinstance(
                        val.op, ast.Add):
                    for a_, b_ in ((val.left, val.right),
                                   (val.right, val.left)):
                        if isinstance(a_, ast.Name) and isinstance(
                                b_, ast.Constant) and isinstance(
                                b_.value, int) and b_.value >= 0:
                            name = f"{a_.id}+{b_.value}"
                out.append((arr, name))
    return out


def _split_offset(name: str) -> tuple[str, int]:
    if "+" in name:
        a, b = name.split("+", 1)
        if b.isdigit():
            return a, int(b)
    return name, 0


def _counter_step(s: ast.stmt, counter: str) -> int | None:
    """The constant `s` adds to the counter, None if `s` is no such step."""
    if isinstance(s, ast.AugAssign) and isinstance(
            s.target, ast.Name) and s.target.id == counter and isinstance(
            s.op, ast.Add) and isinstance(s.value, ast.Constant) and \
            isinstance(s.value.value, int):
        return s.value.value
    if isinstance(s, ast.Assign) and len(s.targets) == 1 and isinstance(
            s.targets[0], ast.Name) and s.targets[0].id == counter and \
            isinstance(s.value, ast.BinOp) and isinstance(
            s.value.op, ast.Add):
        for a_, b_ in ((s.value.left, s.value.right),
                       (s.value.right, s.value.left)):
            if isinstance(a_, ast.Name) and a_.id == counter and \
                    isinstance(b_, ast.Constant) and isinstance(
                    b_.value, int):
                return b_.value
    return None


def check_generator(ctx: Ctx, fi: FuncInfo) -> None:
    repo = ctx.repo
    mod = fi.module
    # --- discover the writer aliases -------------------------------------
    gen_cls = repo.resolve(mod, "CodeGenerator")
    ctx.need(isinstance(gen_cls, ClassInfo), "CodeGenerator class")
    code_var = None
    writers: set[str] = set()
    for n in ast.walk(fi.node):
        if isinstance(n, (ast.Assign, ast.AnnAssign)) and n.value is not None:
            tgt = n.targets[0] if isinstance(n, ast.Assign) else n.target
            if isinstance(tgt, ast.Name) and isinstance(n.value, ast.Call) \
                    and repo.resolve_expr(mod, n.value.func) is gen_cls:
                code_var = tgt.id
    ctx.need(code_var, "make_ann: `code = CodeGenerator(...)`")
    for n in ast.walk(fi.node):
        if isinstance(n, (ast.Assign, ast.AnnAssign)) and n.value is not None:
            tgt = n.targets[0] if isinstance(n, ast.Assign) else n.target
            v = n.value
            if isinstance(tgt, ast.Name) and isinstance(v, ast.Attribute) \
                    and isinstance(v.value, ast.Name) and \
                    v.value.id == code_var and v.attr in ("write", "writeln"):
                writers.add(tgt.id)

    def is_emit(c: ast.Call) -> bool:
        f = c.func
        if isinstance(f, ast.Name) and f.id in writers:
            return True
        return isinstance(f, ast.Attribute) and isinstance(
            f.value, ast.Name) and f.value.id == code_var and f.attr in (
            "write", "writeln")

    # --- which counter is emitted as params index? -----------------------
    counters: set[str] = set()
    n_emit = 0
    for n in ast.walk(fi.node):
        if isinstance(n, ast.Call) and is_emit(n):
            for arr, nm in _emit_fields(n):
                if arr == "params":
                    counters.add(_split_offset(nm)[0])
                    n_emit += 1
    ctx.count("make_ann_param_emissions", n_emit)
    if len(counters) != 1:
        ctx.ob("D16.4", fi, fi.node, False,
               f"the emitted params[...] indices use {sorted(counters)}: "
               "the scheme `one running parameter counter, increased after "
               "every emission` is not recognised",
               construct="single parameter counter")
        return
    counter = next(iter(counters))

    # --- pending-state walk ----------------------------------------------
    problems: list[tuple[ast.AST, str]] = []

    def walk(stmts: list[ast.stmt], pending: frozenset[int],
             loops: list[ast.For]) -> frozenset[int]:
        for s in stmts:
            pending = stmt(s, pending, loops)
        return pending

    def stmt(s: ast.stmt, pending: frozenset[int],
             loops: list[ast.For]) -> frozenset[int]:
        if isinstance(s, ast.For):
            state = pending
            for _ in range(4):
                end = walk(s.body, state, loops + [s])
                new = state | end
                if new == state:
                    break
                state = new
            return walk(s.orelse, state, loops) if s.orelse else state
        if isinstance(s, ast.While):
            state = pending
            for _ in range(4):
                end = walk(s.body, state, loops)
                new = state | end
                if new == state:
                    break
                state = new
            return state
        if isinstance(s, ast.If):
            a = walk(s.body, pending, loops)
            b = walk(s.orelse, pending, loops)
            return a | b
        step = _counter_step(s, counter)
        if step is not None:
            # `counter += k` / `counter = counter + k`: exactly the k indices
            # emitted since the last step are counted
            if step < 1:
                problems.append((s, f"{counter} changed by something other "
                                    "than a positive constant"))
                return frozenset({0})
            if pending != frozenset({step}):
                if 0 in pending or any(p_ < step for p_ in pending):
                    problems.append((
                        s, f"`{ast.unparse(s)}` without {step} preceding "
                           "emission(s): a parameter index is skipped "
                           "(declared but unused parameter)"))
                else:
                    problems.append((
                        s, f"`{ast.unparse(s)}` counts fewer parameters "
                           "than were emitted: two weights share one "
                           "parameter"))
            return frozenset({0})
        if isinstance(s, ast.AugAssign) and isinstance(
                s.target, ast.Name) and s.target.id == counter:
            problems.append((s, f"{counter} changed by something other "
                                "than adding a constant"))
            return frozenset({0})
        if isinstance(s, (ast.Assign, ast.AnnAssign)):
            tgt = s.targets[0] if isinstance(s, ast.Assign) else s.target
            if isinstance(tgt, ast.Name) and tgt.id == counter:
                ok = isinstance(s.value, ast.Constant) and \
                    s.value.value == 0 and not loops
                if not ok:
                    problems.append((s, f"{counter} re-assigned"))
                return frozenset({0})
        for n in ast.walk(s):
            if isinstance(n, ast.Call) and is_emit(n):
                fields = _emit_fields(n)
                offs = [_split_offset(nm)[1] for a, nm in fields
                        if a == "params"]
                k = len(offs)
                if k >= 1:
                    # the offsets must continue the indices emitted since
                    # the last step of the counter: p, p+1, ..., p+k-1
                    if len(pending) != 1:
                        problems.append((n, "params[...] emitted with an "
                                            "unknown number of uncounted "
                                            "parameters before it"))
                        pending = frozenset({k})
                    else:
                        p0 = next(iter(pending))
                        if sorted(offs) != list(range(p0, p0 + k)):
                            problems.append((
                                n, "params[{%s}] emitted again before the "
                                   "counter was incremented (or an index "
                                   "is skipped): offsets %s after %d "
                                   "uncounted emission(s) - two weights "
                                   "share one parameter" % (
                                       counter, sorted(offs), p0)))
                        pending = frozenset({p0 + k})
                for a, nm in fields:
                    if a in ("state", "out"):
                        want = "state_dims" if a == "state" \
                            else "control_dims"
                        good = False
                        for lp in loops:
                            if isinstance(lp.target, ast.Name) and \
                                    lp.target.id == nm and isinstance(
                                    lp.iter, ast.Call) and isinstance(
                                    lp.iter.func, ast.Name) and \
                                    lp.iter.func.id == "range" and len(
                                    lp.iter.args) == 1 and isinstance(
                                    lp.iter.args[0], ast.Name) and \
                                    lp.iter.args[0].id == want:
                                good = True
                        for lp in loops:
                            # for nm, x in enumerate(L) with L = [.. for ..
                            # in range(want)], untouched in between
                            if not (isinstance(lp.target, ast.Tuple)
                                    and len(lp.target.elts) == 2
                                    and isinstance(lp.target.elts[0],
                                                   ast.Name)
                                    and lp.target.elts[0].id == nm
                                    and isinstance(lp.iter, ast.Call)
                                    and isinstance(lp.iter.func, ast.Name)
                                    and lp.iter.func.id == "enumerate"
                                    and len(lp.iter.args) == 1
                                    and isinstance(lp.iter.args[0],
                                                   ast.Name)):
                                continue
                            lname = lp.iter.args[0].id
                            defs = [d for d in ast.walk(fi.node)
                                    if isinstance(d, (ast.Assign,
                                                      ast.AnnAssign))
                                    and d.value is not None and isinstance(
                                        d.targets[0] if isinstance(
                                            d, ast.Assign) else d.target,
                                        ast.Name) and (
                                        d.targets[0] if isinstance(
                                            d, ast.Assign)
                                        else d.target).id == lname
                                    and d.lineno < lp.lineno]
                            if len(defs) != 1 or not isinstance(
                                    defs[0].value, ast.ListComp):
                                continue
                            g = defs[0].value.generators
                            touched = any(
                                isinstance(x, ast.Name) and x.id == lname
                                and defs[0].end_lineno < x.lineno
                                < lp.lineno for x in ast.walk(fi.node))
                            if len(g) == 1 and not g[0].ifs and \
                                    ast.unparse(g[0].iter).replace(
                                        " ", "") == f"range({want})" \
                                    and not touched:
                                good = True
                        if not good:
                            problems.append((n, f"{a}[{{{nm}}}] is not "
                                                f"emitted under `for {nm} in "
                                                f"range({want})`"))
                        ctx.count("make_ann_index_emissions")
            elif isinstance(n, ast.Call) and repo.resolve_expr(
                    mod, n.func) is repo.cls(
                    "moptipyapps.dynamic_control.controller", "Controller"):
                if pending != frozenset({0}):
                    problems.append((n, "Controller built while an emitted "
                                        "parameter was not yet counted"))
                if len(n.args) < 4 or not (isinstance(
                        n.args[3], ast.Name) and n.args[3].id == counter):
                    problems.append((n, "param_dims passed to Controller is "
                                        f"not the counter {counter}"))
                sd_ok = len(n.args) >= 3 and all(
                    isinstance(x, ast.Name) and x.id == w for x, w in zip(
                        n.args[1:3], ("state_dims", "control_dims")))
                if not sd_ok:
                    problems.append((n, "state/control dims passed to "
                                        "Controller are not the ones the "
                                        "code was generated for"))
                ctx.count("make_ann_controller_sites")
        return pending

    from sa.srcmodel import func_body
    walk(func_body(fi), frozenset({0}), [])
    if ctx.counters.get("make_ann_controller_sites", 0) < 1:
        problems.append((fi.node, "no Controller(...) construction found"))
    if problems:
        for node, why in problems:
            ctx.ob("D16.4", fi, node, False, why,
                   construct="param counter protocol: " + why[:60])
    else:
        ctx.ob("D16.4", fi, fi.node, True,
               f"{n_emit} params[{{{counter}}}] emission sites, each "
               f"followed by `{counter} += 1` before the next emission on "
               "every path; Controller receives the counter",
               construct="param counter protocol")
    _check_recycling(ctx, fi)
    check_layer_protocol(ctx, fi)


def _check_recycling(ctx: Ctx, fi: FuncInfo) -> None:
    """Variables of the input layer must not be recycled inside the neuron
    loop of the layer that still reads them."""
    layer_loops = [n for n in ast.walk(fi.node) if isinstance(n, ast.For)
                   and any(isinstance(x, ast.For) and any(
                       isinstance(y, ast.Call) and isinstance(
                           y.func, ast.Attribute) and y.func.attr == "pop"
                       for y in ast.walk(x)) for x in n.body)]
    if not layer_loops:
        ctx.ob("D16.4", fi, fi.node, True, "no variable recycling present",
               construct="variable recycling", nontrivial=False)
        return
    ok = True
    why = ""
    bad_node: ast.AST = fi.node
    for lay in layer_loops:
        neuron = next(x for x in lay.body if isinstance(x, ast.For) and any(
            isinstance(y, ast.Call) and isinstance(y.func, ast.Attribute)
            and y.func.attr == "pop" for y in ast.walk(x)))
        cache = None
        for y in ast.walk(neuron):
            if isinstance(y, ast.Call) and isinstance(
                    y.func, ast.Attribute) and y.func.attr == "pop" and \
                    isinstance(y.func.value, ast.Name):
                cache = y.func.value.id
        inputs = {x.iter.id for x in ast.walk(neuron)
                  if isinstance(x, ast.For) and x is not neuron
                  and isinstance(x.iter, ast.Name)}
        idx = lay.body.index(neuron)
        for pos, st in enumerate(lay.body):
            for y in ast.walk(st):
                feeds = False
                if isinstance(y, ast.Call) and isinstance(
                        y.func, ast.Attribute) and isinstance(
                        y.func.value, ast.Name) and \
                        y.func.value.id == cache and y.func.attr in (
                        "extend", "append", "insert"):
                    feeds = any(isinstance(a, ast.Name) and a.id in inputs
                                or not isinstance(a, ast.Name)
                                for a in y.args)
                if isinstance(y, ast.AugAssign) and isinstance(
                        y.target, ast.Name) and y.target.id == cache:
                    feeds = True
                if feeds and pos <= idx:
                    ok = False
                    bad_node = y
                    why = (f"`{ast.unparse(y)}` recycles input variables "
                           "before all neurons of the layer were emitted")
    ctx.ob("D16.4", fi, bad_node, ok,
           why or "input variables are recycled only after the layer's "
                  "neuron loop", construct="variable recycling")


# ---------------------------------------------------------------------------
# Abstract interpretation of the generator's variable bookkeeping
# ---------------------------------------------------------------------------
# Lists of variable names are abstracted to {tag: level} with tags
#   IN   - outputs of the previous layer (or the cached state variables):
#          exactly what the current layer must read
#   OUT  - outputs produced by the layer being generated
#   DEAD - variables whose value is no longer needed (safe to overwrite)
# and levels none < some < all ("all" = contains every variable of that tag).
def _join_level(a: str, b: str) -> str:
    if a == b:
        return a
    if "some" in (a, b) or {a, b} == {"all", "none"}:
        return "some"
    return a


class AbsLists:
    TAGS = ("IN", "OUT", "DEAD")

    def __init__(self) -> None:
        self.lists: dict[str, dict[str, str]] = {}
        self.scalars: dict[str, set[str]] = {}

    def copy(self) -> "AbsLists":
        c = AbsLists()
        # names that refer to the same list object keep doing so
        memo: dict[int, dict[str, str]] = {}
        for k, v in self.lists.items():
            if id(v) not in memo:
                memo[id(v)] = dict(v)
            c.lists[k] = memo[id(v)]
        c.scalars = {k: set(v) for k, v in self.scalars.items()}
        return c

    def join(self, o: "AbsLists") -> "AbsLists":
        r = AbsLists()
        for k in set(self.lists) | set(o.lists):
            a = self.lists.get(k, _empty())
            b = o.lists.get(k, _empty())
            r.lists[k] = {t: _join_level(a[t], b[t]) for t in self.TAGS}
        for k in set(self.scalars) | set(o.scalars):
            r.scalars[k] = self.scalars.get(k, set()) | o.scalars.get(
                k, set())
        return r

    def __eq__(self, o: object) -> bool:
        return isinstance(o, AbsLists) and self.lists == o.lists and \
            self.scalars == o.scalars


def _empty() -> dict[str, str]:
    return {t: "none" for t in AbsLists.TAGS}


def check_layer_protocol(ctx: Ctx, fi: FuncInfo) -> None:
    """O1-O3 of the layer bookkeeping, for every architecture at once."""
    from sa.srcmodel import func_body
    body = func_body(fi)
    problems: list[tuple[ast.AST, str]] = []

    def emits_assignment(s: ast.stmt) -> str | None:
        """`write(f"{var} = ...")` -> 'var'."""
        for n in ast.walk(s):
            if isinstance(n, ast.Call) and n.args and isinstance(
                    n.args[0], ast.JoinedStr):
                v = n.args[0].values
                if len(v) >= 2 and isinstance(
                        v[0], ast.FormattedValue) and isinstance(
                        v[0].value, ast.Name) and isinstance(
                        v[1], ast.Constant) and str(
                        v[1].value).startswith(" ="):
                    return v[0].value.id
        return None

    def reads_inputs(s: ast.For) -> bool:
        return isinstance(s.iter, ast.Name) and any(
            isinstance(n, ast.Call) and n.args and isinstance(
                n.args[0], ast.JoinedStr) and any(
                isinstance(x, ast.FormattedValue) and isinstance(
                    x.value, ast.Name) and isinstance(s.target, ast.Name)
                and x.value.id == s.target.id for x in n.args[0].values)
            for n in ast.walk(s))

    layer_loop = None
    for s in body:
        if isinstance(s, ast.For) and any(
                isinstance(x, ast.For) and any(
                    isinstance(y, ast.For) and reads_inputs(y)
                    for y in ast.walk(x) if y is not x)
                for x in s.body):
            layer_loop = s
    if layer_loop is None:
        ctx.ob("D16.4", fi, fi.node, False,
               "cannot find the layer / neuron / input loop nest",
               construct="layer bookkeeping")
        return

    in_layer = [False]
    depth_neuron = [0]
    # scalar names that are emitted as the left-hand side of a generated
    # assignment inside the layer loop: the neuron output variables
    out_names: set[str] = set()
    for n in ast.walk(layer_loop):
        if isinstance(n, ast.Expr):
            v = emits_assignment(n)
            if v is not None:
                out_names.add(v)

    def define_output(st: "AbsLists", name: str, tags: set[str],
                      node: ast.AST) -> None:
        live = tags - {"DEAD"}
        if live:
            problems.append(
                (node, f"neuron output `{name}` may reuse a variable that "
                       f"is still needed (tags {sorted(live)}): an input "
                       "of this layer would be clobbered"))
        st.scalars[name] = {"OUT"}

    def exec_block(st: AbsLists, stmts: list[ast.stmt]) -> AbsLists:
        for s in stmts:
            st = exec_stmt(st, s)
        return st

    def tags_of(st: AbsLists, e: ast.expr) -> set[str]:
        if isinstance(e, ast.Name) and e.id in st.scalars:
            return set(st.scalars[e.id])
        if isinstance(e, ast.JoinedStr):
            return {"DEAD"}     # a brand-new variable name: nothing live
        return set()

    def exec_stmt(st: AbsLists, s: ast.stmt) -> AbsLists:
        if isinstance(s, (ast.Assign, ast.AnnAssign)) and getattr(
                s, "value", None) is not None:
            tg = s.targets[0] if isinstance(s, ast.Assign) else s.target
            v = s.value
            if isinstance(tg, ast.Name) and isinstance(v, ast.List) and \
                    not v.elts:
                st.lists[tg.id] = _empty()
                return st
            if isinstance(tg, ast.Tuple) and isinstance(v, ast.Tuple) and \
                    len(tg.elts) == len(v.elts) and all(
                    isinstance(x, ast.Name) for x in tg.elts + v.elts):
                src = [x.id for x in v.elts]
                if all(n in st.lists for n in src):
                    if len(set(src)) != len(src):
                        problems.append((s, "two names alias one list"))
                    vals = [dict(st.lists[n]) for n in src]
                    for t, val in zip(tg.elts, vals):
                        st.lists[t.id] = val
                    return st
            if isinstance(tg, ast.Name):
                if isinstance(v, ast.Call) and isinstance(
                        v.func, ast.Attribute) and v.func.attr == "pop" \
                        and isinstance(v.func.value, ast.Name) and \
                        v.func.value.id in st.lists:
                    lst = st.lists[v.func.value.id]
                    tags = {t for t in AbsLists.TAGS if lst[t] != "none"}
                    st.scalars[tg.id] = tags
                    for t in AbsLists.TAGS:
                        if lst[t] == "all":
                            lst[t] = "some"
                    if in_layer[0] and tg.id in out_names:
                        define_output(st, tg.id, tags, s)
                    return st
                if isinstance(v, ast.JoinedStr):
                    # a new name; inside the layer loop it is dead until
                    # emitted, outside (state cache) it is an input
                    st.scalars[tg.id] = {"DEAD" if in_layer[0] else "IN"}
                    if in_layer[0] and tg.id in out_names:
                        define_output(st, tg.id, {"DEAD"}, s)
                    return st
                if isinstance(v, ast.Name) and v.id in st.lists:
                    # reference semantics: both names denote one list from
                    # here on (a later clear / append through either is
                    # seen through both)
                    st.lists[tg.id] = st.lists[v.id]
                    return st
                if isinstance(v, ast.ListComp) and isinstance(
                        v.elt, ast.JoinedStr) and not in_layer[0]:
                    # [f"s{i}" for i in range(state_dims)]: all the cached
                    # state variables, i.e. the inputs of the first layer
                    st.lists[tg.id] = _empty()
                    st.lists[tg.id]["IN"] = "all"
                    return st
            return st
        if isinstance(s, ast.Expr) and isinstance(s.value, ast.Call):
            c = s.value
            f = c.func
            if isinstance(f, ast.Attribute) and isinstance(
                    f.value, ast.Name) and f.value.id in st.lists:
                lst = st.lists[f.value.id]
                if f.attr == "append" and len(c.args) == 1:
                    for t in tags_of(st, c.args[0]) or set(AbsLists.TAGS):
                        lst[t] = "some" if lst[t] == "none" else lst[t]
                elif f.attr == "extend" and len(c.args) == 1 and \
                        isinstance(c.args[0], ast.Name) and \
                        c.args[0].id in st.lists:
                    o = st.lists[c.args[0].id]
                    for t in AbsLists.TAGS:
                        if o[t] == "all" or lst[t] == "all":
                            lst[t] = "all"
                        elif o[t] == "some" or lst[t] == "some":
                            lst[t] = "some"
                elif f.attr == "clear":
                    st.lists[f.value.id] = _empty()
                elif f.attr in ("pop", "remove"):
                    for t in AbsLists.TAGS:
                        if lst[t] == "all":
                            lst[t] = "some"
                return st
            # an emission that defines a variable: the variable becomes OUT
            return st
        if isinstance(s, ast.If):
            a = exec_block(st.copy(), s.body)
            b = exec_block(st.copy(), s.orelse)
            return a.join(b)
        if isinstance(s, ast.For):
            if reads_inputs(s):
                lst = st.lists.get(s.iter.id)
                if lst is None:
                    problems.append((s, "inputs are not a tracked list"))
                else:
                    extra = [t for t in ("OUT", "DEAD")
                             if lst[t] != "none"]
                    if extra:
                        problems.append(
                            (s, f"`{s.iter.id}` may contain variables that "
                                f"are not outputs of the previous layer "
                                f"(tags {extra}): stale values are fed "
                                "into this layer"))
                    if lst["IN"] != "all":
                        problems.append(
                            (s, f"`{s.iter.id}` may miss outputs of the "
                                "previous layer"))
                return st
            if s is layer_loop:
                return exec_layers(st, s)
            # generic loop: iterate to a fixpoint; unconditional appends
            # of per-iteration elements make the list complete
            head = st
            end = st
            for _ in range(6):
                end = exec_block(head.copy(), s.body)
                new = head.join(end)
                if new == head:
                    break
                head = new
            # completeness: a top-level `L.append(x)` of a variable created
            # in this very iteration
            for b in s.body:
                if isinstance(b, ast.Expr) and isinstance(
                        b.value, ast.Call) and isinstance(
                        b.value.func, ast.Attribute) and \
                        b.value.func.attr == "append" and isinstance(
                        b.value.func.value, ast.Name) and len(
                        b.value.args) == 1:
                    ln = b.value.func.value.id
                    tg = tags_of(end, b.value.args[0])
                    if ln in head.lists and len(tg) == 1:
                        t = next(iter(tg))
                        created = any(
                            isinstance(x, (ast.Assign, ast.AnnAssign))
                            and isinstance(
                                x.targets[0] if isinstance(x, ast.Assign)
                                else x.target, ast.Name) and (
                                x.targets[0] if isinstance(x, ast.Assign)
                                else x.target).id == getattr(
                                b.value.args[0], "id", None)
                            for x in ast.walk(s))
                        others_add = False
                        if created and st.lists[ln][t] in ("none", "all") \
                                and not others_add:
                            head.lists[ln][t] = "all" if (
                                st.lists[ln][t] == "none"
                                or st.lists[ln][t] == "all") else "some"
            return head
        return st

    def exec_layers(st: AbsLists, loop: ast.For) -> AbsLists:
        in_layer[0] = True
        head = st.copy()
        for _ in range(8):
            end = exec_block(head.copy(), loop.body)
            # layer boundary: outputs become the next inputs, the old
            # inputs die
            for lst in end.lists.values():
                new = _empty()
                new["IN"] = lst["OUT"]
                dead = lst["DEAD"]
                if lst["IN"] != "none":
                    dead = "some" if dead in ("none", "some") else dead
                new["DEAD"] = dead
                lst.update(new)
            for k in end.scalars:
                end.scalars[k] = {"DEAD"}
            new_head = head.join(end)
            if new_head == head:
                break
            head = new_head
        in_layer[0] = False
        return head

    del depth_neuron
    st = AbsLists()
    final = exec_block(st, body)
    del final
    # de-duplicate messages
    seen = set()
    uniq = []
    for node, why in problems:
        if why not in seen:
            seen.add(why)
            uniq.append((node, why))
    if uniq:
        for node, why in uniq:
            ctx.ob("D16.4", fi, node, False, why,
                   construct="layer bookkeeping: " + why[:70])
    else:
        ctx.ob("D16.4", fi, layer_loop, True,
               "abstract interpretation of the variable lists (tags IN / "
               "OUT / DEAD, levels none/some/all) to a fixpoint over the "
               "layer loop: every layer reads exactly the previous layer's "
               "outputs, neuron outputs only overwrite dead variables, and "
               "the output layer reads exactly the last hidden layer",
               construct="layer bookkeeping")


# ------------------------------------------------------------------ D16.7
def check_emission_grammar(ctx: Ctx, fi: FuncInfo) -> None:
    """The emitted statements are well-formed and define what they use."""
    repo = ctx.repo
    body = func_body(fi)
    problems: list[str] = []

    def src(n: ast.AST) -> str:
        return ast.unparse(n)
    emit_names: dict[str, str] = {}       # alias -> write | writeln
    for s in body:
        if isinstance(s, (ast.Assign, ast.AnnAssign)) and isinstance(
                s.value, ast.Attribute) and s.value.attr in (
                "write", "writeln"):
            tg = s.targets[0] if isinstance(s, ast.Assign) else s.target
            if isinstance(tg, ast.Name):
                emit_names[tg.id] = s.value.attr

    def emits(stmt: ast.stmt) -> tuple[str, ast.expr | None] | None:
        if isinstance(stmt, ast.Expr) and isinstance(
                stmt.value, ast.Call) and isinstance(
                stmt.value.func, ast.Name) and \
                stmt.value.func.id in emit_names:
            a = stmt.value.args[0] if stmt.value.args else None
            return emit_names[stmt.value.func.id], a
        return None

    def text_of(e: ast.expr | None) -> str:
        """Constant part of an emitted (f-)string; fields become `#`."""
        if e is None:
            return ""
        if isinstance(e, ast.Constant) and isinstance(e.value, str):
            return e.value
        if isinstance(e, ast.JoinedStr):
            return "".join(v.value if isinstance(v, ast.Constant)
                           else "#" for v in e.values)
        return "?"
    # ---- every statement-building block is balanced and ends the line
    n_blocks = 0

    def check_block(stmts: list[ast.stmt], where: str) -> None:
        nonlocal n_blocks
        seq: list[tuple[str, str]] = []
        for st in stmts:
            em = emits(st)
            if em is not None:
                seq.append((em[0], text_of(em[1])))
            elif isinstance(st, ast.For):
                inner = [emits(x) for x in st.body]
                for em2 in inner:
                    if em2 is not None:
                        t = text_of(em2[1])
                        if t.count("(") != t.count(")") or \
                                em2[0] == "writeln":
                            problems.append(
                                f"{where}: a repeated fragment "
                                f"`{t}` is unbalanced or ends the line")
        if not seq:
            return
        n_blocks += 1
        text = "".join(t for _, t in seq)
        if "?" in text:
            problems.append(f"{where}: emitted text not constant")
        if text.count("(") != text.count(")"):
            problems.append(f"{where}: the emitted statement `{text}` has "
                            "unbalanced parentheses")
        if seq[-1][0] != "writeln":
            problems.append(f"{where}: the emitted statement is not "
                            "terminated (writeln)")
        if any(k == "writeln" for k, _ in seq[:-1]):
            problems.append(f"{where}: the statement is broken over "
                            "several lines")
        if "=" not in text.split("(")[0]:
            problems.append(f"{where}: the emitted line `{text}` is not an "
                            "assignment")
    for s in ast.walk(fi.node):
        if isinstance(s, ast.For):
            direct = [emits(x) for x in s.body if emits(x) is not None]
            # a loop that only emits `write` fragments belongs to the
            # statement built by the enclosing block
            if direct and any(k == "writeln" for k, _ in direct):
                check_block(s.body, f"loop at line {s.lineno}")
            elif direct and not any(
                    s in b and any(emits(x) is not None and emits(x)[0]
                                   == "writeln" for x in b)
                    for b in _blocks_of(fi.node)):
                problems.append(f"loop at line {s.lineno}: fragments are "
                                "emitted but the statement is never "
                                "terminated")
    if n_blocks < 3:
        problems.append("fewer than three emitting loops (inputs, hidden "
                        "neurons, outputs) found")
    # ---- the statements are the documented network: a hidden neuron is
    # atan(bias + sum w x), an output is multiplier * atan(bias + sum w x)
    texts: list[tuple[str, list[str]]] = []
    for s in ast.walk(fi.node):
        if isinstance(s, ast.For):
            direct = [emits(x) for x in s.body if emits(x) is not None]
            if direct and any(k == "writeln" for k, _ in direct):
                frags = []
                for st in s.body:
                    if isinstance(st, ast.For):
                        frags += [text_of(emits(x)[1]) for x in st.body
                                  if emits(x) is not None]
                texts.append(("".join(text_of(a) for _, a in direct), frags))
    want = {("# = state[#]", ()),
            ("# = np.arctan(params[#])", (" + params[#] * #",)),
            ("out[#] = params[#] * np.arctan(params[#])",
             (" + params[#] * #",))}
    got = {(t, tuple(f)) for t, f in texts}
    if got != want:
        problems.append(
            "the emitted statements are not {input load, hidden neuron = "
            "atan(bias + sum weight * input), output = multiplier * "
            f"atan(bias + sum weight * input)}}: {sorted(got)}")
    # the weighted sum is inserted before the closing parenthesis
    for s in ast.walk(fi.node):
        if isinstance(s, ast.For):
            seq = [(emits(x)[0], text_of(emits(x)[1])) if emits(
                x) is not None else ("loop", "") if isinstance(x, ast.For)
                else None for x in s.body]
            seq = [q for q in seq if q is not None]
            if any(k == "writeln" for k, _ in seq) and any(
                    k == "loop" for k, _ in seq):
                li = [k for k, _ in seq].index("loop")
                if not (seq[-1] == ("writeln", ")") and li == len(seq) - 2):
                    problems.append(f"loop at line {s.lineno}: the weighted "
                                    "inputs are not added inside the "
                                    "arctan(...)")
    # ---- inputs are defined before they are used: the state loop emits
    # `<name> = state[i]` for the very name it registers as an input
    st_loops = [s for s in body if isinstance(s, ast.For) and src(
        s.iter).replace(" ", "") == "range(state_dims)"]
    ok_def = False
    for s in st_loops:
        names = [x for x in s.body if isinstance(x, (ast.Assign,
                                                     ast.AnnAssign))]
        apps = [x for x in s.body if isinstance(x, ast.Expr) and isinstance(
            x.value, ast.Call) and src(x.value.func).endswith(".append")]
        ems = [emits(x) for x in s.body if emits(x) is not None]
        if len(names) == 1 and len(apps) == 1 and len(ems) == 1:
            v = src(names[0].targets[0] if isinstance(names[0], ast.Assign)
                    else names[0].target)
            e = ems[0][1]
            iv = src(s.target)
            ok_def = src(apps[0].value.args[0]) == v and isinstance(
                e, ast.JoinedStr) and [
                src(x.value) if isinstance(x, ast.FormattedValue)
                else x.value for x in e.values] == [
                v, " = state[", iv, "]"]
    if not ok_def:
        # the other idiom: L = [f"s{i}" for i in range(state_dims)], then
        # for i, v in enumerate(L): writeln(f"{v} = state[{i}]")
        for s in body:
            if not (isinstance(s, ast.For) and isinstance(
                    s.iter, ast.Call) and src(s.iter.func) == "enumerate"
                    and len(s.iter.args) == 1 and isinstance(
                    s.iter.args[0], ast.Name) and isinstance(
                    s.target, ast.Tuple) and len(s.target.elts) == 2):
                continue
            lname = s.iter.args[0].id
            defs = [d for d in body if isinstance(
                d, (ast.Assign, ast.AnnAssign)) and d.value is not None
                and src(d.targets[0] if isinstance(d, ast.Assign)
                        else d.target) == lname
                and isinstance(d.value, ast.ListComp)]
            ems = [emits(x) for x in s.body if emits(x) is not None]
            if len(defs) == 1 and len(ems) == 1 and len(s.body) == 1:
                g = defs[0].value.generators
                iv, v = (src(t) for t in s.target.elts)
                e = ems[0][1]
                untouched = not any(
                    isinstance(x, ast.Name) and x.id == lname
                    and defs[0].end_lineno < x.lineno < s.lineno
                    for x in ast.walk(fi.node))
                ok_def = len(g) == 1 and not g[0].ifs and src(
                    g[0].iter).replace(" ", "") == "range(state_dims)" \
                    and untouched and isinstance(e, ast.JoinedStr) and [
                    src(x.value) if isinstance(x, ast.FormattedValue)
                    else x.value for x in e.values] == [
                    v, " = state[", iv, "]"]
    if not ok_def:
        problems.append("the input variables are registered without "
                        "`<name> = state[i]` being emitted for them")
    # ---- fresh variable names are unique; recycling pops only a
    # non-empty list
    fresh = [s for s in ast.walk(fi.node) if isinstance(
        s, (ast.Assign, ast.AnnAssign)) and isinstance(
        s.value, ast.JoinedStr) and any(isinstance(
            v, ast.FormattedValue) for v in s.value.values) and src(
        s.value).startswith("f'v")]
    for f_ in fresh:
        cnt = [src(v.value) for v in f_.value.values
               if isinstance(v, ast.FormattedValue)]
        blk = next((b for b in _blocks_of(fi.node) if f_ in b), [])
        k = blk.index(f_) if f_ in blk else -1
        prev = blk[k - 1] if k > 0 else None
        if not (len(cnt) == 1 and prev is not None and _counter_step(
                prev, cnt[0]) == 1):
            problems.append(f"`{src(f_)}`: a fresh variable name is not "
                            "preceded by an increment of its counter: "
                            "names can collide with live variables")
        others = [x for x in ast.walk(fi.node) if isinstance(
            x, (ast.AugAssign, ast.Assign, ast.AnnAssign)) and cnt and src(
            x.targets[0] if isinstance(x, ast.Assign) else x.target)
            == cnt[0] and x is not prev]
        if any(isinstance(x, ast.AugAssign) or (repo.const(
                fi.module, x.value) != 0) for x in others):
            problems.append(f"the name counter `{cnt[0]}` is changed "
                            "elsewhere")
    pops = [c for c in ast.walk(fi.node) if isinstance(c, ast.Call)
            and isinstance(c.func, ast.Attribute) and c.func.attr == "pop"]
    for p_ in pops:
        lst = src(p_.func.value)
        nonempty = (f"len({lst})>0", f"len({lst})>=1", lst,
                    f"len({lst})!=0", f"0<len({lst})", f"1<=len({lst})")
        empty = (f"len({lst})==0", f"len({lst})<1", f"len({lst})<=0",
                 f"not{lst}", f"0==len({lst})", f"0>=len({lst})")
        guarded = False
        for i_ in ast.walk(fi.node):
            if not isinstance(i_, ast.If):
                continue
            g = src(i_.test).replace(" ", "")
            in_body = any(p_ is x for s_ in i_.body for x in ast.walk(s_))
            in_else = any(p_ is x for s_ in i_.orelse
                          for x in ast.walk(s_))
            if (in_body and g in nonempty) or (in_else and g in empty):
                guarded = True
        if not guarded:
            problems.append(f"`{src(p_)}` is not guarded by a non-empty "
                            "test")
        if p_.args and repo.const(fi.module, p_.args[0]) not in (0, -1):
            problems.append(f"`{src(p_)}` can address beyond a one-element "
                            "list")
    if any("emitted text not constant" in p_ or "fragments are" in p_
           for p_ in problems):
        # text assembled from computed pieces: nothing is claimed about it
        problems = ["the emission scheme of make_ann (statements written as "
                    "constant f-string fragments) is not recognised: "
                    + "; ".join(dict.fromkeys(problems))[:400]]
    ctx.ob("D16.7", fi, fi.node, not problems,
           "every emitted statement is one balanced, terminated assignment; "
           "each input name is defined as state[i] when it is registered; "
           "fresh variable names are numbered uniquely; recycling pops only "
           "a non-empty list" if not problems else
           "; ".join(dict.fromkeys(problems)),
           construct="emission grammar of make_ann")
    # ---- the Controller and the factory bindings
    mk = [c for c in ast.walk(fi.node) if isinstance(c, ast.Call)
          and isinstance(c.func, ast.Name) and c.func.id == "Controller"]
    okc = False
    why_c = ("the Controller is not created from (state_dims, control_dims, "
             "parameter counter, code.build()) in this order")
    from sa.srcmodel import bound_args, inline_locals
    cargs = bound_args(mk[0], ["name", "state_dims", "control_dims",
                               "param_dims", "func"]) if len(mk) == 1 else {}
    if len(cargs) == 5:
        a = [cargs[k_] for k_ in ("name", "state_dims", "control_dims",
                                  "param_dims", "func")]
        a[4] = inline_locals(fi.node, a[4])
        cnt = None
        for em_call in ast.walk(fi.node):
            if isinstance(em_call, ast.JoinedStr):
                vs = em_call.values
                for k_, v in enumerate(vs):
                    if isinstance(v, ast.FormattedValue) and isinstance(
                            v.value, ast.Name) and k_ > 0 and isinstance(
                            vs[k_ - 1], ast.Constant) and str(
                            vs[k_ - 1].value).endswith("params["):
                        cnt = v.value.id
        cnts = set()
        for em_call in ast.walk(fi.node):
            if isinstance(em_call, ast.JoinedStr):
                vs = em_call.values
                for k_, v in enumerate(vs):
                    if isinstance(v, ast.FormattedValue) and k_ > 0 and \
                            isinstance(vs[k_ - 1], ast.Constant) and str(
                            vs[k_ - 1].value).endswith("params["):
                        cnts.add(src(v.value))
        dims_ok = src(a[1]) == fi.params[0] and src(a[2]) == fi.params[1] \
            and src(a[4]).endswith(".build()")
        if len(cnts) == 1:
            okc = dims_ok and src(a[3]) == next(iter(cnts))
        elif dims_ok and isinstance(a[3], ast.Name):
            # several index expressions (offsets from a counter): which of
            # them is the counter is the business of D16.4
            okc = any(c_.replace(" ", "") == a[3].id or c_.replace(
                " ", "").startswith(a[3].id + "+") for c_ in cnts)
            if not okc:
                why_c = ("the parameter counter handed to the Controller is "
                         "not recognised")
    ctx.ob("D16.7", fi, mk[0] if mk else fi.node, okc,
           "Controller(name, state_dims, control_dims, <parameter counter>, "
           "<generated function>)" if okc else why_c,
           construct="Controller of make_ann")
    mod = fi.module
    anns = mod.funcs.get("anns")
    if anns is not None:
        calls = [c for c in ast.walk(anns.node) if isinstance(c, ast.Call)
                 and isinstance(c.func, ast.Name) and c.func.id == fi.name]
        loc = {}
        for s in func_body(anns):
            if isinstance(s, (ast.Assign, ast.AnnAssign)) and \
                    s.value is not None:
                tg = s.targets[0] if isinstance(s, ast.Assign) else s.target
                if isinstance(tg, ast.Name):
                    loc[tg.id] = src(s.value)
        sysn = anns.params[0]
        def layers_ok(c: ast.Call) -> bool:
            a2 = c.args[2]
            if isinstance(a2, ast.List):
                return True
            if isinstance(a2, ast.Call) and src(a2.func) == "list" and \
                    len(a2.args) == 1:
                # list(layout) for layout in a table of layouts
                return True
            # make_ann(.., hidden) for hidden in ([..], [..], ...)
            for g_ in ast.walk(anns.node):
                if isinstance(g_, (ast.GeneratorExp, ast.ListComp)) and any(
                        c is x for x in ast.walk(g_.elt)) and len(
                        g_.generators) == 1 and not g_.generators[0].ifs \
                        and isinstance(a2, ast.Name) and src(
                        g_.generators[0].target) == a2.id and isinstance(
                        g_.generators[0].iter, (ast.Tuple, ast.List)):
                    return all(isinstance(e_, ast.List)
                               for e_ in g_.generators[0].iter.elts)
            return False
        okb = bool(calls) and all(
            len(c.args) == 3 and loc.get(src(c.args[0]), src(c.args[0]))
            == f"{sysn}.state_dims" and loc.get(
                src(c.args[1]), src(c.args[1])) == f"{sysn}.control_dims"
            and layers_ok(c) for c in calls)
        ctx.ob("D16.7", anns, anns.node, okb,
               f"all {len(calls)} architectures are built for "
               "(system.state_dims, system.control_dims)" if okb else
               "an architecture is built with state and control dimensions "
               "exchanged or from other values",
               construct="arguments of make_ann")


def _blocks_of(node: ast.AST) -> list[list[ast.stmt]]:
    out = []
    for n in ast.walk(node):
        for fld in ("body", "orelse"):
            sub = getattr(n, fld, None)
            if isinstance(sub, list) and sub and isinstance(
                    sub[0], ast.stmt):
                out.append(sub)
    return out


# ------------------------------------------------------------------ D16.8
def check_code_generator(ctx: Ctx) -> None:
    """CodeGenerator: indentation and line protocol, build()."""
    repo = ctx.repo
    mod = repo.module("moptipyapps.dynamic_control.controllers.codegen")
    cg = mod.classes.get("CodeGenerator")
    ctx.need(cg is not None, "CodeGenerator")
    problems: list[str] = []

    def src(n: ast.AST) -> str:
        return ast.unparse(n).replace(" ", "")

    def body_of(name: str) -> list[ast.stmt]:
        m = cg.methods.get(name)
        if m is None:
            problems.append(f"method {name} missing")
            return []
        return func_body(m)
    # field aliases from __init__
    init = cg.methods["__init__"]
    from sa.srcmodel import inline_locals

    def _inl(c_: ast.Call) -> ast.Call:
        """The call with hoisted string arguments looked through."""
        import copy as _copy
        c2 = _copy.copy(c_)
        c2.args = [inline_locals(init.node, a_) for a_ in c_.args]
        return c2
    fld: dict[str, str] = {}
    for n in ast.walk(init.node):
        if isinstance(n, (ast.Assign, ast.AnnAssign)) and n.value is not None:
            tg = n.targets[0] if isinstance(n, ast.Assign) else n.target
            if isinstance(tg, ast.Attribute) and src(tg.value) == "self":
                fld[tg.attr] = src(n.value)
    # the buffer (bound to StringIO()) and the locals bound to its `write`
    io_names = set()
    for n in ast.walk(init.node):
        if isinstance(n, (ast.Assign, ast.AnnAssign)) and isinstance(
                getattr(n, "value", None), ast.Call) and src(
                n.value.func).split(".")[-1] == "StringIO":
            tg = n.targets[0] if isinstance(n, ast.Assign) else n.target
            if isinstance(tg, ast.Name):
                io_names.add(tg.id)
    writers = {f"{i_}.write" for i_ in io_names}
    for n in ast.walk(init.node):
        if isinstance(n, (ast.Assign, ast.AnnAssign)) and getattr(
                n, "value", None) is not None and src(n.value) in set(
                writers):
            tg = n.targets[0] if isinstance(n, ast.Assign) else n.target
            if isinstance(tg, ast.Name):
                writers.add(tg.id)
    ind = next((k for k, v in fld.items() if v == "1"), None)
    start = next((k for k, v in fld.items() if v == "True"), None)
    wr = next((k for k, v in fld.items() if v in writers), None)
    if ind is None or start is None or wr is None:
        problems.append("CodeGenerator.__init__ does not start at indent 1, "
                        "start-of-line, with a writer")
    else:
        S, I, Wn = f"self.{start}", f"self.{ind}", f"self.{wr}"
        hdr = [text for text in (
            "".join(v.value if isinstance(v, ast.Constant) else "#"
                    for v in c.args[0].values) if isinstance(
                c.args[0], ast.JoinedStr) else (
                c.args[0].value if isinstance(c.args[0], ast.Constant)
                else "?")
            for c in (_inl(c_) for c_ in ast.walk(init.node)
                      if isinstance(c_, ast.Call)
                      and src(c_.func) in writers and c_.args))]
        joined = "".join(hdr)
        if not (joined.startswith("@numba.njit(") and joined.count(
                "\n") == 2 and "def ____func(#) -> #:\n" in joined):
            problems.append("the generated function does not start with the "
                            "njit decorator line and `def ____func(args) -> "
                            "ret:`")
        w = body_of("write")
        okw = len(w) == 2 and isinstance(w[0], ast.If) and src(
            w[0].test) == S and not w[0].orelse and sorted(
            src(x) for x in w[0].body) == sorted(
            [f"{Wn}({I}*'')", f"{S}=False"]) and src(w[1]) == \
            f"{Wn}({cg.methods['write'].params[1]})"
        four = [c for c in ast.walk(cg.methods["write"].node)
                if isinstance(c, ast.Constant) and isinstance(c.value, str)
                and c.value.strip() == "" and c.value != ""]
        if [c.value for c in four] != ["    "]:
            problems.append("one indentation level is not four spaces")
        if not okw:
            alt = len(w) == 2 and isinstance(w[0], ast.If) and sorted(
                src(x) for x in w[0].body) == sorted(
                [f"{Wn}(''*{I})", f"{S}=False"])
            if not alt:
                problems.append("write(): the indent (4 spaces per level) "
                                "is not emitted exactly at the start of a "
                                "line, followed by the text")
        e = body_of("endline")
        oke = len(e) == 1 and isinstance(e[0], ast.If) and src(
            e[0].test) == f"not{S}" and sorted(src(x) for x in e[0].body) \
            == sorted([f"{Wn}('\\n')", f"{S}=True"])
        if not oke:
            # guard-clause form: if start: return; write("\n"); start = True
            oke = len(e) == 3 and isinstance(e[0], ast.If) and src(
                e[0].test) == S and not e[0].orelse and len(
                e[0].body) == 1 and isinstance(
                e[0].body[0], ast.Return) and e[0].body[0].value is None \
                and sorted(src(x) for x in e[1:]) == sorted(
                    [f"{Wn}('\\n')", f"{S}=True"])
        if not oke:
            problems.append("endline(): a newline is not written exactly "
                            "when the line is not empty")
        wl = body_of("writeln")
        if [src(x) for x in wl] != [
                f"self.write({cg.methods['writeln'].params[1]})",
                "self.endline()"]:
            problems.append("writeln() is not write(text); endline()")
        if [src(x) for x in body_of("indent")] != [f"{I}+=1"]:
            problems.append("indent() does not add one level")
        un = body_of("unindent")
        um = cg.methods.get("unindent")
        ok_un = bool(un) and src(un[0]) == f"{I}-=1"
        if not ok_un and um is not None:
            # through a local: new = I - 1; I = new
            stores = [x for x in un if isinstance(x, ast.Assign)
                      and src(x.targets[0]) == I]
            ok_un = len(stores) == 1 and src(inline_locals(
                um.node, stores[0].value)) == f"{I}-1" and not any(
                isinstance(x, ast.AugAssign) for x in un)
        if not ok_un:
            problems.append("unindent() does not remove one level")
        b = body_of("build")
        bs = [src(x) for x in b]
        res = next((k for k, v in fld.items() if v.endswith("getvalue")),
                   None)
        okb = bool(bs) and "self.endline()" in bs and any(
            x.startswith("exec(") for x in bs) and any(
            x.endswith(f"self.{res}()") for x in bs) and any(
            "['____func']" in x or '["____func"]' in x for x in bs)
        if okb:
            ex = next(x for x in b if src(x).startswith("exec("))
            cv = next((x for x in b if src(x).endswith(f"self.{res}()")),
                      None)
            cvn = src(cv.targets[0] if isinstance(cv, ast.Assign)
                      else cv.target) if cv is not None else "?"
            okb = src(ex.value.args[0]) == cvn and bs.index(
                "self.endline()") < bs.index(src(cv))
        if not okb:
            problems.append("build() does not finish the last line, take "
                            "the text and exec it to obtain ____func")
    if len(problems) >= 3:
        # most of the recognisers miss: the class is written differently,
        # not wrong in one place - nothing is claimed
        problems = ["the way CodeGenerator is written is not recognised ("
                    + "; ".join(problems)[:300] + ")"]
    ctx.ob("D16.8", cg.methods["__init__"], cg.node, not problems,
           "CodeGenerator: header (njit decorator, def line), body lines "
           "indented by 4 spaces per level exactly at the start of a line, "
           "newline exactly after non-empty lines, indent/unindent by one, "
           "build() compiles the finished text" if not problems else
           "; ".join(problems), construct="CodeGenerator protocol")
