"""D16.4 - rules on the neural-network code *generator* `make_ann`."""
from __future__ import annotations

import ast

from sa.report import Ctx
from sa.srcmodel import ClassInfo, FuncInfo


def _emit_fields(call: ast.Call) -> list[tuple[str, str]]:
    """
    For `write(f"... params[{params}] ...")` return [(array, varname), ...]
    for every `<array>[{<name>}]` pattern in the f-string.
    """
    out: list[tuple[str, str]] = []
    if not call.args or not isinstance(call.args[0], ast.JoinedStr):
        return out
    vals = call.args[0].values
    for i, v in enumerate(vals):
        if isinstance(v, ast.FormattedValue) and i > 0 and isinstance(
                vals[i - 1], ast.Constant):
            pre = str(vals[i - 1].value)
            post = str(vals[i + 1].value) if i + 1 < len(vals) and \
                isinstance(vals[i + 1], ast.Constant) else ""
            if pre.endswith("[") and post.startswith("]"):
                arr = ""
                j = len(pre) - 2
                while j >= 0 and (pre[j].isalnum() or pre[j] == "_"):
                    arr = pre[j] + arr
                    j -= 1
                name = v.value.id if isinstance(v.value, ast.Name) \
                    else ast.unparse(v.value)
                out.append((arr, name))
    return out


def check_generator(ctx: Ctx, fi: FuncInfo) -> None:
    repo = ctx.repo
    mod = fi.module
    # --- discover the writer aliases -------------------------------------
    gen_cls = repo.resolve(mod, "CodeGenerator")
    ctx.need(isinstance(gen_cls, ClassInfo), "CodeGenerator class")
    code_var = None
    writers: set[str] = set()
    for n in ast.walk(fi.node):
        if isinstance(n, (ast.Assign, ast.AnnAssign)) and n.value is not None:
            tgt = n.targets[0] if isinstance(n, ast.Assign) else n.target
            if isinstance(tgt, ast.Name) and isinstance(n.value, ast.Call) \
                    and repo.resolve_expr(mod, n.value.func) is gen_cls:
                code_var = tgt.id
    ctx.need(code_var, "make_ann: `code = CodeGenerator(...)`")
    for n in ast.walk(fi.node):
        if isinstance(n, (ast.Assign, ast.AnnAssign)) and n.value is not None:
            tgt = n.targets[0] if isinstance(n, ast.Assign) else n.target
            v = n.value
            if isinstance(tgt, ast.Name) and isinstance(v, ast.Attribute) \
                    and isinstance(v.value, ast.Name) and \
                    v.value.id == code_var and v.attr in ("write", "writeln"):
                writers.add(tgt.id)

    def is_emit(c: ast.Call) -> bool:
        f = c.func
        if isinstance(f, ast.Name) and f.id in writers:
            return True
        return isinstance(f, ast.Attribute) and isinstance(
            f.value, ast.Name) and f.value.id == code_var and f.attr in (
            "write", "writeln")

    # --- which counter is emitted as params index? -----------------------
    counters: set[str] = set()
    n_emit = 0
    for n in ast.walk(fi.node):
        if isinstance(n, ast.Call) and is_emit(n):
            for arr, nm in _emit_fields(n):
                if arr == "params":
                    counters.add(nm)
                    n_emit += 1
    ctx.floor("make_ann_param_emissions", n_emit, 5)
    ctx.need(len(counters) == 1, "single parameter counter in make_ann")
    counter = next(iter(counters))

    # --- pending-state walk ----------------------------------------------
    problems: list[tuple[ast.AST, str]] = []

    def walk(stmts: list[ast.stmt], pending: frozenset[int],
             loops: list[ast.For]) -> frozenset[int]:
        for s in stmts:
            pending = stmt(s, pending, loops)
        return pending

    def stmt(s: ast.stmt, pending: frozenset[int],
             loops: list[ast.For]) -> frozenset[int]:
        if isinstance(s, ast.For):
            state = pending
            for _ in range(4):
                end = walk(s.body, state, loops + [s])
                new = state | end
                if new == state:
                    break
                state = new
            return walk(s.orelse, state, loops) if s.orelse else state
        if isinstance(s, ast.While):
            state = pending
            for _ in range(4):
                end = walk(s.body, state, loops)
                new = state | end
                if new == state:
                    break
                state = new
            return state
        if isinstance(s, ast.If):
            a = walk(s.body, pending, loops)
            b = walk(s.orelse, pending, loops)
            return a | b
        if isinstance(s, ast.AugAssign) and isinstance(
                s.target, ast.Name) and s.target.id == counter:
            if not (isinstance(s.op, ast.Add) and isinstance(
                    s.value, ast.Constant) and s.value.value == 1):
                problems.append((s, f"{counter} changed by something other "
                                    "than += 1"))
                return frozenset({0})
            if 0 in pending:
                problems.append((s, f"`{counter} += 1` without a preceding "
                                    "emission: a parameter index is skipped "
                                    "(declared but unused parameter)"))
            return frozenset({0})
        if isinstance(s, (ast.Assign, ast.AnnAssign)):
            tgt = s.targets[0] if isinstance(s, ast.Assign) else s.target
            if isinstance(tgt, ast.Name) and tgt.id == counter:
                ok = isinstance(s.value, ast.Constant) and \
                    s.value.value == 0 and not loops
                if not ok:
                    problems.append((s, f"{counter} re-assigned"))
                return frozenset({0})
        for n in ast.walk(s):
            if isinstance(n, ast.Call) and is_emit(n):
                fields = _emit_fields(n)
                k = sum(1 for a, nm in fields if a == "params")
                if k > 1:
                    problems.append((n, "two params[...] emissions with the "
                                        "same counter value"))
                if k >= 1:
                    if 1 in pending:
                        problems.append((n, "params[{%s}] emitted again "
                                            "before the counter was "
                                            "incremented: two weights share "
                                            "one parameter" % counter))
                    pending = frozenset({1})
                for a, nm in fields:
                    if a in ("state", "out"):
                        want = "state_dims" if a == "state" \
                            else "control_dims"
                        good = False
                        for lp in loops:
                            if isinstance(lp.target, ast.Name) and \
                                    lp.target.id == nm and isinstance(
                                    lp.iter, ast.Call) and isinstance(
                                    lp.iter.func, ast.Name) and \
                                    lp.iter.func.id == "range" and len(
                                    lp.iter.args) == 1 and isinstance(
                                    lp.iter.args[0], ast.Name) and \
                                    lp.iter.args[0].id == want:
                                good = True
                        if not good:
                            problems.append((n, f"{a}[{{{nm}}}] is not "
                                                f"emitted under `for {nm} in "
                                                f"range({want})`"))
                        ctx.count("make_ann_index_emissions")
            elif isinstance(n, ast.Call) and repo.resolve_expr(
                    mod, n.func) is repo.cls(
                    "moptipyapps.dynamic_control.controller", "Controller"):
                if 1 in pending:
                    problems.append((n, "Controller built while an emitted "
                                        "parameter was not yet counted"))
                if len(n.args) < 4 or not (isinstance(
                        n.args[3], ast.Name) and n.args[3].id == counter):
                    problems.append((n, "param_dims passed to Controller is "
                                        f"not the counter {counter}"))
                sd_ok = len(n.args) >= 3 and all(
                    isinstance(x, ast.Name) and x.id == w for x, w in zip(
                        n.args[1:3], ("state_dims", "control_dims")))
                if not sd_ok:
                    problems.append((n, "state/control dims passed to "
                                        "Controller are not the ones the "
                                        "code was generated for"))
                ctx.count("make_ann_controller_sites")
        return pending

    from sa.srcmodel import func_body
    walk(func_body(fi), frozenset({0}), [])
    if ctx.counters.get("make_ann_controller_sites", 0) < 1:
        problems.append((fi.node, "no Controller(...) construction found"))
    if problems:
        for node, why in problems:
            ctx.ob("D16.4", fi, node, False, why,
                   construct="param counter protocol: " + why[:60])
    else:
        ctx.ob("D16.4", fi, fi.node, True,
               f"{n_emit} params[{{{counter}}}] emission sites, each "
               f"followed by `{counter} += 1` before the next emission on "
               "every path; Controller receives the counter",
               construct="param counter protocol")
    _check_recycling(ctx, fi)
    check_layer_protocol(ctx, fi)


def _check_recycling(ctx: Ctx, fi: FuncInfo) -> None:
    """Variables of the input layer must not be recycled inside the neuron
    loop of the layer that still reads them."""
    layer_loops = [n for n in ast.walk(fi.node) if isinstance(n, ast.For)
                   and any(isinstance(x, ast.For) and any(
                       isinstance(y, ast.Call) and isinstance(
                           y.func, ast.Attribute) and y.func.attr == "pop"
                       for y in ast.walk(x)) for x in n.body)]
    if not layer_loops:
        ctx.ob("D16.4", fi, fi.node, True, "no variable recycling present",
               construct="variable recycling", nontrivial=False)
        return
    ok = True
    why = ""
    bad_node: ast.AST = fi.node
    for lay in layer_loops:
        neuron = next(x for x in lay.body if isinstance(x, ast.For) and any(
            isinstance(y, ast.Call) and isinstance(y.func, ast.Attribute)
            and y.func.attr == "pop" for y in ast.walk(x)))
        cache = None
        for y in ast.walk(neuron):
            if isinstance(y, ast.Call) and isinstance(
                    y.func, ast.Attribute) and y.func.attr == "pop" and \
                    isinstance(y.func.value, ast.Name):
                cache = y.func.value.id
        inputs = {x.iter.id for x in ast.walk(neuron)
                  if isinstance(x, ast.For) and x is not neuron
                  and isinstance(x.iter, ast.Name)}
        idx = lay.body.index(neuron)
        for pos, st in enumerate(lay.body):
            for y in ast.walk(st):
                feeds = False
                if isinstance(y, ast.Call) and isinstance(
                        y.func, ast.Attribute) and isinstance(
                        y.func.value, ast.Name) and \
                        y.func.value.id == cache and y.func.attr in (
                        "extend", "append", "insert"):
                    feeds = any(isinstance(a, ast.Name) and a.id in inputs
                                or not isinstance(a, ast.Name)
                                for a in y.args)
                if isinstance(y, ast.AugAssign) and isinstance(
                        y.target, ast.Name) and y.target.id == cache:
                    feeds = True
                if feeds and pos <= idx:
                    ok = False
                    bad_node = y
                    why = (f"`{ast.unparse(y)}` recycles input variables "
                           "before all neurons of the layer were emitted")
    ctx.ob("D16.4", fi, bad_node, ok,
           why or "input variables are recycled only after the layer's "
                  "neuron loop", construct="variable recycling")


# ---------------------------------------------------------------------------
# Abstract interpretation of the generator's variable bookkeeping
# ---------------------------------------------------------------------------
# Lists of variable names are abstracted to {tag: level} with tags
#   IN   - outputs of the previous layer (or the cached state variables):
#          exactly what the current layer must read
#   OUT  - outputs produced by the layer being generated
#   DEAD - variables whose value is no longer needed (safe to overwrite)
# and levels none < some < all ("all" = contains every variable of that tag).
def _join_level(a: str, b: str) -> str:
    if a == b:
        return a
    if "some" in (a, b) or {a, b} == {"all", "none"}:
        return "some"
    return a


class AbsLists:
    TAGS = ("IN", "OUT", "DEAD")

    def __init__(self) -> None:
        self.lists: dict[str, dict[str, str]] = {}
        self.scalars: dict[str, set[str]] = {}

    def copy(self) -> "AbsLists":
        c = AbsLists()
        c.lists = {k: dict(v) for k, v in self.lists.items()}
        c.scalars = {k: set(v) for k, v in self.scalars.items()}
        return c

    def join(self, o: "AbsLists") -> "AbsLists":
        r = AbsLists()
        for k in set(self.lists) | set(o.lists):
            a = self.lists.get(k, _empty())
            b = o.lists.get(k, _empty())
            r.lists[k] = {t: _join_level(a[t], b[t]) for t in self.TAGS}
        for k in set(self.scalars) | set(o.scalars):
            r.scalars[k] = self.scalars.get(k, set()) | o.scalars.get(
                k, set())
        return r

    def __eq__(self, o: object) -> bool:
        return isinstance(o, AbsLists) and self.lists == o.lists and \
            self.scalars == o.scalars


def _empty() -> dict[str, str]:
    return {t: "none" for t in AbsLists.TAGS}


def check_layer_protocol(ctx: Ctx, fi: FuncInfo) -> None:
    """O1-O3 of the layer bookkeeping, for every architecture at once."""
    from sa.srcmodel import func_body
    body = func_body(fi)
    problems: list[tuple[ast.AST, str]] = []

    def emits_assignment(s: ast.stmt) -> str | None:
        """`write(f"{var} = ...")` -> 'var'."""
        for n in ast.walk(s):
            if isinstance(n, ast.Call) and n.args and isinstance(
                    n.args[0], ast.JoinedStr):
                v = n.args[0].values
                if len(v) >= 2 and isinstance(
                        v[0], ast.FormattedValue) and isinstance(
                        v[0].value, ast.Name) and isinstance(
                        v[1], ast.Constant) and str(
                        v[1].value).startswith(" ="):
                    return v[0].value.id
        return None

    def reads_inputs(s: ast.For) -> bool:
        return isinstance(s.iter, ast.Name) and any(
            isinstance(n, ast.Call) and n.args and isinstance(
                n.args[0], ast.JoinedStr) and any(
                isinstance(x, ast.FormattedValue) and isinstance(
                    x.value, ast.Name) and isinstance(s.target, ast.Name)
                and x.value.id == s.target.id for x in n.args[0].values)
            for n in ast.walk(s))

    layer_loop = None
    for s in body:
        if isinstance(s, ast.For) and any(
                isinstance(x, ast.For) and any(
                    isinstance(y, ast.For) and reads_inputs(y)
                    for y in ast.walk(x) if y is not x)
                for x in s.body):
            layer_loop = s
    if layer_loop is None:
        ctx.ob("D16.4", fi, fi.node, False,
               "cannot find the layer / neuron / input loop nest",
               construct="layer bookkeeping")
        return

    in_layer = [False]
    depth_neuron = [0]
    # scalar names that are emitted as the left-hand side of a generated
    # assignment inside the layer loop: the neuron output variables
    out_names: set[str] = set()
    for n in ast.walk(layer_loop):
        if isinstance(n, ast.Expr):
            v = emits_assignment(n)
            if v is not None:
                out_names.add(v)

    def define_output(st: "AbsLists", name: str, tags: set[str],
                      node: ast.AST) -> None:
        live = tags - {"DEAD"}
        if live:
            problems.append(
                (node, f"neuron output `{name}` may reuse a variable that "
                       f"is still needed (tags {sorted(live)}): an input "
                       "of this layer would be clobbered"))
        st.scalars[name] = {"OUT"}

    def exec_block(st: AbsLists, stmts: list[ast.stmt]) -> AbsLists:
        for s in stmts:
            st = exec_stmt(st, s)
        return st

    def tags_of(st: AbsLists, e: ast.expr) -> set[str]:
        if isinstance(e, ast.Name) and e.id in st.scalars:
            return set(st.scalars[e.id])
        if isinstance(e, ast.JoinedStr):
            return {"DEAD"}     # a brand-new variable name: nothing live
        return set()

    def exec_stmt(st: AbsLists, s: ast.stmt) -> AbsLists:
        if isinstance(s, (ast.Assign, ast.AnnAssign)) and getattr(
                s, "value", None) is not None:
            tg = s.targets[0] if isinstance(s, ast.Assign) else s.target
            v = s.value
            if isinstance(tg, ast.Name) and isinstance(v, ast.List) and \
                    not v.elts:
                st.lists[tg.id] = _empty()
                return st
            if isinstance(tg, ast.Tuple) and isinstance(v, ast.Tuple) and \
                    len(tg.elts) == len(v.elts) and all(
                    isinstance(x, ast.Name) for x in tg.elts + v.elts):
                src = [x.id for x in v.elts]
                if all(n in st.lists for n in src):
                    if len(set(src)) != len(src):
                        problems.append((s, "two names alias one list"))
                    vals = [dict(st.lists[n]) for n in src]
                    for t, val in zip(tg.elts, vals):
                        st.lists[t.id] = val
                    return st
            if isinstance(tg, ast.Name):
                if isinstance(v, ast.Call) and isinstance(
                        v.func, ast.Attribute) and v.func.attr == "pop" \
                        and isinstance(v.func.value, ast.Name) and \
                        v.func.value.id in st.lists:
                    lst = st.lists[v.func.value.id]
                    tags = {t for t in AbsLists.TAGS if lst[t] != "none"}
                    st.scalars[tg.id] = tags
                    for t in AbsLists.TAGS:
                        if lst[t] == "all":
                            lst[t] = "some"
                    if in_layer[0] and tg.id in out_names:
                        define_output(st, tg.id, tags, s)
                    return st
                if isinstance(v, ast.JoinedStr):
                    # a new name; inside the layer loop it is dead until
                    # emitted, outside (state cache) it is an input
                    st.scalars[tg.id] = {"DEAD" if in_layer[0] else "IN"}
                    if in_layer[0] and tg.id in out_names:
                        define_output(st, tg.id, {"DEAD"}, s)
                    return st
                if isinstance(v, ast.Name) and v.id in st.lists:
                    problems.append((s, f"`{tg.id}` aliases list `{v.id}`"))
            return st
        if isinstance(s, ast.Expr) and isinstance(s.value, ast.Call):
            c = s.value
            f = c.func
            if isinstance(f, ast.Attribute) and isinstance(
                    f.value, ast.Name) and f.value.id in st.lists:
                lst = st.lists[f.value.id]
                if f.attr == "append" and len(c.args) == 1:
                    for t in tags_of(st, c.args[0]) or set(AbsLists.TAGS):
                        lst[t] = "some" if lst[t] == "none" else lst[t]
                elif f.attr == "extend" and len(c.args) == 1 and \
                        isinstance(c.args[0], ast.Name) and \
                        c.args[0].id in st.lists:
                    o = st.lists[c.args[0].id]
                    for t in AbsLists.TAGS:
                        if o[t] == "all" or lst[t] == "all":
                            lst[t] = "all"
                        elif o[t] == "some" or lst[t] == "some":
                            lst[t] = "some"
                elif f.attr == "clear":
                    st.lists[f.value.id] = _empty()
                elif f.attr in ("pop", "remove"):
                    for t in AbsLists.TAGS:
                        if lst[t] == "all":
                            lst[t] = "some"
                return st
            # an emission that defines a variable: the variable becomes OUT
            return st
        if isinstance(s, ast.If):
            a = exec_block(st.copy(), s.body)
            b = exec_block(st.copy(), s.orelse)
            return a.join(b)
        if isinstance(s, ast.For):
            if reads_inputs(s):
                lst = st.lists.get(s.iter.id)
                if lst is None:
                    problems.append((s, "inputs are not a tracked list"))
                else:
                    extra = [t for t in ("OUT", "DEAD")
                             if lst[t] != "none"]
                    if extra:
                        problems.append(
                            (s, f"`{s.iter.id}` may contain variables that "
                                f"are not outputs of the previous layer "
                                f"(tags {extra}): stale values are fed "
                                "into this layer"))
                    if lst["IN"] != "all":
                        problems.append(
                            (s, f"`{s.iter.id}` may miss outputs of the "
                                "previous layer"))
                return st
            if s is layer_loop:
                return exec_layers(st, s)
            # generic loop: iterate to a fixpoint; unconditional appends
            # of per-iteration elements make the list complete
            head = st
            end = st
            for _ in range(6):
                end = exec_block(head.copy(), s.body)
                new = head.join(end)
                if new == head:
                    break
                head = new
            # completeness: a top-level `L.append(x)` of a variable created
            # in this very iteration
            for b in s.body:
                if isinstance(b, ast.Expr) and isinstance(
                        b.value, ast.Call) and isinstance(
                        b.value.func, ast.Attribute) and \
                        b.value.func.attr == "append" and isinstance(
                        b.value.func.value, ast.Name) and len(
                        b.value.args) == 1:
                    ln = b.value.func.value.id
                    tg = tags_of(end, b.value.args[0])
                    if ln in head.lists and len(tg) == 1:
                        t = next(iter(tg))
                        created = any(
                            isinstance(x, (ast.Assign, ast.AnnAssign))
                            and isinstance(
                                x.targets[0] if isinstance(x, ast.Assign)
                                else x.target, ast.Name) and (
                                x.targets[0] if isinstance(x, ast.Assign)
                                else x.target).id == getattr(
                                b.value.args[0], "id", None)
                            for x in ast.walk(s))
                        others_add = False
                        if created and st.lists[ln][t] in ("none", "all") \
                                and not others_add:
                            head.lists[ln][t] = "all" if (
                                st.lists[ln][t] == "none"
                                or st.lists[ln][t] == "all") else "some"
            return head
        return st

    def exec_layers(st: AbsLists, loop: ast.For) -> AbsLists:
        in_layer[0] = True
        head = st.copy()
        for _ in range(8):
            end = exec_block(head.copy(), loop.body)
            # layer boundary: outputs become the next inputs, the old
            # inputs die
            for lst in end.lists.values():
                new = _empty()
                new["IN"] = lst["OUT"]
                dead = lst["DEAD"]
                if lst["IN"] != "none":
                    dead = "some" if dead in ("none", "some") else dead
                new["DEAD"] = dead
                lst.update(new)
            for k in end.scalars:
                end.scalars[k] = {"DEAD"}
            new_head = head.join(end)
            if new_head == head:
                break
            head = new_head
        in_layer[0] = False
        return head

    del depth_neuron
    st = AbsLists()
    final = exec_block(st, body)
    del final
    # de-duplicate messages
    seen = set()
    uniq = []
    for node, why in problems:
        if why not in seen:
            seen.add(why)
            uniq.append((node, why))
    if uniq:
        for node, why in uniq:
            ctx.ob("D16.4", fi, node, False, why,
                   construct="layer bookkeeping: " + why[:70])
    else:
        ctx.ob("D16.4", fi, layer_loop, True,
               "abstract interpretation of the variable lists (tags IN / "
               "OUT / DEAD, levels none/some/all) to a fixpoint over the "
               "layer loop: every layer reads exactly the previous layer's "
               "outputs, neuron outputs only overwrite dead variables, and "
               "the output layer reads exactly the last hidden layer",
               construct="layer bookkeeping")
