"""D16.4 - rules on the neural-network code *generator* `make_ann`."""
from __future__ import annotations

import ast

from sa.report import Ctx
from sa.srcmodel import ClassInfo, FuncInfo


def _emit_fields(call: ast.Call) -> list[tuple[str, str]]:
    """
    For `write(f"... params[{params}] ...")` return [(array, varname), ...]
    for every `<array>[{<name>}]` pattern in the f-string.
    """
    out: list[tuple[str, str]] = []
    if not call.args or not isinstance(call.args[0], ast.JoinedStr):
        return out
    vals = call.args[0].values
    for i, v in enumerate(vals):
        if isinstance(v, ast.FormattedValue) and i > 0 and isinstance(
                vals[i - 1], ast.Constant):
            pre = str(vals[i - 1].value)
            post = str(vals[i + 1].value) if i + 1 < len(vals) and \
                isinstance(vals[i + 1], ast.Constant) else ""
            if pre.endswith("[") and post.startswith("]"):
                arr = ""
                j = len(pre) - 2
                while j >= 0 and (pre[j].isalnum() or pre[j] == "_"):
                    arr = pre[j] + arr
                    j -= 1
                name = v.value.id if isinstance(v.value, ast.Name) \
                    else ast.unparse(v.value)
                out.append((arr, name))
    return out


def check_generator(ctx: Ctx, fi: FuncInfo) -> None:
    repo = ctx.repo
    mod = fi.module
    # --- discover the writer aliases -------------------------------------
    gen_cls = repo.resolve(mod, "CodeGenerator")
    ctx.need(isinstance(gen_cls, ClassInfo), "CodeGenerator class")
    code_var = None
    writers: set[str] = set()
    for n in ast.walk(fi.node):
        if isinstance(n, (ast.Assign, ast.AnnAssign)) and n.value is not None:
            tgt = n.targets[0] if isinstance(n, ast.Assign) else n.target
            if isinstance(tgt, ast.Name) and isinstance(n.value, ast.Call) \
                    and repo.resolve_expr(mod, n.value.func) is gen_cls:
                code_var = tgt.id
    ctx.need(code_var, "make_ann: `code = CodeGenerator(...)`")
    for n in ast.walk(fi.node):
        if isinstance(n, (ast.Assign, ast.AnnAssign)) and n.value is not None:
            tgt = n.targets[0] if isinstance(n, ast.Assign) else n.target
            v = n.value
            if isinstance(tgt, ast.Name) and isinstance(v, ast.Attribute) \
                    and isinstance(v.value, ast.Name) and \
                    v.value.id == code_var and v.attr in ("write", "writeln"):
                writers.add(tgt.id)

    def is_emit(c: ast.Call) -> bool:
        f = c.func
        if isinstance(f, ast.Name) and f.id in writers:
            return True
        return isinstance(f, ast.Attribute) and isinstance(
            f.value, ast.Name) and f.value.id == code_var and f.attr in (
            "write", "writeln")

    # --- which counter is emitted as params index? -----------------------
    counters: set[str] = set()
    n_emit = 0
    for n in ast.walk(fi.node):
        if isinstance(n, ast.Call) and is_emit(n):
            for arr, nm in _emit_fields(n):
                if arr == "params":
                    counters.add(nm)
                    n_emit += 1
    ctx.floor("make_ann_param_emissions", n_emit, 5)
    ctx.need(len(counters) == 1, "single parameter counter in make_ann")
    counter = next(iter(counters))

    # --- pending-state walk ----------------------------------------------
    problems: list[tuple[ast.AST, str]] = []

    def walk(stmts: list[ast.stmt], pending: frozenset[int],
             loops: list[ast.For]) -> frozenset[int]:
        for s in stmts:
            pending = stmt(s, pending, loops)
        return pending

    def stmt(s: ast.stmt, pending: frozenset[int],
             loops: list[ast.For]) -> frozenset[int]:
        if isinstance(s, ast.For):
            state = pending
            for _ in range(4):
                end = walk(s.body, state, loops + [s])
                new = state | end
                if new == state:
                    break
                state = new
            return walk(s.orelse, state, loops) if s.orelse else state
        if isinstance(s, ast.While):
            state = pending
            for _ in range(4):
                end = walk(s.body, state, loops)
                new = state | end
                if new == state:
                    break
                state = new
            return state
        if isinstance(s, ast.If):
            a = walk(s.body, pending, loops)
            b = walk(s.orelse, pending, loops)
            return a | b
        if isinstance(s, ast.AugAssign) and isinstance(
                s.target, ast.Name) and s.target.id == counter:
            if not (isinstance(s.op, ast.Add) and isinstance(
                    s.value, ast.Constant) and s.value.value == 1):
                problems.append((s, f"{counter} changed by something other "
                                    "than += 1"))
                return frozenset({0})
            if 0 in pending:
                problems.append((s, f"`{counter} += 1` without a preceding "
                                    "emission: a parameter index is skipped "
                                    "(declared but unused parameter)"))
            return frozenset({0})
        if isinstance(s, (ast.Assign, ast.AnnAssign)):
            tgt = s.targets[0] if isinstance(s, ast.Assign) else s.target
            if isinstance(tgt, ast.Name) and tgt.id == counter:
                ok = isinstance(s.value, ast.Constant) and \
                    s.value.value == 0 and not loops
                if not ok:
                    problems.append((s, f"{counter} re-assigned"))
                return frozenset({0})
        for n in ast.walk(s):
            if isinstance(n, ast.Call) and is_emit(n):
                fields = _emit_fields(n)
                k = sum(1 for a, nm in fields if a == "params")
                if k > 1:
                    problems.append((n, "two params[...] emissions with the "
                                        "same counter value"))
                if k >= 1:
                    if 1 in pending:
                        problems.append((n, "params[{%s}] emitted again "
                                            "before the counter was "
                                            "incremented: two weights share "
                                            "one parameter" % counter))
                    pending = frozenset({1})
                for a, nm in fields:
                    if a in ("state", "out"):
                        want = "state_dims" if a == "state" \
                            else "control_dims"
                        good = False
                        for lp in loops:
                            if isinstance(lp.target, ast.Name) and \
                                    lp.target.id == nm and isinstance(
                                    lp.iter, ast.Call) and isinstance(
                                    lp.iter.func, ast.Name) and \
                                    lp.iter.func.id == "range" and len(
                                    lp.iter.args) == 1 and isinstance(
                                    lp.iter.args[0], ast.Name) and \
                                    lp.iter.args[0].id == want:
                                good = True
                        if not good:
                            problems.append((n, f"{a}[{{{nm}}}] is not "
                                                f"emitted under `for {nm} in "
                                                f"range({want})`"))
                        ctx.count("make_ann_index_emissions")
            elif isinstance(n, ast.Call) and repo.resolve_expr(
                    mod, n.func) is repo.cls(
                    "moptipyapps.dynamic_control.controller", "Controller"):
                if 1 in pending:
                    problems.append((n, "Controller built while an emitted "
                                        "parameter was not yet counted"))
                if len(n.args) < 4 or not (isinstance(
                        n.args[3], ast.Name) and n.args[3].id == counter):
                    problems.append((n, "param_dims passed to Controller is "
                                        f"not the counter {counter}"))
                sd_ok = len(n.args) >= 3 and all(
                    isinstance(x, ast.Name) and x.id == w for x, w in zip(
                        n.args[1:3], ("state_dims", "control_dims")))
                if not sd_ok:
                    problems.append((n, "state/control dims passed to "
                                        "Controller are not the ones the "
                                        "code was generated for"))
                ctx.count("make_ann_controller_sites")
        return pending

    from sa.srcmodel import func_body
    walk(func_body(fi), frozenset({0}), [])
    if ctx.counters.get("make_ann_controller_sites", 0) < 1:
        problems.append((fi.node, "no Controller(...) construction found"))
    if problems:
        for node, why in problems:
            ctx.ob("D16.4", fi, node, False, why,
                   construct="param counter protocol: " + why[:60])
    else:
        ctx.ob("D16.4", fi, fi.node, True,
               f"{n_emit} params[{{{counter}}}] emission sites, each "
               f"followed by `{counter} += 1` before the next emission on "
               "every path; Controller receives the counter",
               construct="param counter protocol")
    _check_recycling(ctx, fi)


def _check_recycling(ctx: Ctx, fi: FuncInfo) -> None:
    """Variables of the input layer must not be recycled inside the neuron
    loop of the layer that still reads them."""
    layer_loops = [n for n in ast.walk(fi.node) if isinstance(n, ast.For)
                   and any(isinstance(x, ast.For) and any(
                       isinstance(y, ast.Call) and isinstance(
                           y.func, ast.Attribute) and y.func.attr == "pop"
                       for y in ast.walk(x)) for x in n.body)]
    if not layer_loops:
        ctx.ob("D16.4", fi, fi.node, True, "no variable recycling present",
               construct="variable recycling", nontrivial=False)
        return
    ok = True
    why = ""
    bad_node: ast.AST = fi.node
    for lay in layer_loops:
        neuron = next(x for x in lay.body if isinstance(x, ast.For) and any(
            isinstance(y, ast.Call) and isinstance(y.func, ast.Attribute)
            and y.func.attr == "pop" for y in ast.walk(x)))
        cache = None
        for y in ast.walk(neuron):
            if isinstance(y, ast.Call) and isinstance(
                    y.func, ast.Attribute) and y.func.attr == "pop" and \
                    isinstance(y.func.value, ast.Name):
                cache = y.func.value.id
        inputs = {x.iter.id for x in ast.walk(neuron)
                  if isinstance(x, ast.For) and x is not neuron
                  and isinstance(x.iter, ast.Name)}
        idx = lay.body.index(neuron)
        for pos, st in enumerate(lay.body):
            for y in ast.walk(st):
                feeds = False
                if isinstance(y, ast.Call) and isinstance(
                        y.func, ast.Attribute) and isinstance(
                        y.func.value, ast.Name) and \
                        y.func.value.id == cache and y.func.attr in (
                        "extend", "append", "insert"):
                    feeds = any(isinstance(a, ast.Name) and a.id in inputs
                                or not isinstance(a, ast.Name)
                                for a in y.args)
                if isinstance(y, ast.AugAssign) and isinstance(
                        y.target, ast.Name) and y.target.id == cache:
                    feeds = True
                if feeds and pos <= idx:
                    ok = False
                    bad_node = y
                    why = (f"`{ast.unparse(y)}` recycles input variables "
                           "before all neurons of the layer were emitted")
    ctx.ob("D16.4", fi, bad_node, ok,
           why or "input variables are recycled only after the layer's "
                  "neuron loop", construct="variable recycling")
