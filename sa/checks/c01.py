"""C01 - every decoded bin packing is physically feasible (decided part)."""
from __future__ import annotations

import ast
from typing import Any

from sa.casesplit import equivalent
from sa.checks.c14 import ENC, cols, limit_of, summarise
from sa.checks.ibl_rules import build_model, c01_rules
from sa.guards import opaque_note, GuardWalk, is_opaque
from sa.kern import make_evaluator, py_calls
from sa.report import Ctx
from sa.srcmodel import desugared, FuncInfo, func_body, inline_locals
from sa.symterm import (Env, Poly, Unsupported, all_atoms, ite, show,
                        show_cond)

INST = "moptipyapps.binpacking2d.instance"


def run(ctx: Ctx) -> None:
    ctx.explanation = (
        "Decided clauses of feasibility: D1.1 rotation lemma - for every "
        "weak ordering of (w, h, W, H) that Instance.__new__ accepts and "
        "both requested orientations, the decoder's forced-rotation guard "
        "leaves w <= W and h <= H (exhaustive); D1.2 rectangle size is "
        "preserved by every move (both edges change by the same term) and "
        "equals (w, h) at the drop position and at the new-bin reset; D1.3 "
        "coordinates stay >= 0 (moves are bounded by the own coordinate) "
        "and the keep path implies right <= W and top <= H on all "
        "orderings; D1.4 the stored id is |x[i]|; D1.5 the bin counter "
        "starts at 1, only ever grows by 1, every new value is stored as "
        "the bin of the current row, and is returned; D1.6 the integer type "
        "requested for the packing covers H + h and n_items; D1.7 "
        "non-overlap, by induction over moves: (a) an item is dropped with "
        "its bottom at H, above every box kept in the bin (their top <= H "
        "by D1.3), or reset to (0,0,w,h) in a fresh bin; (b) PAIRWISE MOVE "
        "LEMMA - for every leaf of a kernel's per-blocker limit tree, "
        "every path disjunct and every way two boxes can be disjoint, "
        "moving by 0 < M <= limit (and M <= own coordinate) keeps them "
        "disjoint (decided by Fourier-Motzkin); (c) the window a kernel "
        "scans contains all boxes of the bin (C14 D14.4 / D14.1, boxes of "
        "other bins are ignored by encoding 2). The composition (a)+(b)+(c) "
        "is an argument on paper, not machine-checked.")
    for rid, txt in (("D1.1", "rotation lemma (all orderings)"),
                     ("D1.2", "rectangle size preserved"),
                     ("D1.3", "inside the bin"),
                     ("D1.4", "ids"), ("D1.5", "bin numbering"),
                     ("D1.6", "storage type wide enough"),
                     ("D1.7", "moves preserve pairwise non-overlap"),
                     ("D1.8", "decode() binds the instance quantities to "
                              "the kernel parameters")):
        ctx.rule(rid, txt)
    C = cols(ctx)
    acc = _constructor_accepts(ctx)
    repo = ctx.repo
    for enc in ("ibl_encoding_1", "ibl_encoding_2"):
        dec = repo.func(ENC + enc, "_decode")
        for kn, kind in (("__move_down", "down"), ("__move_left", "left")):
            _move_shape(ctx, repo.func(ENC + enc, kn), kind, C)
            _move_lemma(ctx, repo.func(ENC + enc, kn), kind, C,
                        enc.endswith("2"))
        model = build_model(ctx, enc, C)
        if model is not None:
            c01_rules(ctx, model, acc, C)
        _wrapper_binding(ctx, enc, dec)
    _dtype(ctx)
    ctx.exhaustive = True
    ctx.assumptions += [
        "P2: x is a signed permutation with repetitions of the item ids",
        "L1 (first item fits the empty first bin) follows from D1.1 and "
        "the drop/move rules",
    ]


# ------------------------------------------------------------------ D1.1
def _constructor_accepts(ctx: Ctx) -> dict[str, Any]:
    """The conditions under which Instance.__new__ accepts an item."""
    repo = ctx.repo
    new = desugared(repo.func(INST, "Instance.__new__"))
    ev = make_evaluator(repo, new, extra_call=py_calls)
    ev.int_transparent = True
    gw = GuardWalk(ev)
    gw.walk(Env(), func_body(new))
    W, H = Poly.var("bin_width"), Poly.var("bin_height")
    lo = min(W, H, key=lambda p: repr(p.key()))
    del lo
    mx = Poly.atom(("app", "max", tuple(sorted(
        {W, H}, key=lambda p: repr(p.key())))))
    mn = Poly.atom(("app", "min", tuple(sorted(
        {W, H}, key=lambda p: repr(p.key())))))
    # check_int_range(int(width), "width", 1, max_dim) for both dimensions
    bounds = {}
    for n in ast.walk(new.node):
        if isinstance(n, ast.Call) and isinstance(n.func, ast.Name) and \
                n.func.id == "check_int_range" and len(n.args) >= 4:
            nm = repo.const(new.module, n.args[1])
            if nm in ("width", "height"):
                lo_ = repo.const(new.module, n.args[2])
                hi_ = n.args[3]
                bounds[nm] = (lo_, hi_)
    ok_b = set(bounds) == {"width", "height"}
    hi_terms = {}
    if ok_b:
        # evaluate the upper bound expressions in the environment of the
        # item loop
        loop_env = None
        for lp, e in gw.loop_envs.items():
            loop_env = e
        for nm, (lo_, hi_) in bounds.items():
            try:
                hi_terms[nm] = ev.num(loop_env or Env(), hi_)
            except Unsupported:
                ok_b = False
            if lo_ != 1:
                ok_b = False
    from sa.casesplit import equivalent as _equiv, minmax_to_ite as _mm
    ok_b = ok_b and all(
        v == mx or _equiv(_mm(v), _mm(mx), integer=True)[0]
        for v in hi_terms.values())
    ctx.ob("D1.1", new, new.node, ok_b,
           "the constructor requires 1 <= width, height <= max(bin_width, "
           "bin_height)" if ok_b else
           f"constructor range checks on item dimensions: {bounds}",
           construct="item dimension range")
    # the 'fits in no orientation' rejection
    rej = None
    for e in gw.exits:
        if e.kind == "raise" and e.loops and not is_opaque(e.cond):
            ats = all_atoms(e.cond)
            others = [a for a in ats if a[0] in ("var", "cell")
                      and Poly.atom(a) not in (W, H)]
            if mn.as_atom() in ats and len(others) == 2:
                rej = e
            elif len(others) == 2 and rej is None:
                # by value: raised iff both dimensions exceed min(W, H)
                w_, h_ = (Poly.atom(a) for a in others)
                ref = ("and", ("lt", mn, w_), ("lt", mn, h_))
                try:
                    if _equiv(_mm(e.cond), _mm(ref), integer=True)[0]:
                        rej = e
                except Unsupported:
                    pass
    ctx.ob("D1.1", new, rej.node if rej else new.node, rej is not None,
           f"items are rejected when [{show_cond(rej.cond)}]" if rej else
           opaque_note(gw.exits, lambda e: bool(e.loops)) +
           "no rejection of items that exceed min(bin_width, bin_height) "
           "in both dimensions", construct="item rejection")
    return {"ok": ok_b and rej is not None, "rej": rej, "mx": mx, "mn": mn,
            "W": W, "H": H}


# ----------------------------------------------------------- D1.2 / D1.3
def _move_shape(ctx: Ctx, fi: FuncInfo, kind: str, C: dict[str, int]) \
        -> None:
    name = f"{fi.module.name.split('.')[-1]}.{fi.name}"
    try:
        env = summarise(ctx, fi)
    except Unsupported as u:
        ctx.ob("D1.2", fi, u.node or fi.node, False,
               f"cannot summarise: {u}", construct=f"{name} size")
        return
    i1 = Poly.var(fi.params[-1])
    arr = fi.params[0]
    c1, c2 = ("IDX_BOTTOM_Y", "IDX_TOP_Y") if kind == "down" else (
        "IDX_LEFT_X", "IDX_RIGHT_X")
    k1 = (arr, (i1, Poly.const(C[c1])))
    k2 = (arr, (i1, Poly.const(C[c2])))
    st = dict(env.stores)
    ok = set(st) == {k1, k2}
    detail = f"{name} writes {[(k[0], [show(i) for i in k[1]]) for k in st]}"
    own1 = Poly.atom(("cell", arr, k1[1]))
    own2 = Poly.atom(("cell", arr, k2[1]))
    Ma = limit_of(env.returned)
    M = Poly.atom(Ma) if Ma is not None else None
    if ok and M is None:
        ok = False
        detail = (f"{name}: the kernel does not return `limit > 0` for a "
                  "minimum over the blockers")
    if ok:
        moved = ("lt", Poly.const(0), M)
        for k, own in ((k1, own1), (k2, own2)):
            same, why = equivalent(st[k], ite(moved, own - M, own))
            if not same:
                ok = False
                detail = (f"{name}: edge {show(k[1][1])} is not lowered by "
                          f"the limit exactly when it is positive: {why}")
        if ok:
            detail = (f"{name}: both edges are lowered by the same term, so "
                      "the rectangle keeps its size")
    ctx.ob("D1.2", fi, fi.node, ok, detail, construct=f"{name} size")
    if not ok:
        return
    ok3 = Ma[5] == own1
    ctx.ob("D1.3", fi, fi.node, ok3,
           f"{name}: the shift is a minimum that starts at the own "
           f"{'bottom' if kind == 'down' else 'left'} coordinate and is "
           "applied only when positive, hence 0 <= new coordinate" if ok3
           else f"{name}: the shift {show(M)[:100]} is not bounded by the "
                "own coordinate - the item can leave the bin through the "
                f"{'bottom' if kind == 'down' else 'left'} side",
           construct=f"{name} non-negative")


def _dtype(ctx: Ctx) -> None:
    """The integer type of packings covers H + h and n_items.

    Value based (constructor normalised by a guard walk, see C03): the
    `max_value` handed to int_range_to_dtype is evaluated with the values
    the locals have after the row loop; it must be a maximum with one
    argument >= max(W, H) + (the running maximum of all item dimensions) and
    one argument >= (the sum of the multiplicities)."""
    from sa.checks.c03 import _ConstructorModel
    repo = ctx.repo
    new = desugared(repo.func(INST, "Instance.__new__"))
    call = None
    for n in ast.walk(new.node):
        if isinstance(n, ast.Call) and isinstance(n.func, ast.Name) and \
                n.func.id == "int_range_to_dtype":
            call = n
    ctx.need(call is not None, "Instance.__new__: int_range_to_dtype call")
    from sa.srcmodel import bound_args
    # moptipy.utils.nputils.int_range_to_dtype(min_value, max_value,
    # force_signed=False)
    kws = bound_args(call, ["min_value", "max_value", "force_signed"])
    ok = False
    detail = "max_value not understood"
    cm = _ConstructorModel(ctx, new)
    p = new.params
    try:
        from fractions import Fraction
        from sa.casesplit import equivalent as _eqv, minmax_to_ite as _mmi
        from sa.checks.c07_bound import _canon
        # `b if a < b else a` is max(a, b); nested maxima are flattened
        mx = _canon(cm.ev.num(cm.out, kws["max_value"]))
        # c0 + max(args) covers max(arg + c0)
        c0 = mx.terms.get((), Fraction(0))
        a = (mx - Poly.const(c0)).as_atom()
        if a is not None and a[0] == "app" and a[1] == "max" and c0 >= 0:
            args = [x + Poly.const(c0) for x in a[2]]
        else:
            a = mx.as_atom()
            args = list(a[2]) if a is not None and a[0] == "app" and \
                a[1] == "max" else [mx]
        Wv, Hv = Poly.var(p[2]), Poly.var(p[3])
        md = Poly.atom(("app", "max", tuple(sorted(
            {Wv, Hv}, key=lambda q: repr(q.key())))))
        ni = cm.post_symbol(cm.count_var)
        n_ok, _why = cm.accumulates(cm.count_var, 2)
        # the running maximum of the item dimensions: a loop variable whose
        # update is max(itself, width, height)
        size_vars = []
        for mk in cm.gw.marks:
            if not mk.loops or not isinstance(mk.value, Poly):
                continue
            at = mk.value.as_atom()
            lenv = cm.gw.loop_envs[id(mk.loops[0])]
            before = lenv.vars.get(mk.name)
            if at is not None and at[0] == "app" and at[1] == "max" and \
                    isinstance(before, Poly) and before in at[2]:
                others = [x for x in at[2] if x != before]
                cells = {x.as_atom()[2][0].const_value() for x in others
                         if x.as_atom() is not None
                         and x.as_atom()[0] == "cell"
                         and len(x.as_atom()[2]) == 1}
                if {0, 1} <= {int(c) for c in cells if c is not None}:
                    size_vars.append(mk.name)
        if not size_vars:
            size_vars = _running_max_vars(ctx, new, cm)
        ms = cm.post_symbol(size_vars[0]) if len(size_vars) == 1 else None

        def covers_dim(arg: Poly) -> bool:
            d_ = arg - md - ms
            if d_.const_value() is not None:
                return d_.const_value() >= 0
            # max(W, H) written as a conditional
            return any(_eqv(_mmi(arg - ms), _mmi(md + Poly.const(k_)),
                            integer=True)[0] for k_ in (0, 1, 2))
        has_dim = ms is not None and any(covers_dim(arg) for arg in args)
        has_n = ni is not None and any(
            (arg - ni).const_value() is not None and (
                arg - ni).const_value() >= 0 for arg in args)
        signed = repo.const(new.module, kws.get(
            "force_signed", ast.Constant(False))) is True
        ok = bool(has_dim and has_n and n_ok)
        detail = (f"dtype covers max({', '.join(show(x)[:60] for x in args)}"
                  f"): top = H + h <= max(W, H) + (largest item dimension) "
                  f"{'ok' if has_dim else 'NOT covered'}; "
                  f"bin ids and window ends <= n_items "
                  f"{'ok' if has_n and n_ok else 'NOT covered'}; "
                  f"signed={signed}")
    except (Unsupported, KeyError) as u:
        detail = f"max_value not understood: {u}"
    ctx.ob("D1.6", new, call, ok, detail, construct="packing dtype range")
    # the packing and the scratch arrays use that dtype
    pk = repo.func("moptipyapps.binpacking2d.packing", "Packing.__new__")
    okp = any(isinstance(n, ast.Attribute) and n.attr == "dtype"
              and ast.unparse(n.value) == "instance"
              for n in ast.walk(pk.node))
    ctx.ob("D1.6", pk, pk.node, okp,
           "Packing is allocated with instance.dtype",
           construct="packing uses instance dtype", nontrivial=False)


def _running_max_vars(ctx: Ctx, new: FuncInfo, cm: Any) -> list[str]:
    """Loop variables of the row loop that are, on every path through one
    round that does not raise, max(previous value, width, height) of the
    row - whether written with max() or with conditional updates."""
    from sa.casesplit import equivalent, minmax_to_ite
    from sa.pathinline import paths
    from sa.symterm import c_and, c_not, ite
    repo = ctx.repo
    mat = new.params[4]
    loops = [lp for lp in func_body(new) if isinstance(lp, ast.For)
             and isinstance(lp.target, ast.Name)]
    out: list[str] = []
    for lp in loops[:1]:
        try:
            ps = [p_ for p_ in paths(list(lp.body)) if p_.ended != "raise"]
        except ValueError:
            continue
        ev = make_evaluator(repo, new, extra_call=py_calls)
        ev.int_transparent = True
        ev.compose_rows = True
        i = Poly.var(lp.target.id)
        w_ = Poly.atom(("cell", mat, (i, Poly.const(0))))
        h_ = Poly.atom(("cell", mat, (i, Poly.const(1))))
        stored = sorted({n.id for n in ast.walk(lp) if isinstance(
            n, ast.Name) and isinstance(n.ctx, ast.Store)})
        for v in stored:
            M0 = Poly.var(v + "$0")
            ref = minmax_to_ite(Poly.atom(("app", "max", (M0, w_, h_))))
            good = bool(ps)
            if not any(v in p_.env for p_ in ps):
                continue
            for p_ in ps:
                env = Env()
                env.vars[v] = M0
                env.vars[lp.target.id] = i
                env.vars[mat] = ("array", mat)
                try:
                    fin = ev.num(env, p_.env[v]) if v in p_.env else M0
                    conds = []
                    for t, truth in p_.guards:
                        try:
                            c = ev.cond(env, t)
                        except Unsupported:
                            continue      # an opaque guard (type tests)
                        conds.append(c if truth else c_not(c))
                    c_all = c_and(*conds) if conds else ("true",)
                    same = equivalent(
                        minmax_to_ite(ite(c_all, fin, ref)), ref,
                        integer=True)[0]
                except Unsupported:
                    same = False
                if not same:
                    good = False
                    break
            if good:
                out.append(v)
    return out


# ------------------------------------------------------------------ D1.7
def _atomic_dnf(c: tuple) -> list[list[tuple]]:
    """DNF of a symterm condition over atomic lt / le / eq (ne split)."""
    k = c[0]
    if k == "true":
        return [[]]
    if k == "false":
        return []
    if k in ("lt", "le", "eq"):
        return [[c]]
    if k == "and":
        out: list[list[tuple]] = [[]]
        for x in c[1:]:
            out = [a + b for a in out for b in _atomic_dnf(x)]
        return out
    if k == "or":
        out = []
        for x in c[1:]:
            out += _atomic_dnf(x)
        return out
    if k == "not":
        d = c[1]
        if d[0] == "eq":
            return [[("lt", d[1], d[2])], [("lt", d[2], d[1])]]
        if d[0] == "lt":
            return [[("le", d[2], d[1])]]
        if d[0] == "le":
            return [[("lt", d[2], d[1])]]
        if d[0] == "and":
            return _atomic_dnf(("or", *[("not", x) for x in d[1:]]))
        if d[0] == "or":
            return _atomic_dnf(("and", *[("not", x) for x in d[1:]]))
        if d[0] == "not":
            return _atomic_dnf(d[1])
    raise Unsupported(f"condition {k} in DNF")


def _move_lemma(ctx: Ctx, fi: FuncInfo, kind: str, C: dict[str, int],
                enc2: bool) -> None:
    """Pairwise lemma: a move by M (0 < M <= every blocker limit, M <= own
    coordinate) keeps the moved box disjoint from every box it was disjoint
    from.  Decided per leaf of the kernel's limit tree by Fourier-Motzkin."""
    from sa.lin import Lin, consistent, entails
    from sa.loopsum import INF, kvar
    from sa.symterm import ite as mk_ite
    name = f"{fi.module.name.split('.')[-1]}.{fi.name}"
    try:
        env = summarise(ctx, fi)
    except Unsupported as u:
        ctx.ob("D1.7", fi, fi.node, False, f"cannot summarise: {u}",
               construct=f"{name} preserves non-overlap")
        return
    M = limit_of(env.returned)
    if M is None or M[0] != "minred":
        ctx.ob("D1.7", fi, fi.node, False, "kernel limit is not a minimum",
               construct=f"{name} preserves non-overlap")
        return
    term, init, guard = M[4], M[5], M[6]
    T = mk_ite(guard, term, INF) if guard != ("true",) else term
    arr = fi.params[0]
    i1, k0 = Poly.var(fi.params[-1]), kvar(0)
    names = {}
    for nm, row in (("1", i1), ("0", k0)):
        for cn, short in (("IDX_LEFT_X", "L"), ("IDX_BOTTOM_Y", "B"),
                          ("IDX_RIGHT_X", "R"), ("IDX_TOP_Y", "T")):
            names[("cell", arr, (row, Poly.const(C[cn])))] = short + nm
    bin_atom = ("cell", arr, (k0, Poly.const(C["IDX_BIN"])))

    def lin(p: Poly) -> Lin:
        r = Lin.const(p.terms.get((), 0))
        for mono, c in p.terms.items():
            if mono == ():
                continue
            if len(mono) != 1 or mono[0][1] != 1 or mono[0][0] not in names:
                raise Unsupported(f"non-linear / foreign term {show(p)}")
            r = r + Lin.sym(names[mono[0][0]]).scale(c)
        return r

    def atom_facts(a: tuple) -> list[Lin]:
        x, y = lin(a[1]), lin(a[2])
        if a[0] == "lt":
            return [y - x - 1]
        if a[0] == "le":
            return [y - x]
        return [y - x, x - y]

    leaves: list[tuple[list[tuple], Poly]] = []

    def walk(t: Poly, path: list[tuple]) -> None:
        a = t.as_atom()
        if a is not None and a[0] == "ite":
            walk(a[2], path + [a[1]])
            walk(a[3], path + [("not", a[1])])
        else:
            leaves.append((path, t))
    walk(T, [])
    S = {n: Lin.sym(n) for n in ("L0", "B0", "R0", "T0", "L1", "B1", "R1",
                                 "T1", "m")}
    side = [S["R1"] - S["L1"] - 1, S["T1"] - S["B1"] - 1,
            S["R0"] - S["L0"] - 1, S["T0"] - S["B0"] - 1, S["m"] - 1]
    pre = [S["L1"] - S["R0"], S["L0"] - S["R1"], S["B1"] - S["T0"],
           S["B0"] - S["T1"]]
    if kind == "down":
        post = [S["L1"] - S["R0"], S["L0"] - S["R1"],
                S["B1"] - S["m"] - S["T0"], S["B0"] - S["T1"] + S["m"]]
        own = S["B1"]
    else:
        post = [S["L1"] - S["m"] - S["R0"], S["L0"] - S["R1"] + S["m"],
                S["B1"] - S["T0"], S["B0"] - S["T1"]]
        own = S["L1"]
    n_cases = 0
    bad = None
    try:
        init_l = lin(init)
        for path, leaf in leaves:
            # conditions on the bin id: only the same-bin case matters
            conj_sets: list[list[tuple]] = [[]]
            skip = False
            for c in path:
                def has_bin(x: Any) -> bool:
                    from sa.symterm import all_atoms
                    return bin_atom in all_atoms(x)
                if has_bin(c):
                    # decide eq(bin0, bin_id) := True
                    val = _decide_bin(c, bin_atom)
                    if val is False:
                        skip = True
                    elif val is None:
                        c2 = _fix_bin(c, bin_atom)
                        conj_sets = [a + b for a in conj_sets
                                     for b in _atomic_dnf(c2)]
                    continue
                conj_sets = [a + b for a in conj_sets
                             for b in _atomic_dnf(c)]
            if skip:
                continue
            for conj in conj_sets:
                base = list(side)
                for a in conj:
                    base += atom_facts(a)
                base.append(init_l - S["m"])
                if leaf != INF:
                    base.append(lin(leaf) - S["m"])
                for pd in pre:
                    facts = base + [pd]
                    if not consistent(facts):
                        continue
                    n_cases += 1
                    if not any(entails(facts, g) for g in post):
                        if bad is None:
                            bad = ("limit " + show(leaf) + " under ["
                                   + " and ".join(
                                       f"{show(a[1])} {a[0]} {show(a[2])}"
                                       for a in conj)[:200] + "]")
        del own
    except Unsupported as u:
        bad = f"not linear: {u}"
    ctx.count("nonoverlap_cases", n_cases)
    ctx.ob("D1.7", fi, fi.node, bad is None and n_cases > 0,
           f"{name}: in all {n_cases} (limit leaf x path x disjointness) "
           "cases, moving by 0 < M <= limit keeps the two boxes disjoint "
           "(Fourier-Motzkin)" if bad is None else
           f"{name}: a move can create an overlap with an earlier box: "
           f"{bad}", construct=f"{name} preserves non-overlap")


def _decide_bin(c: tuple, bin_atom: tuple) -> bool | None:
    """Truth of a condition that is only about the bin id, assuming the
    other box is in the same bin; None if mixed."""
    from sa.symterm import all_atoms
    if c[0] == "eq" and bin_atom in all_atoms(c):
        return True
    if c[0] == "not":
        d = _decide_bin(c[1], bin_atom)
        return None if d is None else (not d)
    return None


def _fix_bin(c: tuple, bin_atom: tuple) -> tuple:
    """Replace bin-id comparisons inside and/or by their same-bin truth."""
    from sa.symterm import all_atoms, c_and, c_not, c_or
    if c[0] == "eq" and bin_atom in all_atoms(c):
        return ("true",)
    if c[0] == "not":
        return c_not(_fix_bin(c[1], bin_atom))
    if c[0] == "and":
        return c_and(*[_fix_bin(x, bin_atom) for x in c[1:]])
    if c[0] == "or":
        return c_or(*[_fix_bin(x, bin_atom) for x in c[1:]])
    return c


# ------------------------------------------------------------------ D1.8
def _wrapper_binding(ctx: Ctx, enc: str, dec: FuncInfo) -> None:
    """Encoding.decode hands (x, y, instance, W, H) to the kernel as such."""
    repo = ctx.repo
    mod = repo.module(ENC + enc)
    cls = next((c for c in mod.classes.values() if "decode" in c.methods),
               None)
    ctx.need(cls is not None, f"{enc}: encoding class with decode()")
    m = cls.methods["decode"]
    calls = [c for c in ast.walk(m.node) if isinstance(c, ast.Call)
             and isinstance(c.func, ast.Name) and repo.resolve(
                 mod, c.func.id) is dec]
    problems = []
    if len(calls) != 1 or calls[0].keywords or len(calls[0].args) != len(
            dec.params):
        problems.append("the kernel is not called once with all its "
                        "parameters positionally")
    else:
        init = cls.methods.get("__init__")
        inst_fields = set()
        if init is not None:
            ip = init.params[1] if len(init.params) > 1 else None
            for n in ast.walk(init.node):
                if isinstance(n, (ast.Assign, ast.AnnAssign)) and \
                        n.value is not None and isinstance(
                        n.value, ast.Name) and n.value.id == ip:
                    tg = n.targets[0] if isinstance(n, ast.Assign) \
                        else n.target
                    if isinstance(tg, ast.Attribute):
                        inst_fields.add(ast.unparse(tg))
        roles = ["x", "y", "instance", "bin_width", "bin_height"]
        for k, (p, a) in enumerate(zip(dec.params, calls[0].args)):
            # aliases and hoisted temporaries of decode() are looked through
            src = ast.unparse(inline_locals(m.node, a))
            role = roles[k] if k < len(roles) else p
            if role in ("x", "y"):
                want = {"x": m.params[1], "y": m.params[2]}[role]
                if src != want:
                    problems.append(f"kernel parameter `{p}` receives "
                                    f"`{src}`")
            elif role == "instance":
                if src not in inst_fields:
                    problems.append(f"kernel parameter `{p}` receives "
                                    f"`{src}`, not the encoding's instance")
            elif role in ("bin_width", "bin_height"):
                if not any(src == f"{f}.{role}" for f in inst_fields):
                    problems.append(f"kernel parameter `{p}` receives "
                                    f"`{src}`, not the instance's {role}")
    # the number of bins returned by the kernel is stored in the packing
    tg_ok = any(isinstance(n, ast.Assign) and calls and len(
        n.targets) == 1 and ast.unparse(
        n.targets[0]) == f"{m.params[2]}.n_bins" and ast.dump(
        inline_locals(m.node, n.value)) == ast.dump(
        inline_locals(m.node, calls[0])) for n in ast.walk(m.node))
    if not tg_ok:
        problems.append("the bin count returned by the kernel is not stored "
                        "as y.n_bins")
    ctx.ob("D1.8", m, calls[0] if calls else m.node, not problems,
           f"{cls.name}.decode passes (x, y, instance, instance.bin_width, "
           "instance.bin_height, ...) to the kernel in its parameter order "
           "and stores the returned bin count" if not problems else
           "; ".join(problems), construct=f"{enc} kernel arguments")
