"""C01 - every decoded bin packing is physically feasible (decided part)."""
from __future__ import annotations

import ast
from typing import Any

from sa import ordenum
from sa.checks.c14 import ENC, _item_loop, cols, summarise
from sa.guards import GuardWalk, is_opaque
from sa.kern import make_evaluator, py_calls
from sa.loopsum import LoopSummariser
from sa.report import Ctx
from sa.srcmodel import FuncInfo, func_body
from sa.symterm import (Env, Poly, Unsupported, all_atoms, show,
                        show_cond)

INST = "moptipyapps.binpacking2d.instance"


def run(ctx: Ctx) -> None:
    ctx.explanation = (
        "Decided clauses of feasibility: D1.1 rotation lemma - for every "
        "weak ordering of (w, h, W, H) that Instance.__new__ accepts and "
        "both requested orientations, the decoder's forced-rotation guard "
        "leaves w <= W and h <= H (exhaustive); D1.2 rectangle size is "
        "preserved by every move (both edges change by the same term) and "
        "equals (w, h) at the drop position and at the new-bin reset; D1.3 "
        "coordinates stay >= 0 (moves are bounded by the own coordinate) "
        "and the keep path implies right <= W and top <= H on all "
        "orderings; D1.4 the stored id is |x[i]|; D1.5 the bin counter "
        "starts at 1, only ever grows by 1, every new value is stored as "
        "the bin of the current row, and is returned; D1.6 the integer type "
        "requested for the packing covers H + h and n_items; D1.7 "
        "non-overlap, by induction over moves: (a) an item is dropped with "
        "its bottom at H, above every box kept in the bin (their top <= H "
        "by D1.3), or reset to (0,0,w,h) in a fresh bin; (b) PAIRWISE MOVE "
        "LEMMA - for every leaf of a kernel's per-blocker limit tree, "
        "every path disjunct and every way two boxes can be disjoint, "
        "moving by 0 < M <= limit (and M <= own coordinate) keeps them "
        "disjoint (decided by Fourier-Motzkin); (c) the window a kernel "
        "scans contains all boxes of the bin (C14 D14.4 / D14.1, boxes of "
        "other bins are ignored by encoding 2). The composition (a)+(b)+(c) "
        "is an argument on paper, not machine-checked.")
    for rid, txt in (("D1.1", "rotation lemma (all orderings)"),
                     ("D1.2", "rectangle size preserved"),
                     ("D1.3", "inside the bin"),
                     ("D1.4", "ids"), ("D1.5", "bin numbering"),
                     ("D1.6", "storage type wide enough"),
                     ("D1.7", "moves preserve pairwise non-overlap"),
                     ("D1.8", "decode() binds the instance quantities to "
                              "the kernel parameters")):
        ctx.rule(rid, txt)
    C = cols(ctx)
    acc = _constructor_accepts(ctx)
    repo = ctx.repo
    for enc in ("ibl_encoding_1", "ibl_encoding_2"):
        dec = repo.func(ENC + enc, "_decode")
        _rotation(ctx, dec, acc)
        for kn, kind in (("__move_down", "down"), ("__move_left", "left")):
            _move_shape(ctx, repo.func(ENC + enc, kn), kind, C)
            _move_lemma(ctx, repo.func(ENC + enc, kn), kind, C,
                        enc.endswith("2"))
        _decode_rules(ctx, dec, C, enc.endswith("2"))
        _wrapper_binding(ctx, enc, dec)
    _dtype(ctx)
    ctx.exhaustive = True
    ctx.assumptions += [
        "P2: x is a signed permutation with repetitions of the item ids",
        "L1 (first item fits the empty first bin) follows from D1.1 and "
        "the drop/move rules",
    ]


# ------------------------------------------------------------------ D1.1
def _constructor_accepts(ctx: Ctx) -> dict[str, Any]:
    """The conditions under which Instance.__new__ accepts an item."""
    repo = ctx.repo
    new = repo.func(INST, "Instance.__new__")
    ev = make_evaluator(repo, new, extra_call=py_calls)
    ev.int_transparent = True
    gw = GuardWalk(ev)
    gw.walk(Env(), func_body(new))
    W, H = Poly.var("bin_width"), Poly.var("bin_height")
    lo = min(W, H, key=lambda p: repr(p.key()))
    del lo
    mx = Poly.atom(("app", "max", tuple(sorted(
        {W, H}, key=lambda p: repr(p.key())))))
    mn = Poly.atom(("app", "min", tuple(sorted(
        {W, H}, key=lambda p: repr(p.key())))))
    # check_int_range(int(width), "width", 1, max_dim) for both dimensions
    bounds = {}
    for n in ast.walk(new.node):
        if isinstance(n, ast.Call) and isinstance(n.func, ast.Name) and \
                n.func.id == "check_int_range" and len(n.args) >= 4:
            nm = repo.const(new.module, n.args[1])
            if nm in ("width", "height"):
                lo_ = repo.const(new.module, n.args[2])
                hi_ = n.args[3]
                bounds[nm] = (lo_, hi_)
    ok_b = set(bounds) == {"width", "height"}
    hi_terms = {}
    if ok_b:
        # evaluate the upper bound expressions in the environment of the
        # item loop
        loop_env = None
        for lp, e in gw.loop_envs.items():
            loop_env = e
        for nm, (lo_, hi_) in bounds.items():
            try:
                hi_terms[nm] = ev.num(loop_env or Env(), hi_)
            except Unsupported:
                ok_b = False
            if lo_ != 1:
                ok_b = False
    ok_b = ok_b and all(v == mx for v in hi_terms.values())
    ctx.ob("D1.1", new, new.node, ok_b,
           "the constructor requires 1 <= width, height <= max(bin_width, "
           "bin_height)" if ok_b else
           f"constructor range checks on item dimensions: {bounds}",
           construct="item dimension range")
    # the 'fits in no orientation' rejection
    rej = None
    for e in gw.exits:
        if e.kind == "raise" and e.loops and not is_opaque(e.cond):
            ats = all_atoms(e.cond)
            others = [a for a in ats if a[0] == "var"
                      and Poly.atom(a) not in (W, H)]
            if mn.as_atom() in ats and len(others) == 2:
                rej = e
    ctx.ob("D1.1", new, rej.node if rej else new.node, rej is not None,
           f"items are rejected when [{show_cond(rej.cond)}]" if rej else
           "no rejection of items that exceed min(bin_width, bin_height) "
           "in both dimensions", construct="item rejection")
    return {"ok": ok_b and rej is not None, "rej": rej, "mx": mx, "mn": mn,
            "W": W, "H": H}


def _rotation(ctx: Ctx, dec: FuncInfo, acc: dict[str, Any]) -> None:
    if not acc["ok"]:
        return
    loop = _item_loop(dec)
    swap = None
    for s in loop.body:
        if isinstance(s, ast.If) and any(
                isinstance(x, ast.Assign) and isinstance(
                    x.targets[0], ast.Tuple) for x in s.body):
            swap = s
    if swap is None:
        ctx.ob("D1.1", dec, loop, False,
               "no forced rotation `if (w > W) or (h > H): w, h = h, w`",
               construct="forced rotation")
        return
    ev = make_evaluator(ctx.repo, dec)
    env = Env()
    w, h = Poly.var("w"), Poly.var("h")
    env.vars.update({"w": w, "h": h})
    try:
        env = ev.stmt(env, swap)
    except Unsupported as u:
        ctx.ob("D1.1", dec, swap, False, f"cannot normalise: {u}",
               construct="forced rotation")
        return
    w2, h2 = env.vars["w"], env.vars["h"]
    W, H = acc["W"], acc["H"]
    rej = acc["rej"]
    # the rejection condition is over (width, height) of the instance row;
    # rename to (w, h): it is symmetric in the two, checked for both
    # assignments below
    rts = sorted((Poly.atom(a) for a in all_atoms(rej.cond)
                  if a[0] == "var" and Poly.atom(a) not in (W, H)),
                 key=lambda p: repr(p.key()))
    terms = [w, h, W, H]
    n_cases = 0
    bad = None
    one = Poly.const(1)
    for m in ordenum.enumerate_models(terms + [one], integer=True):
        rw, rh, rW, rH, r1 = (m.rank(x) for x in terms + [one])
        mxr = max(rW, rH)
        if not (r1 <= rw <= mxr and r1 <= rh <= mxr and r1 <= rW
                and r1 <= rH):
            continue
        for a, b in ((w, h), (h, w)):
            # evaluate the constructor's rejection with (width,height)=(a,b)
            sub = {rts[0].as_atom(): a, rts[1].as_atom(): b}
            mm = ordenum.OrderModel(terms + [one])
            mm.ranks = m.ranks
            cond = _subst_cond(rej.cond, sub)
            if mm.cond(cond):
                continue           # not a valid instance
            n_cases += 1
            fw, fh = mm.select(w2), mm.select(h2)
            if not (mm.rank(fw) <= rW and mm.rank(fh) <= rH):
                if bad is None:
                    bad = mm.describe(["w", "h", "W", "H", "1"])
            break
    ctx.count("orderings_enumerated", n_cases)
    ctx.ob("D1.1", dec, swap, bad is None and n_cases > 0,
           f"{n_cases} accepted orderings of (w, h, W, H): after the forced "
           "rotation w <= W and h <= H in every case" if bad is None else
           f"after the rotation guard the item can still exceed the bin for "
           f"{bad}", construct="rotation lemma",
           witness=None if bad is None else {"ordering": bad})


def _subst_cond(c: tuple, sub: dict) -> tuple:
    from sa.symterm import map_atom
    return map_atom(c, lambda p: p.subst(sub))


# ----------------------------------------------------------- D1.2 / D1.3
def _move_shape(ctx: Ctx, fi: FuncInfo, kind: str, C: dict[str, int]) \
        -> None:
    name = f"{fi.module.name.split('.')[-1]}.{fi.name}"
    try:
        env = summarise(ctx, fi)
    except Unsupported as u:
        ctx.ob("D1.2", fi, u.node or fi.node, False,
               f"cannot summarise: {u}", construct=f"{name} size")
        return
    i1 = Poly.var("i1")
    arr = fi.params[0]
    c1, c2 = ("IDX_BOTTOM_Y", "IDX_TOP_Y") if kind == "down" else (
        "IDX_LEFT_X", "IDX_RIGHT_X")
    k1 = (arr, (i1, Poly.const(C[c1])))
    k2 = (arr, (i1, Poly.const(C[c2])))
    st = dict(env.stores)
    ok = set(st) == {k1, k2}
    detail = f"{name} writes {[(k[0], [show(i) for i in k[1]]) for k in st]}"
    M = None
    if ok:
        a1, a2 = st[k1].as_atom(), st[k2].as_atom()
        own1 = Poly.atom(("cell", arr, k1[1]))
        own2 = Poly.atom(("cell", arr, k2[1]))
        ok = a1 is not None and a2 is not None and a1[0] == "ite" and \
            a2[0] == "ite" and a1[1] == a2[1] and a1[3] == own1 and \
            a2[3] == own2 and (own1 - a1[2]) == (own2 - a2[2])
        if ok:
            M = own1 - a1[2]
            detail = (f"{name}: both edges are lowered by the same term, so "
                      "the rectangle keeps its size")
    ctx.ob("D1.2", fi, fi.node, ok, detail, construct=f"{name} size")
    if M is None:
        return
    ma = M.as_atom()
    own1 = Poly.atom(("cell", arr, k1[1]))
    guard = st[k1].as_atom()[1]
    ok3 = ma is not None and ma[0] == "minred" and ma[5] == own1 and \
        guard == ("lt", Poly.const(0), M)
    ctx.ob("D1.3", fi, fi.node, ok3,
           f"{name}: the shift is a minimum that starts at the own "
           f"{'bottom' if kind == 'down' else 'left'} coordinate and is "
           "applied only when positive, hence 0 <= new coordinate" if ok3
           else f"{name}: the shift {show(M)[:100]} is not bounded by the "
                "own coordinate - the item can leave the bin through the "
                f"{'bottom' if kind == 'down' else 'left'} side",
           construct=f"{name} non-negative")


def _decode_rules(ctx: Ctx, dec: FuncInfo, C: dict[str, int],
                  enc2: bool) -> None:
    repo = ctx.repo
    loop = _item_loop(dec)
    ev = make_evaluator(repo, dec)
    ev.int_transparent = True
    W, H = Poly.var("bin_width"), Poly.var("bin_height")
    w, h = Poly.var("w"), Poly.var("h")
    ivar = loop.target.elts[0].id if isinstance(
        loop.target, ast.Tuple) else "i"
    i = Poly.var(ivar)
    # ---- all store groups of coordinates: size must be (w, h)
    groups: list[tuple[ast.AST, dict[int, Poly]]] = []

    def scan(stmts: list[ast.stmt]) -> None:
        cur: dict[int, Poly] = {}
        first = None
        for s in stmts:
            hit = False
            if isinstance(s, ast.Assign) and isinstance(
                    s.targets[0], ast.Subscript) and isinstance(
                    s.targets[0].value, ast.Name) and \
                    s.targets[0].value.id == "y":
                env = Env()
                env.vars.update({"w": w, "h": h})
                try:
                    idx = ev.index(env, s.targets[0].slice)
                    val = ev.num(env, s.value)
                    cv = idx[1].const_value()
                    if idx[0] == i and cv is not None and int(cv) in (
                            C["IDX_LEFT_X"], C["IDX_BOTTOM_Y"],
                            C["IDX_RIGHT_X"], C["IDX_TOP_Y"]):
                        cur[int(cv)] = val
                        first = first or s
                        hit = True
                except Unsupported:
                    pass
            if not hit:
                for fld in ("body", "orelse"):
                    sub = getattr(s, fld, None)
                    if isinstance(sub, list) and sub and isinstance(
                            sub[0], ast.stmt):
                        scan(sub)
        if cur:
            groups.append((first, cur))
    scan(loop.body)
    ctx.floor(f"coordinate_store_groups_{dec.module.name[-1]}",
              len(groups), 2)
    drops = [g for _, g in groups if g.get(C["IDX_BOTTOM_Y"]) == H]
    resets = [g for _, g in groups if g.get(C["IDX_BOTTOM_Y"]) ==
              Poly.const(0) and g.get(C["IDX_LEFT_X"]) == Poly.const(0)]
    ctx.ob("D1.7", dec, loop, len(drops) >= 1 and len(resets) >= 1 and len(
        drops) + len(resets) == len(groups),
           "every placement is either a drop with bottom = bin height "
           "(above all kept boxes) or the reset to the bottom-left corner "
           "of a fresh bin", construct="initial positions disjoint")
    for node, g in groups:
        full = set(g) == {C["IDX_LEFT_X"], C["IDX_BOTTOM_Y"],
                          C["IDX_RIGHT_X"], C["IDX_TOP_Y"]}
        ok = full and g[C["IDX_RIGHT_X"]] - g[C["IDX_LEFT_X"]] == w and \
            g[C["IDX_TOP_Y"]] - g[C["IDX_BOTTOM_Y"]] == h
        ctx.ob("D1.2", dec, node, ok,
               "coordinates are set so that right-left = w and top-bottom "
               "= h" if ok else
               "a coordinate assignment does not give the rectangle the "
               f"size (w, h): { {k: show(v) for k, v in sorted(g.items())} }",
               construct="size at placement")
        # left/bottom non-negative given w <= W (D1.1)
        lb = [g.get(C["IDX_LEFT_X"]), g.get(C["IDX_BOTTOM_Y"])]
        okn = full and all(v in (Poly.const(0), W - w, H, W, H - h)
                           for v in lb)
        ctx.ob("D1.3", dec, node, okn,
               "left and bottom are 0, W-w or H: non-negative by the "
               "rotation lemma" if okn else
               f"left/bottom = {[show(v) for v in lb if v is not None]} "
               "not known to be non-negative",
               construct="placement non-negative", nontrivial=False)
    # ---- keep path implies inside (all orderings)
    yr = Poly.atom(("cell", "y", (i, Poly.const(C["IDX_RIGHT_X"]))))
    yt = Poly.atom(("cell", "y", (i, Poly.const(C["IDX_TOP_Y"]))))
    cond = None
    node: ast.AST = loop
    keep_when = True
    if not enc2:
        for s in loop.body:
            if isinstance(s, ast.If) and any(
                    isinstance(x, ast.Assign) and isinstance(
                        x.targets[0], ast.Name)
                    and x.targets[0].id == "bin_id" for x in s.body):
                cond, node, keep_when = s.test, s, False
    else:
        for s in ast.walk(loop):
            if isinstance(s, ast.If) and isinstance(
                    s.body[-1], ast.Break):
                cond, node, keep_when = s.test, s, True
    okk = False
    detail = "fit test not found"
    if cond is not None:
        try:
            c = ev.cond(Env(), cond)
            n = 0
            bad = None
            for m in ordenum.enumerate_models([yr, W, yt, H]):
                n += 1
                if m.cond(c) == keep_when:
                    if not (m.rank(yr) <= m.rank(W)
                            and m.rank(yt) <= m.rank(H)):
                        bad = m.describe(["right", "W", "top", "H"])
            okk = bad is None
            detail = (f"on all {n} orderings, the item is kept in the bin "
                      "only if right <= W and top <= H" if okk else
                      f"the item is kept although it sticks out: {bad}")
        except Unsupported as u:
            detail = f"fit test not order-abstract: {u}"
    ctx.ob("D1.3", dec, node, okk, detail, construct="keep path inside bin")
    # ---- D1.4 ids
    idv = None
    env = Env()
    for s in loop.body:
        if isinstance(s, ast.Assign) and isinstance(
                s.targets[0], ast.Subscript) and ast.unparse(
                s.targets[0].value) == "y":
            try:
                idx = ev.index(env, s.targets[0].slice)
                if idx[1].const_value() == C["IDX_ID"]:
                    idv = ev.num(env, s.value)
                    idnode = s
            except Unsupported:
                pass
            continue
        if isinstance(s, (ast.If, ast.Assign, ast.AnnAssign)):
            try:
                env = ev.stmt(env, s)
            except Unsupported:
                pass
    item = Poly.var(loop.target.elts[1].id) if isinstance(
        loop.target, ast.Tuple) else None
    ok4 = False
    if idv is not None and item is not None:
        zero = Poly.const(0)
        try:
            ok4 = True
            for ranks, want in (((0, 1), -item), ((1, 0), item)):
                m = ordenum.OrderModel([item, zero])
                m.ranks = ranks
                if _resolve(idv, m) != want:
                    ok4 = False
        except Unsupported:
            ok4 = False
    ctx.ob("D1.4", dec, loop, ok4,
           "the stored id is |x[i]| on both sign branches" if ok4 else
           f"the stored id is {show(idv) if idv is not None else '?'}",
           construct="stored id")
    # ---- D1.5 bin counter protocol
    assigns = [n for n in ast.walk(dec.node) if isinstance(
        n, (ast.Assign, ast.AnnAssign)) and isinstance(
        n.targets[0] if isinstance(n, ast.Assign) else n.target, ast.Name)
        and (n.targets[0] if isinstance(n, ast.Assign)
             else n.target).id == "bin_id" and n.value is not None]
    init = [a for a in assigns if repo.const(dec.module, a.value) == 1]
    incs = [a for a in assigns if ast.unparse(a.value).replace(
        " ", "") in ("bin_id+1", "1+bin_id")]
    rets = [r for r in ast.walk(dec.node) if isinstance(r, ast.Return)]
    ok5 = len(init) == 1 and len(incs) == len(assigns) - 1 >= 1 and len(
        rets) == 1 and "bin_id" in ast.unparse(rets[0].value)
    # each increment is followed (same block) by a store of bin_id as bin
    for inc in incs:
        found = False
        for blk in _blocks(loop):
            if inc in blk:
                k = blk.index(inc)
                rest = blk[k + 1:]
                found = any(
                    isinstance(s, ast.Assign) and isinstance(
                        s.targets[0], ast.Subscript)
                    and ast.unparse(s.targets[0].value) == "y"
                    and repo.const(dec.module, s.targets[0].slice.elts[1])
                    == C["IDX_BIN"] and ast.unparse(s.value) == "bin_id"
                    for s in rest)
                if not found and not enc2:
                    # encoding 1 stores after the if-block
                    outer = loop.body
                    found = any(
                        isinstance(s, ast.Assign) and isinstance(
                            s.targets[0], ast.Subscript)
                        and ast.unparse(s.value) == "bin_id"
                        for s in outer)
        ok5 = ok5 and found
    ctx.ob("D1.5", dec, dec.node, ok5,
           "bin_id starts at 1, is only ever incremented by 1, each new "
           "value is stored as the bin of the current row, and the kernel "
           "returns it (range 1..n_items: C13)" if ok5 else
           "the bin counter protocol is broken (start value, step, missing "
           "store of a new bin id, or return value)",
           construct="bin counter protocol")


def _resolve(p: Poly, m: ordenum.OrderModel) -> Poly:
    """Replace every ite atom of `p` by the branch selected under `m`."""
    sub = {}
    for a in p.atoms():
        if a[0] == "ite":
            sub[a] = _resolve(a[2] if m.cond(a[1]) else a[3], m)
    return p.subst(sub) if sub else p


def _blocks(node: ast.AST) -> list[list[ast.stmt]]:
    out = []
    for n in ast.walk(node):
        for fld in ("body", "orelse"):
            sub = getattr(n, fld, None)
            if isinstance(sub, list) and sub and isinstance(
                    sub[0], ast.stmt):
                out.append(sub)
    return out


# ------------------------------------------------------------------ D1.6
def _dtype(ctx: Ctx) -> None:
    repo = ctx.repo
    new = repo.func(INST, "Instance.__new__")
    ls = LoopSummariser()
    ev = make_evaluator(repo, new, extra_call=py_calls, loop_hook=ls.hook)
    ev.int_transparent = True
    ev.tolerant_loops = True
    gw = GuardWalk(ev, ls)
    env = gw.walk(Env(), func_body(new))
    call = None
    for n in ast.walk(new.node):
        if isinstance(n, ast.Call) and isinstance(n.func, ast.Name) and \
                n.func.id == "int_range_to_dtype":
            call = n
    ctx.need(call is not None, "Instance.__new__: int_range_to_dtype call")
    kws = {k.arg: k.value for k in call.keywords}
    ok = False
    detail = "max_value not understood"
    del ls, gw, env
    ev2 = make_evaluator(repo, new)
    try:
        mx = ev2.num(Env(), kws["max_value"])
        a = mx.as_atom()
        args = list(a[2]) if a is not None and a[0] == "app" and \
            a[1] == "max" else [mx]
        md, ms, ni = (Poly.var(x) for x in ("max_dim", "max_size",
                                             "n_items"))
        has_dim = any((arg - md - ms).const_value() is not None and (
            arg - md - ms).const_value() >= 0 for arg in args)
        has_n = any((arg - ni).const_value() is not None and (
            arg - ni).const_value() >= 0 for arg in args)
        # definitions of the three quantities
        src = {}
        for n in ast.walk(new.node):
            if isinstance(n, (ast.Assign, ast.AnnAssign, ast.AugAssign)):
                tg = n.targets[0] if isinstance(n, ast.Assign) else n.target
                if isinstance(tg, ast.Name) and tg.id in (
                        "max_dim", "max_size", "n_items") and \
                        n.value is not None:
                    src.setdefault(tg.id, []).append(n)
        d_ok = any(isinstance(n.value, ast.Call) and ast.unparse(
            n.value.func) == "max" and {ast.unparse(x) for x in
                                         n.value.args} == {
            "bin_width", "bin_height"} for n in src.get("max_dim", []))
        s_ok = any(isinstance(n.value, ast.Call) and ast.unparse(
            n.value.func) == "max" and {"max_size", "width", "height"} <= {
            ast.unparse(x) for x in n.value.args}
            for n in src.get("max_size", []))
        n_ok = any(isinstance(n, ast.AugAssign) and isinstance(
            n.op, ast.Add) and ast.unparse(n.value) == "repetitions"
            for n in src.get("n_items", []))
        signed = repo.const(new.module, kws.get(
            "force_signed", ast.Constant(False))) is True
        ok = has_dim and has_n and d_ok and s_ok and n_ok
        detail = (f"dtype covers max({', '.join(show(x)[:60] for x in args)}"
                  f"): top = H + h <= max_dim + max_size "
                  f"{'ok' if has_dim and d_ok and s_ok else 'NOT covered'}; "
                  f"bin ids and window ends <= n_items "
                  f"{'ok' if has_n and n_ok else 'NOT covered'}; "
                  f"signed={signed}")
    except (Unsupported, KeyError) as u:
        detail = f"max_value not understood: {u}"
    ctx.ob("D1.6", new, call, ok, detail, construct="packing dtype range")
    # the packing and the scratch arrays use that dtype
    pk = repo.func("moptipyapps.binpacking2d.packing", "Packing.__new__")
    okp = any(isinstance(n, ast.Attribute) and n.attr == "dtype"
              and ast.unparse(n.value) == "instance"
              for n in ast.walk(pk.node))
    ctx.ob("D1.6", pk, pk.node, okp,
           "Packing is allocated with instance.dtype",
           construct="packing uses instance dtype", nontrivial=False)


# ------------------------------------------------------------------ D1.7
def _atomic_dnf(c: tuple) -> list[list[tuple]]:
    """DNF of a symterm condition over atomic lt / le / eq (ne split)."""
    k = c[0]
    if k == "true":
        return [[]]
    if k == "false":
        return []
    if k in ("lt", "le", "eq"):
        return [[c]]
    if k == "and":
        out: list[list[tuple]] = [[]]
        for x in c[1:]:
            out = [a + b for a in out for b in _atomic_dnf(x)]
        return out
    if k == "or":
        out = []
        for x in c[1:]:
            out += _atomic_dnf(x)
        return out
    if k == "not":
        d = c[1]
        if d[0] == "eq":
            return [[("lt", d[1], d[2])], [("lt", d[2], d[1])]]
        if d[0] == "lt":
            return [[("le", d[2], d[1])]]
        if d[0] == "le":
            return [[("lt", d[2], d[1])]]
        if d[0] == "and":
            return _atomic_dnf(("or", *[("not", x) for x in d[1:]]))
        if d[0] == "or":
            return _atomic_dnf(("and", *[("not", x) for x in d[1:]]))
        if d[0] == "not":
            return _atomic_dnf(d[1])
    raise Unsupported(f"condition {k} in DNF")


def _move_lemma(ctx: Ctx, fi: FuncInfo, kind: str, C: dict[str, int],
                enc2: bool) -> None:
    """Pairwise lemma: a move by M (0 < M <= every blocker limit, M <= own
    coordinate) keeps the moved box disjoint from every box it was disjoint
    from.  Decided per leaf of the kernel's limit tree by Fourier-Motzkin."""
    from sa.lin import Lin, consistent, entails
    from sa.loopsum import INF, kvar
    from sa.symterm import ite as mk_ite
    name = f"{fi.module.name.split('.')[-1]}.{fi.name}"
    try:
        env = summarise(ctx, fi)
    except Unsupported as u:
        ctx.ob("D1.7", fi, fi.node, False, f"cannot summarise: {u}",
               construct=f"{name} preserves non-overlap")
        return
    ret = env.returned
    M = ret[2].as_atom() if isinstance(ret, tuple) and ret[0] == "lt" and \
        isinstance(ret[2], Poly) else None
    if M is None or M[0] != "minred":
        ctx.ob("D1.7", fi, fi.node, False, "kernel limit is not a minimum",
               construct=f"{name} preserves non-overlap")
        return
    term, init, guard = M[4], M[5], M[6]
    T = mk_ite(guard, term, INF) if guard != ("true",) else term
    arr = fi.params[0]
    i1, k0 = Poly.var("i1"), kvar(0)
    names = {}
    for nm, row in (("1", i1), ("0", k0)):
        for cn, short in (("IDX_LEFT_X", "L"), ("IDX_BOTTOM_Y", "B"),
                          ("IDX_RIGHT_X", "R"), ("IDX_TOP_Y", "T")):
            names[("cell", arr, (row, Poly.const(C[cn])))] = short + nm
    bin_atom = ("cell", arr, (k0, Poly.const(C["IDX_BIN"])))

    def lin(p: Poly) -> Lin:
        r = Lin.const(p.terms.get((), 0))
        for mono, c in p.terms.items():
            if mono == ():
                continue
            if len(mono) != 1 or mono[0][1] != 1 or mono[0][0] not in names:
                raise Unsupported(f"non-linear / foreign term {show(p)}")
            r = r + Lin.sym(names[mono[0][0]]).scale(c)
        return r

    def atom_facts(a: tuple) -> list[Lin]:
        x, y = lin(a[1]), lin(a[2])
        if a[0] == "lt":
            return [y - x - 1]
        if a[0] == "le":
            return [y - x]
        return [y - x, x - y]

    leaves: list[tuple[list[tuple], Poly]] = []

    def walk(t: Poly, path: list[tuple]) -> None:
        a = t.as_atom()
        if a is not None and a[0] == "ite":
            walk(a[2], path + [a[1]])
            walk(a[3], path + [("not", a[1])])
        else:
            leaves.append((path, t))
    walk(T, [])
    S = {n: Lin.sym(n) for n in ("L0", "B0", "R0", "T0", "L1", "B1", "R1",
                                 "T1", "m")}
    side = [S["R1"] - S["L1"] - 1, S["T1"] - S["B1"] - 1,
            S["R0"] - S["L0"] - 1, S["T0"] - S["B0"] - 1, S["m"] - 1]
    pre = [S["L1"] - S["R0"], S["L0"] - S["R1"], S["B1"] - S["T0"],
           S["B0"] - S["T1"]]
    if kind == "down":
        post = [S["L1"] - S["R0"], S["L0"] - S["R1"],
                S["B1"] - S["m"] - S["T0"], S["B0"] - S["T1"] + S["m"]]
        own = S["B1"]
    else:
        post = [S["L1"] - S["m"] - S["R0"], S["L0"] - S["R1"] + S["m"],
                S["B1"] - S["T0"], S["B0"] - S["T1"]]
        own = S["L1"]
    n_cases = 0
    bad = None
    try:
        init_l = lin(init)
        for path, leaf in leaves:
            # conditions on the bin id: only the same-bin case matters
            conj_sets: list[list[tuple]] = [[]]
            skip = False
            for c in path:
                def has_bin(x: Any) -> bool:
                    from sa.symterm import all_atoms
                    return bin_atom in all_atoms(x)
                if has_bin(c):
                    # decide eq(bin0, bin_id) := True
                    val = _decide_bin(c, bin_atom)
                    if val is False:
                        skip = True
                    elif val is None:
                        c2 = _fix_bin(c, bin_atom)
                        conj_sets = [a + b for a in conj_sets
                                     for b in _atomic_dnf(c2)]
                    continue
                conj_sets = [a + b for a in conj_sets
                             for b in _atomic_dnf(c)]
            if skip:
                continue
            for conj in conj_sets:
                base = list(side)
                for a in conj:
                    base += atom_facts(a)
                base.append(init_l - S["m"])
                if leaf != INF:
                    base.append(lin(leaf) - S["m"])
                for pd in pre:
                    facts = base + [pd]
                    if not consistent(facts):
                        continue
                    n_cases += 1
                    if not any(entails(facts, g) for g in post):
                        if bad is None:
                            bad = ("limit " + show(leaf) + " under ["
                                   + " and ".join(
                                       f"{show(a[1])} {a[0]} {show(a[2])}"
                                       for a in conj)[:200] + "]")
        del own
    except Unsupported as u:
        bad = f"not linear: {u}"
    ctx.count("nonoverlap_cases", n_cases)
    ctx.ob("D1.7", fi, fi.node, bad is None and n_cases > 0,
           f"{name}: in all {n_cases} (limit leaf x path x disjointness) "
           "cases, moving by 0 < M <= limit keeps the two boxes disjoint "
           "(Fourier-Motzkin)" if bad is None else
           f"{name}: a move can create an overlap with an earlier box: "
           f"{bad}", construct=f"{name} preserves non-overlap")


def _decide_bin(c: tuple, bin_atom: tuple) -> bool | None:
    """Truth of a condition that is only about the bin id, assuming the
    other box is in the same bin; None if mixed."""
    from sa.symterm import all_atoms
    if c[0] == "eq" and bin_atom in all_atoms(c):
        return True
    if c[0] == "not":
        d = _decide_bin(c[1], bin_atom)
        return None if d is None else (not d)
    return None


def _fix_bin(c: tuple, bin_atom: tuple) -> tuple:
    """Replace bin-id comparisons inside and/or by their same-bin truth."""
    from sa.symterm import all_atoms, c_and, c_not, c_or
    if c[0] == "eq" and bin_atom in all_atoms(c):
        return ("true",)
    if c[0] == "not":
        return c_not(_fix_bin(c[1], bin_atom))
    if c[0] == "and":
        return c_and(*[_fix_bin(x, bin_atom) for x in c[1:]])
    if c[0] == "or":
        return c_or(*[_fix_bin(x, bin_atom) for x in c[1:]])
    return c


# ------------------------------------------------------------------ D1.8
def _wrapper_binding(ctx: Ctx, enc: str, dec: FuncInfo) -> None:
    """Encoding.decode hands (x, y, instance, W, H) to the kernel as such."""
    repo = ctx.repo
    mod = repo.module(ENC + enc)
    cls = next((c for c in mod.classes.values() if "decode" in c.methods),
               None)
    ctx.need(cls is not None, f"{enc}: encoding class with decode()")
    m = cls.methods["decode"]
    calls = [c for c in ast.walk(m.node) if isinstance(c, ast.Call)
             and isinstance(c.func, ast.Name) and repo.resolve(
                 mod, c.func.id) is dec]
    problems = []
    if len(calls) != 1 or calls[0].keywords or len(calls[0].args) != len(
            dec.params):
        problems.append("the kernel is not called once with all its "
                        "parameters positionally")
    else:
        init = cls.methods.get("__init__")
        inst_fields = set()
        if init is not None:
            ip = init.params[1] if len(init.params) > 1 else None
            for n in ast.walk(init.node):
                if isinstance(n, (ast.Assign, ast.AnnAssign)) and \
                        n.value is not None and isinstance(
                        n.value, ast.Name) and n.value.id == ip:
                    tg = n.targets[0] if isinstance(n, ast.Assign) \
                        else n.target
                    if isinstance(tg, ast.Attribute):
                        inst_fields.add(ast.unparse(tg))
        for p, a in zip(dec.params, calls[0].args):
            src = ast.unparse(a)
            if p in (m.params[1], m.params[2]) or p in ("x", "y"):
                want = {"x": m.params[1], "y": m.params[2]}.get(p, p)
                if src != want:
                    problems.append(f"kernel parameter `{p}` receives "
                                    f"`{src}`")
            elif p == "instance":
                if src not in inst_fields:
                    problems.append(f"kernel parameter `instance` receives "
                                    f"`{src}`, not the encoding's instance")
            elif p in ("bin_width", "bin_height"):
                if not any(src == f"{f}.{p}" for f in inst_fields):
                    problems.append(f"kernel parameter `{p}` receives "
                                    f"`{src}`, not the instance's {p}")
    # the number of bins returned by the kernel is stored in the packing
    tg_ok = any(isinstance(n, ast.Assign) and calls and n.value is calls[0]
                and ast.unparse(n.targets[0]) == f"{m.params[2]}.n_bins"
                for n in ast.walk(m.node))
    if not tg_ok:
        problems.append("the bin count returned by the kernel is not stored "
                        "as y.n_bins")
    ctx.ob("D1.8", m, calls[0] if calls else m.node, not problems,
           f"{cls.name}.decode passes (x, y, instance, instance.bin_width, "
           "instance.bin_height, ...) to the kernel in its parameter order "
           "and stores the returned bin count" if not problems else
           "; ".join(problems), construct=f"{enc} kernel arguments")
