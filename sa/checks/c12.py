"""C12 - bundled experiment runs are replicable (decided part)."""
from __future__ import annotations

import ast
from typing import Any

from sa.cfg import CFG, calls_in
from sa.report import Ctx
from sa.srcmodel import FuncInfo, Module, dotted_name, func_body

BANNED_PREFIX = ("random.", "numpy.random.", "time.", "uuid.", "secrets.")
BANNED_EXACT = {"os.urandom", "datetime.datetime.now", "datetime.now",
                "datetime.datetime.utcnow", "os.getpid"}
#: numpy.random names that are fine to *reference*
NP_OK = {"numpy.random.default_rng", "numpy.random.Generator",
         "numpy.random.SeedSequence", "numpy.random.PCG64"}


def _full(ctx: Ctx, mod: Module, f: ast.expr) -> str | None:
    dn = dotted_name(f)
    if dn is None:
        return None
    head = dn.split(".")[0]
    imp = mod.imports.get(head)
    if imp is None:
        return None
    base = imp[0] + ("." + imp[1] if imp[1] else "")
    return base + dn[len(head):]


def run(ctx: Ctx) -> None:
    ctx.explanation = (
        "Replicability clauses that live in the shape of the code: D12.1 "
        "no call in the package or the examples reaches an unseeded or "
        "time/OS dependent source of randomness (imports resolved; every "
        "default_rng has a seed argument; iteration over sets is only over "
        "int sets); D12.2 every Execution built by the bundled experiment "
        "modules and examples gets an FE budget and no time budget, and "
        "every nested execution is seeded on every path before it runs; "
        "D12.3 the seed memo of the hardness objective is keyed by exactly "
        "what the seeds are computed from; D12.4 the key the packing log "
        "parser looks for equals the key under which the space logs the "
        "instance name (constants folded from moptipy's source); D12.6 a "
        "packing result parsed from a log holds, under each objective's "
        "name, that objective's evaluate(packing) and its own lower/upper "
        "bound, bin_bounds[key](instance) under key and the instance's "
        "sizes. Not "
        "decided: termination, re-evaluation of logged values, identical "
        "reruns (run behaviour).")
    for rid, txt in (("D12.1", "no unseeded / environment dependent source"),
                     ("D12.2", "FE budgets only; nested runs seeded"),
                     ("D12.3", "hardness seed memo keyed by its inputs"),
                     ("D12.4", "log key writer/reader agreement")):
        ctx.rule(rid, txt)
    _sources(ctx)
    _budgets(ctx)
    _nested_seeds(ctx)
    _memo(ctx)
    _log_key(ctx)
    ctx.rule("D12.6", "result records are assembled from the parsed packing, "
             "its instance and the named objectives")
    _record_assembly(ctx)
    ctx.rule("D12.7", "Packing.from_log(file, instance) builds the packing "
             "for the instance it is given")
    _given_instance(ctx)
    ctx.rule("D12.8", "a bundled setup builder uses every configuration "
             "parameter it is given")
    _setup_parameters(ctx)
    ctx.rule("D12.9", "a freshly created record is filled with the run's "
             "result before it is reported")
    _filled_before_use(ctx)
    ctx.assumptions += [
        "P4: process.get_random() is the run's seeded generator; moptipy "
        "derives per-run seeds from the instance name",
        "moptipyapps.tests.* (test helpers) are outside the bundled "
        "experiment setups and are not analysed",
    ]


def _modules(ctx: Ctx) -> list[Module]:
    return [m for nm, m in sorted(ctx.repo.modules.items())
            if not nm.startswith("moptipyapps.tests")]


# ------------------------------------------------------------------ D12.1
def _sources(ctx: Ctx) -> None:
    n_calls = 0
    n_rng = 0
    for mod in _modules(ctx):
        bad: list[tuple[ast.AST, str]] = []
        for n in ast.walk(mod.tree):
            if not isinstance(n, ast.Call):
                continue
            n_calls += 1
            full = _full(ctx, mod, n.func)
            if full is None:
                if isinstance(n.func, ast.Name) and n.func.id == "hash" \
                        and n.func.id not in mod.funcs:
                    bad.append((n, "hash() is salted per process for "
                                   "str/bytes"))
                continue
            if full in ("numpy.random.default_rng",):
                n_rng += 1
                if not n.args and not n.keywords:
                    bad.append((n, "default_rng() without a seed"))
                continue
            if full in NP_OK or full in ("time.sleep",):
                continue      # sleeping does not influence any result
            if full in BANNED_EXACT or full.startswith(BANNED_PREFIX):
                bad.append((n, f"call of {full}"))
        for node, why in bad:
            ctx.ob("D12.1", mod, node, False,
                   f"{why}: results would differ between two runs with the "
                   "same seed", function="<module>",
                   construct=f"nondeterministic source {why[:50]}")
        # iteration over sets
        for fi in mod.funcs.values():
            sets: dict[str, str] = {}
            for n in ast.walk(fi.node):
                if isinstance(n, ast.AnnAssign) and isinstance(
                        n.target, ast.Name):
                    ann = ast.unparse(n.annotation)
                    if "set[" in ann:
                        sets[n.target.id] = ann
                if isinstance(n, ast.Assign) and isinstance(
                        n.targets[0], ast.Name) and isinstance(
                        n.value, (ast.Set, ast.SetComp)):
                    sets.setdefault(n.targets[0].id, "set")
            for n in ast.walk(fi.node):
                if isinstance(n, (ast.For, ast.comprehension)) and \
                        isinstance(n.iter, ast.Name) and n.iter.id in sets:
                    ann = sets[n.iter.id]
                    ok = "set[int]" in ann
                    ctx.ob("D12.1", fi, n.iter, ok,
                           f"iteration over `{n.iter.id}: {ann}` - "
                           + ("int sets iterate in a process-independent "
                              "order" if ok else "hash order of str / "
                              "object sets varies between processes"),
                           construct=f"set iteration {n.iter.id}")
    ctx.count("calls_scanned", n_calls)
    ctx.count("seeded_generators", n_rng)
    ctx.ob("D12.1", None, None, True,
           f"{n_calls} call sites scanned with resolved imports; "
           f"{n_rng} generator construction(s), all seeded",
           function="<package>", construct="ban list scan",
           nontrivial=False)


# ------------------------------------------------------------------ D12.2
def _exec_chains(mod: Module) -> list[tuple[FuncInfo | None, ast.Call,
                                            set[str]]]:
    """(function, the Execution() call, methods applied in its chain)."""
    out = []
    parents: dict[int, ast.AST] = {}
    for n in ast.walk(mod.tree):
        for c in ast.iter_child_nodes(n):
            parents[id(c)] = n
    for n in ast.walk(mod.tree):
        if isinstance(n, ast.Call) and isinstance(n.func, ast.Name) and \
                n.func.id in ("Execution", "MOExecution"):
            meths: set[str] = set()
            cur: ast.AST = n
            while True:
                p = parents.get(id(cur))
                if isinstance(p, ast.Attribute) and p.value is cur:
                    q = parents.get(id(p))
                    if isinstance(q, ast.Call) and q.func is p:
                        meths.add(p.attr)
                        cur = q
                        continue
                break
            # enclosing function
            fn = None
            p = parents.get(id(n))
            while p is not None:
                if isinstance(p, ast.FunctionDef):
                    fn = p
                    break
                p = parents.get(id(p))
            fi = None
            if fn is not None:
                fi = next((f for f in mod.funcs.values() if f.node is fn),
                          None)
            # assigned to a variable? collect later method calls on it
            top = parents.get(id(cur))
            var = None
            if isinstance(top, (ast.Assign, ast.AnnAssign)):
                tg = top.targets[0] if isinstance(top, ast.Assign) \
                    else top.target
                if isinstance(tg, ast.Name):
                    var = tg.id
                elif isinstance(tg, ast.Tuple):
                    pass
            if isinstance(top, ast.Tuple):
                # returned as part of a tuple `(space, Execution()...)`
                pass
            if var is not None and fn is not None:
                for c in ast.walk(fn):
                    if isinstance(c, ast.Call) and isinstance(
                            c.func, ast.Attribute) and isinstance(
                            c.func.value, ast.Name) and \
                            c.func.value.id == var:
                        meths.add(c.func.attr)
            out.append((fi, n, meths))
    return out


def _budgets(ctx: Ctx) -> None:
    n = 0
    for mod in _modules(ctx):
        chains = _exec_chains(mod)
        for fi, call, meths in chains:
            # nested executions (objective-internal) are judged in D12.2b
            if mod.name.endswith(("hardness", "surrogate_optimizer")):
                continue
            n += 1
            ok = "set_max_fes" in meths and \
                "set_max_time_millis" not in meths
            ctx.ob("D12.2", fi or mod, call, ok,
                   f"{mod.name}: Execution configured with "
                   f"{sorted(m for m in meths if m.startswith('set_max'))}"
                   + ("" if ok else " - a time budget (or no budget) makes "
                      "the result depend on the machine"),
                   function=fi.qualname if fi else "<module>",
                   construct="FE budget")
    ctx.floor("execution_sites", n, 8)
    # a module that announces an outer budget MAX_FES next to the budget
    # INNER_MAX_FES of the runs nested in its objective gives the outer
    # execution the outer budget (and the objective the inner one)
    for mod in _modules(ctx):
        consts = {t.id for st in mod.tree.body if isinstance(
            st, (ast.Assign, ast.AnnAssign)) for t in (
            st.targets if isinstance(st, ast.Assign) else [st.target])
            if isinstance(t, ast.Name)}
        if not {"MAX_FES", "INNER_MAX_FES"} <= consts:
            continue
        bad_b = []
        n_b = 0
        for c in ast.walk(mod.tree):
            if isinstance(c, ast.Call) and isinstance(
                    c.func, ast.Attribute) and c.func.attr == "set_max_fes" \
                    and c.args:
                n_b += 1
                names = {x.id for x in ast.walk(c.args[0])
                         if isinstance(x, ast.Name)}
                if "INNER_MAX_FES" in names or "MAX_FES" not in names:
                    bad_b.append(c)
        ctx.ob("D12.2", mod, bad_b[0] if bad_b else mod.tree, not bad_b,
               f"{mod.name}: the run is limited to the announced MAX_FES "
               f"({n_b} site(s)); INNER_MAX_FES only reaches the nested runs"
               if not bad_b else
               f"{mod.name}: `{ast.unparse(bad_b[0])[-60:]}` - the outer run "
               "does not get the announced budget MAX_FES: it runs beyond "
               "(or short of) the budget the module declares",
               function="<module>", construct="announced budget is used",
               nontrivial=n_b > 0)
    # the bundled surrogate experiment passes FE budgets only
    es = ctx.repo.module("moptipyapps.dynamic_control.experiment_surrogate")
    bad = []
    found = 0
    for nd in ast.walk(es.tree):
        if isinstance(nd, ast.Call) and dotted_name(nd.func) == \
                "SurrogateOptimizer":
            found += 1
            for kw in nd.keywords:
                if kw.arg and kw.arg.startswith("ms_") and not (
                        isinstance(kw.value, ast.Constant)
                        and kw.value.value is None):
                    bad.append(kw)
            # positional: (system_model, space, objective, fes_for_warmup,
            # fes_for_training, ms_for_training, ...)
            if len(nd.args) > 5:
                bad.append(nd.args[5])
    # every budget of the setup reaches the parameter it is named after:
    # `fes_per_model_run=fes_for_training` gives one phase the budget of
    # another one
    import re as _re
    budgetish = _re.compile(r"fes|ms_|max_time|n_runs|steps")
    crossed = []
    n_kw = 0
    for mod in _modules(ctx):
        for nd in ast.walk(mod.tree):
            if not (isinstance(nd, ast.Call) and nd.keywords):
                continue
            names = {k.arg for k in nd.keywords if k.arg}
            for k in nd.keywords:
                if k.arg and budgetish.search(k.arg) and isinstance(
                        k.value, ast.Name):
                    n_kw += 1
                    if k.value.id != k.arg and k.value.id in names and \
                            budgetish.search(k.value.id):
                        crossed.append((mod, nd, k))
    ctx.count("budget_keywords", n_kw)
    ctx.ob("D12.2", crossed[0][0] if crossed else es,
           crossed[0][1] if crossed else es.tree, not crossed,
           f"all {n_kw} budget keyword arguments of the experiment modules "
           "receive the value of their own name (none gets the budget of "
           "another phase of the same call)" if not crossed else
           "; ".join(f"{m_.name}: `{k_.arg}={k_.value.id}` gives the budget "
                     f"`{k_.arg}` the value meant for `{k_.value.id}` of the "
                     "same call" for m_, _n, k_ in crossed[:3]),
           function="<module>", construct="budgets reach their parameters")
    ctx.need(found >= 1, "experiment_surrogate builds a SurrogateOptimizer")
    ctx.ob("D12.2", es, bad[0] if bad else es.tree, not bad,
           "the bundled surrogate experiment passes FE budgets only" if
           not bad else "the bundled surrogate experiment configures a "
           "millisecond budget", function="<module>",
           construct="surrogate budgets")


def _nested_seeds(ctx: Ctx) -> None:
    repo = ctx.repo
    for modn, qual in (
            ("moptipyapps.binpacking2d.instgen.hardness",
             "Hardness.evaluate"),
            ("moptipyapps.dynamic_control.surrogate_optimizer",
             "SurrogateOptimizer.solve"),
            ("moptipyapps.dynamic_control.starting_points",
             "make_interesting_starting_points")):
        fi = repo.func(modn, qual)
        cfg = CFG(fi.node)
        runs = []
        for n in cfg.nodes:
            for c in calls_in(n.ast) if n.kind in ("stmt", "test") else []:
                if isinstance(c.func, ast.Attribute) and \
                        c.func.attr == "execute":
                    runs.append((n, c))
        ctx.need(runs, f"{qual}: a nested execute()")
        for node, c in runs:
            base = c.func.value
            ok = False
            if isinstance(base, ast.Name):
                var = base.id

                def seeds(x: Any, v: str = var) -> bool:
                    return x.kind in ("stmt", "test") and any(
                        isinstance(cc.func, ast.Attribute)
                        and cc.func.attr == "set_rand_seed" and isinstance(
                            cc.func.value, ast.Name)
                        and cc.func.value.id == v
                        for cc in calls_in(x.ast))
                # on every path from the enclosing loop head (or the entry)
                heads = [h for h in cfg.nodes if h.kind in ("join", "for")
                         and node in cfg.reachable(h)
                         and h in cfg.reachable(node)]
                starts = heads or [cfg.entry]
                ok = all(not cfg.can_reach_avoiding(h, node, seeds)
                         for h in starts)
            else:
                # a chain ending in .execute(): the seed must be in it
                src = ast.unparse(base)
                ok = ".set_rand_seed(" in src
            ctx.ob("D12.2", fi, c, ok,
                   f"{qual}: `{ast.unparse(c)[:40]}` is seeded on every "
                   "path of the same loop round" if ok else
                   f"{qual}: a nested run can start without a fresh seed",
                   construct=f"nested run seeded {ast.unparse(base)[:30]}")


# ------------------------------------------------------------------ D12.3
def _memo(ctx: Ctx, rid: str = "D12.3") -> None:
    """The seed memo of Hardness.evaluate, path by path (locals inlined):
    a path either recomputes the seeds from the instance name (and the fixed
    number of runs) and stores seeds and name together, or it re-uses the
    stored seeds - the latter only behind the test `stored name == name`."""
    from sa.pathinline import paths
    repo = ctx.repo
    fi = repo.func("moptipyapps.binpacking2d.instgen.hardness",
                   "Hardness.evaluate")
    body = func_body(fi)
    loop = next((s for s in body if isinstance(s, ast.For)), None)
    pre = body[:body.index(loop)] if loop is not None else body
    key_ok = seed_ok = store_ok = True
    n_store = n_reuse = 0
    node: ast.AST = fi.node

    def src(e: ast.AST | None) -> str:
        return ast.unparse(e).replace(" ", "") if e is not None else "?"

    def attr_store(e: Any, name: str) -> bool:
        return e.kind == "store" and isinstance(
            e.value, ast.Attribute) and e.value.attr.endswith(name) and \
            src(e.value.value) == "self"
    # the variable the runs are seeded from: iterated by the inner loop
    seeds_var = None
    if loop is not None:
        for lp in ast.walk(loop):
            if isinstance(lp, ast.For) and isinstance(
                    lp.iter, ast.Name) and any(
                    isinstance(c, ast.Call) and isinstance(
                        c.func, ast.Attribute)
                    and c.func.attr == "set_rand_seed"
                    for c in ast.walk(lp)):
                seeds_var = lp.iter.id
    # how the instance is obtained does not matter here: name it
    inst_names = {"instance"}
    for q in [q_ for q_ in paths(pre) if q_.ended is None]:
        sseeds = [e for e in q.events if attr_store(e, "__last_seeds")]
        sinst = [e for e in q.events if attr_store(e, "__last_inst")]
        used = q.env.get(seeds_var) if seeds_var else None
        if sseeds or sinst:
            n_store += 1
            if len(sseeds) != 1 or len(sinst) != 1:
                store_ok = False
                continue
            v = sseeds[0].extra
            names = {src(a_) for a_ in ast.walk(v)
                     if isinstance(a_, ast.Attribute)}
            calls_ = [dotted_name(c.func) for c in ast.walk(v)
                      if isinstance(c, ast.Call)]
            key_src = src(sinst[0].extra)
            if not key_src.endswith(".name"):
                store_ok = False
            allowed = {key_src, "self.n_runs"}
            if not (names <= allowed and "rand_seeds_from_str" in calls_
                    and key_src in names):
                seed_ok = False
            if used is None or src(used) != src(v):
                seed_ok = False
            inst_names.add(key_src)
        else:
            n_reuse += 1
            # re-use only behind `stored name == name`
            ok_g = False
            for tst, truth in q.guards:
                t, tr = tst, truth
                while isinstance(t, ast.UnaryOp) and isinstance(
                        t.op, ast.Not):
                    t, tr = t.operand, not tr
                for c in ast.walk(t):
                    if isinstance(c, ast.Compare) and len(c.ops) == 1 and \
                            isinstance(c.ops[0], (ast.Eq, ast.NotEq)):
                        sides = {src(c.left), src(c.comparators[0])}
                        if any(x.endswith("__last_inst") and x.startswith(
                                "self.") for x in sides) and any(
                                x.endswith(".name") for x in sides):
                            # positive conjunct of a taken test / negated
                            # disjunct of a failed one
                            eq = isinstance(c.ops[0], ast.Eq)
                            if _polarity(t, c) is not None:
                                pol = _polarity(t, c)
                                ok_g = ok_g or ((tr if pol else not tr)
                                                == eq and _forced(t, c, tr))
            if not ok_g:
                key_ok = False
            if used is None or not src(used).endswith("__last_seeds"):
                seed_ok = False
    # ---- nothing else survives an evaluation unless the instance NAME
    # determines it (the memo is re-used whenever only the name matches)
    from sa.srcmodel import inline_locals
    xpar = fi.params[1] if len(fi.params) > 1 else "x"

    class _DropName(ast.NodeTransformer):
        def visit_Attribute(self, n: ast.Attribute) -> ast.AST:
            if n.attr == "name":
                return ast.Constant(value="<name>")
            return self.generic_visit(n)
    import copy as _copy
    kept_bad = []
    for st_ in ast.walk(fi.node):
        if isinstance(st_, (ast.Assign, ast.AnnAssign, ast.AugAssign)) and \
                getattr(st_, "value", None) is not None:
            tgs = st_.targets if isinstance(st_, ast.Assign) else [
                st_.target]
            flat = [x_ for t_ in tgs for x_ in (
                t_.elts if isinstance(t_, (ast.Tuple, ast.List)) else [t_])]
            for t_ in flat:
                if isinstance(t_, ast.Attribute) and src(t_.value) == "self":
                    v_ = _DropName().visit(_copy.deepcopy(
                        inline_locals(fi.node, st_.value)))
                    if any(isinstance(n_, ast.Name) and n_.id == xpar
                           for n_ in ast.walk(v_)):
                        kept_bad.append((st_, t_.attr))
    ctx.ob(rid, fi, kept_bad[0][0] if kept_bad else fi.node,
           not kept_bad,
           "what Hardness.evaluate keeps between two evaluations depends on "
           "the evaluated instance only through its name" if not kept_bad
           else "; ".join(
               f"`self.{a_}` keeps a value computed from the evaluated "
               "instance itself, but is re-used for every later instance "
               "of the same name: the hardness of a candidate depends on "
               "what was evaluated before it" for _, a_ in kept_bad[:2]),
           construct="state kept between evaluations")
    ok = key_ok and seed_ok and store_ok and n_store >= 1 and n_reuse >= 1
    ctx.ob(rid, fi, node, ok,
           "the seed memo is keyed by the instance name, the seeds are "
           "derived from the instance name (and the fixed number of runs) "
           "only, and key and value are stored together" if ok else
           "seed memo inconsistent (" + "; ".join(
               ([] if key_ok else ["stored seeds are re-used on a path "
                                   "without the test `stored name == name`"])
               + ([] if seed_ok else [
                   "on some path the seeds that the runs use are not the "
                   "ones derived from (or stored for) this instance name"])
               + ([] if store_ok else ["seeds and name are not stored "
                                       "together on every recomputing path"])
               + ([] if n_store and n_reuse else ["memo not recognised"]))
           + f"; paths: {n_store} recompute, {n_reuse} re-use): repeated "
           "evaluations of the same instance may use different seeds",
           construct="hardness seed memo")


def _polarity(t: ast.AST, c: ast.AST) -> bool | None:
    """True if `c` occurs positively in `t` (under an even number of nots)."""
    def go(n: ast.AST, pos: bool) -> bool | None:
        if n is c:
            return pos
        if isinstance(n, ast.UnaryOp) and isinstance(n.op, ast.Not):
            return go(n.operand, not pos)
        if isinstance(n, ast.BoolOp):
            for v in n.values:
                r = go(v, pos)
                if r is not None:
                    return r
        return None
    return go(t, True)


def _forced(t: ast.AST, c: ast.AST, outcome: bool) -> bool:
    """Does the outcome of the test `t` force the truth value of its
    sub-condition `c`?  (a conjunct of a test that came out True, a
    disjunct of one that came out False; through `not`s.)"""
    def go(n: ast.AST, out: bool) -> bool:
        if n is c:
            return True
        if isinstance(n, ast.UnaryOp) and isinstance(n.op, ast.Not):
            return go(n.operand, not out)
        if isinstance(n, ast.BoolOp):
            need = isinstance(n.op, ast.And)     # and: forced when True
            if out == need:
                return any(go(v, out) for v in n.values)
        return False
    return go(t, outcome)


# ------------------------------------------------------------------ D12.4
def _log_key(ctx: Ctx) -> None:
    repo = ctx.repo
    pk = repo.module("moptipyapps.binpacking2d.packing")
    parser = pk.classes.get("_PackingParser")
    ctx.need(parser is not None, "packing._PackingParser")
    lines = parser.methods.get("lines")
    ctx.need(lines is not None, "_PackingParser.lines")
    keys = []
    for n in ast.walk(lines.node):
        if isinstance(n, (ast.Assign, ast.AnnAssign)) and isinstance(
                n.value, (ast.Constant, ast.JoinedStr, ast.BinOp)):
            v = repo.const(pk, n.value)
            if isinstance(v, str) and "." in v:
                keys.append((n, v))
    if not keys:
        # the key held in a module constant and used directly
        for n in ast.walk(lines.node):
            if isinstance(n, ast.Call) and isinstance(
                    n.func, ast.Attribute) and n.func.attr == "startswith" \
                    and len(n.args) == 1:
                v = repo.const(pk, n.args[0])
                if isinstance(v, str) and "." in v:
                    keys.append((n, v))
    ctx.need(keys, "_PackingParser.lines: the key it searches for")
    logm = repo.external_module("moptipy.api.logging")
    lgm = repo.external_module("moptipy.utils.logger")
    ctx.need(logm is not None and lgm is not None,
             "moptipy sources for constant folding")
    scope_y = repo.const(logm, ast.Name(id="SCOPE_SOLUTION_SPACE"))
    key_name = repo.const(logm, ast.Name(id="KEY_NAME"))
    kvsep = repo.const(lgm, ast.Name(id="KEY_VALUE_SEPARATOR"))
    shared = repo.module("moptipyapps.shared")
    scope_inst = repo.const(shared, ast.Name(id="SCOPE_INSTANCE"))
    ctx.need(all(isinstance(x, str) for x in (scope_y, key_name, kvsep,
                                              scope_inst)),
             "moptipy log constants")
    # the scope the space writes the instance under
    ps = repo.func("moptipyapps.binpacking2d.packing_space",
                   "PackingSpace.log_parameters_to")
    scope_used = None
    for n in ast.walk(ps.node):
        if isinstance(n, ast.Call) and isinstance(
                n.func, ast.Attribute) and n.func.attr == "scope" and \
                n.args:
            scope_used = repo.const(ps.module, n.args[0])
    want = f"{scope_y}.{scope_used}.{key_name}{kvsep}"
    node, got = keys[0]
    ctx.ob("D12.4", lines, node, got == want and scope_used == scope_inst,
           f"log parser searches {got!r}; the space logs the instance name "
           f"as {want!r}", construct="instance-name log key")
    # section titles
    st = parser.methods.get("start_section")
    names = {n.id for n in ast.walk(st.node) if isinstance(n, ast.Name)}
    ok = {"SECTION_SETUP", "SECTION_RESULT_Y"} <= names and all(
        isinstance(repo.const(pk, ast.Name(id=x)), str)
        for x in ("SECTION_SETUP", "SECTION_RESULT_Y"))
    ctx.ob("D12.4", st, st.node, ok,
           "the parser selects sections by moptipy's own SECTION_SETUP / "
           "SECTION_RESULT_Y constants", construct="section titles",
           nontrivial=False)
    # the parsed text goes through PackingSpace.from_str (validated, C04)
    ef = parser.methods.get("end_file")
    ok = ef is not None and ".from_str(" in ast.unparse(ef.node)
    ctx.ob("D12.4", ef or lines, (ef or lines).node, ok,
           "the logged packing text is parsed by PackingSpace.from_str "
           "(which validates, C04 D4.2)", construct="parse via from_str",
           nontrivial=False)


# ------------------------------------------------------------------ D12.6
def _record_assembly(ctx: Ctx) -> None:
    """A result record holds the values / bounds of the objectives whose
    names key them, computed for the parsed packing and its instance."""
    repo = ctx.repo
    mod = repo.module("moptipyapps.binpacking2d.packing_result")
    fi = mod.funcs.get("from_packing_and_end_result")
    ctx.need(fi is not None, "from_packing_and_end_result")
    problems: list[str] = []

    def src(n: ast.AST) -> str:
        return ast.unparse(n).replace(" ", "")
    p = fi.params
    pack, objs, bbs = p[1], p[2], p[3]
    inst = None
    for s in func_body(fi):
        if isinstance(s, (ast.Assign, ast.AnnAssign)) and s.value is not \
                None and src(s.value) == f"{pack}.instance":
            tg = s.targets[0] if isinstance(s, ast.Assign) else s.target
            inst = tg.id if isinstance(tg, ast.Name) else None
    if inst is None:
        problems.append("the instance is not taken from the packing")
    else:
        # bounds: LOWER <- lower_bound(), UPPER <- upper_bound()
        pairs = {}
        for s in ast.walk(fi.node):
            if isinstance(s, ast.Assign) and isinstance(
                    s.targets[0], ast.Subscript) and isinstance(
                    s.targets[0].slice, ast.Call) and src(
                    s.targets[0].slice.func) == "csv_scope":
                k = s.targets[0].slice
                which = repo.const(mod, k.args[1]) if len(
                    k.args) == 2 else None
                val_ = s.value
                if isinstance(val_, ast.Name):
                    # a loop-local temporary: `lo = f.lower_bound()`
                    dfs_ = [x for x in ast.walk(fi.node) if isinstance(
                        x, (ast.Assign, ast.AnnAssign)) and getattr(
                        x, "value", None) is not None and src(
                        x.targets[0] if isinstance(x, ast.Assign)
                        else x.target) == val_.id]
                    if len(dfs_) == 1:
                        val_ = dfs_[0].value
                pairs[which] = (src(k.args[0]), src(val_))
        for which, meth in (("lowerBound", "lower_bound"),
                            ("upperBound", "upper_bound")):
            got = pairs.get(which)
            if got is None or not got[0].startswith("str(") or got[1] != \
                    f"{got[0][4:-1]}.{meth}()":
                problems.append(
                    f"the {which} column of an objective is not filled "
                    f"from its own {meth}() (found {got})")
        # the objectives are instantiated for the packing's instance
        gens = [g for g in ast.walk(fi.node) if isinstance(
            g, (ast.GeneratorExp, ast.ListComp)) and src(
            g.generators[0].iter) == objs]
        if not any(src(g.elt) == f"{src(g.generators[0].target)}({inst})"
                   for g in gens):
            problems.append("the objectives are not created for the "
                            "packing's instance")
        # bin bounds: key -> function(instance)
        dcs = [d for d in ast.walk(fi.node) if isinstance(d, ast.DictComp)]
        bb_loop = None
        for lp_ in ast.walk(fi.node):
            if isinstance(lp_, ast.For) and isinstance(
                    lp_.target, ast.Name) and bbs in src(lp_.iter) and len(
                    lp_.body) == 1 and isinstance(
                    lp_.body[0], ast.Assign) and isinstance(
                    lp_.body[0].targets[0], ast.Subscript) and src(
                    lp_.body[0].targets[0].slice) == lp_.target.id and src(
                    lp_.body[0].value) == \
                    f"{bbs}[{lp_.target.id}]({inst})":
                bb_loop = src(lp_.body[0].targets[0].value)
        if not any(src(d.value) == f"{bbs}[{src(d.key)}]({inst})"
                   for d in dcs) and bb_loop is None:
            problems.append("the bin bounds are not `bin_bounds[key]"
                            "(instance)` under their key")
        # values: objective_values[str(objf)] = objf.evaluate(packing)
        lp = next((s for s in func_body(fi) if isinstance(s, ast.For)
                   and any(isinstance(x, ast.Call) and src(x.func).endswith(
                       ".evaluate") for x in ast.walk(s))), None)
        okv = False
        ov = None
        if lp is not None and isinstance(lp.target, ast.Name):
            o = lp.target.id
            env = {}
            for s in lp.body:
                if isinstance(s, (ast.Assign, ast.AnnAssign)) and \
                        s.value is not None:
                    tg = s.targets[0] if isinstance(s, ast.Assign) \
                        else s.target
                    if isinstance(tg, ast.Name):
                        env[tg.id] = src(s.value)
                    elif isinstance(tg, ast.Subscript):
                        key = env.get(src(tg.slice), src(tg.slice))
                        val = env.get(src(s.value), src(s.value))
                        if key == f"str({o})" and val == \
                                f"{o}.evaluate({pack})":
                            okv = True
                            ov = src(tg.value)
        if not okv:
            problems.append("an objective's value is not stored as "
                            "values[str(objf)] = objf.evaluate(packing)")
        # the record
        mk = next((c for c in ast.walk(fi.node) if isinstance(c, ast.Call)
                   and src(c.func) == "PackingResult"), None)
        if mk is None:
            problems.append("no PackingResult is created")
        else:
            from sa.srcmodel import inline_locals as _il

            def arg_src(e_: ast.expr) -> str:
                return src(_il(fi.node, e_, keep={inst}))
            kw = {k.arg: arg_src(k.value) for k in mk.keywords}
            # positional arguments are bound by the constructor's signature
            pinit = repo.cls(mod.name, "PackingResult").methods.get(
                "__init__")
            for pn, a_ in zip(pinit.params[1:] if pinit is not None else [],
                              mk.args):
                kw.setdefault(pn, arg_src(a_))
            want = {"end_result": p[0], "n_items": f"{inst}.n_items",
                    "n_different_items": f"{inst}.n_different_items",
                    "bin_width": f"{inst}.bin_width",
                    "bin_height": f"{inst}.bin_height",
                    "objectives": ov or "?"}
            for k, v in want.items():
                if kw.get(k) != v:
                    problems.append(f"PackingResult({k}={kw.get(k)}), "
                                    f"expected {v}")
            # row = (bin bounds, objective objects, objective bounds)
            rows = [s for s in ast.walk(fi.node) if isinstance(s, ast.Assign)
                    and src(s.targets[0]) == "row" and isinstance(
                        s.value, ast.Tuple) and len(s.value.elts) == 3]
            if len(rows) == 1:
                e = list(rows[0].value.elts)
                if isinstance(e[0], ast.Name):
                    # the bin-bound dictionary hoisted into a local
                    defs = [s_ for s_ in ast.walk(fi.node) if isinstance(
                        s_, (ast.Assign, ast.AnnAssign)) and s_.value is not
                        None and src(s_.targets[0] if isinstance(
                            s_, ast.Assign) else s_.target) == e[0].id]
                    if len(defs) == 1:
                        e[0] = defs[0].value
                e0_ok = isinstance(e[0], ast.DictComp) or (
                    bb_loop is not None and src(rows[0].value.elts[0])
                    == bb_loop)
                # the bounds mapping: the dict the lower/upper columns are
                # stored into (any name), possibly wrapped
                bdict = {src(s_.targets[0].value) for s_ in ast.walk(fi.node)
                         if isinstance(s_, ast.Assign) and isinstance(
                             s_.targets[0], ast.Subscript) and isinstance(
                             s_.targets[0].slice, ast.Call) and src(
                             s_.targets[0].slice.func) == "csv_scope"}
                ok_row = e0_ok and any(b_ in src(e[2]) for b_ in bdict) \
                    and kw.get("bin_bounds") == "row[0]" and \
                    kw.get("objective_bounds") == "row[2]"
                if not ok_row:
                    problems.append("the cached row (bin bounds, objectives, "
                                    "objective bounds) is not unpacked into "
                                    "the matching record fields")
    ctx.ob("D12.6", fi, fi.node, not problems,
           "a packing result is assembled from: objectives created for the "
           "packing's instance, their own lower_bound()/upper_bound() under "
           "<name>.lowerBound/.upperBound, evaluate(packing) under <name>, "
           "bin_bounds[key](instance) under key, and the instance's sizes"
           if not problems else "; ".join(problems),
           construct="result record assembly")



# ------------------------------------------------------------------ D12.7
def _given_instance(ctx: Ctx) -> None:
    """The packing parsed from a log belongs to the instance the caller
    hands over (only without one is the name of the SETUP section looked up
    in the resources): `from_log` passes its `instance` to the parser, the
    parser stores it in the field from which `end_file` builds the
    `PackingSpace`."""
    from sa.srcmodel import bound_args, inline_locals
    repo = ctx.repo
    PK = "moptipyapps.binpacking2d.packing"
    fl = repo.func(PK, "Packing.from_log")
    pc = repo.module(PK).classes.get("_PackingParser")
    ctx.need(pc is not None, "_PackingParser")
    init = ctx.need(pc.methods.get("__init__"), "_PackingParser.__init__")
    ef = ctx.need(pc.methods.get("end_file"), "_PackingParser.end_file")
    ip = next((p_ for p_ in fl.params if "inst" in p_), None)
    pp = next((p_ for p_ in init.params[1:] if "inst" in p_), None)
    ctx.need(ip is not None and pp is not None, "instance parameters")
    # (a) from_log -> parser
    mk = [c for c in ast.walk(fl.node) if isinstance(c, ast.Call)
          and ast.unparse(c.func) == "_PackingParser"]
    ok_a = False
    if len(mk) == 1:
        a = bound_args(mk[0], list(init.params[1:])).get(pp)
        ok_a = a is not None and ast.unparse(
            inline_locals(fl.node, a)) == ip
    ctx.ob("D12.7", fl, mk[0] if mk else fl.node, ok_a,
           f"from_log hands its `{ip}` to the parser" if ok_a else
           (f"from_log does not hand its `{ip}` to _PackingParser: the "
            "given instance is ignored" if len(mk) == 1 else
            "the construction of the parser in from_log is not recognised"),
           construct="from_log passes the instance")
    # (b) the field end_file builds the space from
    fld = None
    for c in ast.walk(ef.node):
        if isinstance(c, ast.Call) and ast.unparse(c.func).endswith(
                "PackingSpace") and len(c.args) == 1:
            e = inline_locals(ef.node, c.args[0])
            if isinstance(e, ast.Attribute) and isinstance(
                    e.value, ast.Name) and e.value.id == "self":
                fld = e.attr
    if fld is None:
        ctx.ob("D12.7", ef, ef.node, False,
               "the field from which end_file builds the PackingSpace is "
               "not recognised", construct="parser keeps the instance")
        return
    stores = [st for st in ast.walk(init.node) if isinstance(
        st, (ast.Assign, ast.AnnAssign)) and getattr(st, "value", None)
        is not None and any(isinstance(t, ast.Attribute) and t.attr == fld
                            for t in (st.targets if isinstance(
                                st, ast.Assign) else [st.target]))]
    uses = bool(stores) and all(any(isinstance(x, ast.Name) and x.id == pp
                                    for x in ast.walk(inline_locals(
                                        init.node, st.value)))
                                for st in stores)
    const = bool(stores) and all(isinstance(st.value, ast.Constant)
                                 for st in stores)
    ctx.ob("D12.7", init, stores[0] if stores else init.node, uses,
           f"the parser stores the given `{pp}` in self.{fld}, from which "
           "end_file builds the space" if uses else
           (f"the parser initialises self.{fld} with "
            f"{ast.unparse(stores[0].value)} and drops the `{pp}` it is "
            "given: the packing is built for whatever instance of that "
            "name the resources hold" if const else
            f"how self.{fld} is initialised from `{pp}` is not recognised"),
           construct="parser keeps the instance")



# ------------------------------------------------------------------ D12.8
def _setup_parameters(ctx: Ctx) -> None:
    """A run "of the setup (algorithm, encoding, objective, instance)" is
    the run of that setup only if the function that builds the Execution
    puts the given pieces in: in the experiment modules every parameter of
    a function that constructs or configures an `Execution` is read in its
    body (a parameter that is never read is silently replaced by whatever
    the body hard-codes)."""
    repo = ctx.repo
    n = 0
    for fi in repo.all_funcs():
        mn = fi.module.name
        if not ("experiment" in mn.rsplit(".", 1)[-1]
                or mn.startswith("examples")):
            continue
        if mn.startswith("moptipyapps.tests"):
            continue
        src_calls = {ast.unparse(c.func).split(".")[-1]
                     for c in ast.walk(fi.node) if isinstance(c, ast.Call)}
        builds = "Execution" in src_calls or any(
            k.startswith("set_") for k in src_calls)
        if not builds:
            continue
        a = fi.node.args
        params = [x.arg for x in a.posonlyargs + a.args + a.kwonlyargs]
        if fi.cls is not None and params:
            params = params[1:]
        loads = {x.id for x in ast.walk(fi.node) if isinstance(
            x, ast.Name) and isinstance(x.ctx, (ast.Load, ast.Del))}
        n += 1
        for p_ in params:
            if p_.startswith("_"):
                continue
            ctx.ob("D12.8", fi, fi.node, p_ in loads,
                   f"{fi.qualname} uses its parameter `{p_}`" if p_ in loads
                   else f"{fi.qualname} never reads its parameter `{p_}`: "
                   "the setup it builds does not depend on what the caller "
                   "asked for", construct=f"{fi.qualname} parameter {p_}",
                   nontrivial=False)
    ctx.floor("setup_builders", n, 5)



# ------------------------------------------------------------------ D12.9
_FILLERS = ("get_copy_of", "copy", "decode", "fill", "sample", "from_",
            "op0", "op1", "op2", "map_games", "shuffle")
_REPORTERS = ("describe", "plot", "print", "log", "evaluate", "to_str",
              "validate", "write", "save", "key_value")


def _filled_before_use(ctx: Ctx) -> None:
    """"Logs true results": what the completion hooks and examples describe
    or evaluate is the run's best solution.  A local bound to `X.create()`
    (an empty record) must first be handed to something that fills it
    (`get_copy_of_best_x(v)`, `decode(x, v)`, `np.copyto(v, ..)`, a store
    into it); reporting it first reports the empty record."""
    n = 0
    for fi in ctx.repo.all_funcs():
        mn = fi.module.name
        if not ("experiment" in mn.rsplit(".", 1)[-1]
                or mn.startswith("examples")):
            continue
        created: dict[str, int] = {}
        for st in ast.walk(fi.node):
            if isinstance(st, (ast.Assign, ast.AnnAssign)) and getattr(
                    st, "value", None) is not None:
                v = st.value
                while isinstance(v, ast.Call) and isinstance(
                        v.func, ast.Name) and v.func.id == "cast" and len(
                        v.args) == 2:
                    v = v.args[1]
                tg = st.targets[0] if isinstance(st, ast.Assign) \
                    else st.target
                if isinstance(tg, ast.Name) and isinstance(
                        v, ast.Call) and isinstance(
                        v.func, ast.Attribute) and v.func.attr == "create" \
                        and not v.args:
                    created[tg.id] = st.lineno
        for name, line in created.items():
            uses = sorted(
                (u for u in ast.walk(fi.node) if isinstance(u, ast.Call)
                 and u.lineno > line and any(
                     isinstance(a, ast.Name) and a.id == name
                     for a in list(u.args) + [k.value for k in u.keywords])),
                key=lambda u: (u.lineno, u.col_offset))
            stores = [u for u in ast.walk(fi.node) if isinstance(
                u, ast.Subscript) and isinstance(u.ctx, ast.Store)
                and isinstance(u.value, ast.Name) and u.value.id == name]
            if not uses:
                continue
            n += 1
            first = uses[0]
            fname = ast.unparse(first.func).split(".")[-1]
            if stores and min(x.lineno for x in stores) <= first.lineno:
                continue
            filler = any(fname.startswith(p_) or p_ in fname
                         for p_ in _FILLERS)
            reporter = any(fname.startswith(p_) for p_ in _REPORTERS)
            ctx.ob("D12.9", fi, first, filler or not reporter,
                   f"{fi.qualname}: `{name}` is filled by {fname}(..) "
                   "before it is used" if filler else (
                       f"{fi.qualname}: `{name}` = create() is first handed "
                       f"to {fname}(..)" + (
                           ": the empty record is reported, not the result "
                           "of the run" if reporter else "")),
                   construct=f"record {name} in {fi.qualname}",
                   nontrivial=False)
    ctx.count("created_records", n)
