"""C03 - the bin-count lower bound (decided part: the geometric bound)."""
from __future__ import annotations

import ast
from typing import Any

from sa.kern import make_evaluator, py_calls
from sa.report import Ctx
from sa.srcmodel import FuncInfo, func_body
from sa.symterm import Env, Evaluator, Poly, Unsupported, _eq, show

INST = "moptipyapps.binpacking2d.instance"


def is_exact_ceil(t: Poly, a: Poly, b: Poly) -> bool:
    """Is `t` one of the accepted exact integer ceilings of a / b?"""
    q = Poly.atom(("app", "floordiv", (a, b)))
    one, zero = Poly.const(1), Poly.const(0)
    r = Poly.atom(("app", "mod", (a, b)))
    at = t.as_atom()
    if at is not None and at[0] == "ite":
        c, x, y = at[1], at[2], at[3]
        conds_up = [("lt", q * b, a), ("not", _eq(q * b, a)),
                    ("not", _eq(r, zero)), ("lt", zero, r)]
        conds_eq = [_eq(q * b, a), ("le", a, q * b), _eq(r, zero),
                    ("le", r, zero)]
        if x == q + one and y == q and c in conds_up:
            return True
        if x == q and y == q + one and c in conds_eq:
            return True
        return False
    if t == -Poly.atom(("app", "floordiv", (-a, b))):
        return True
    if t == Poly.atom(("app", "floordiv", (a + b - one, b))):
        return True
    if t == Poly.atom(("app", "ceil_div", (a, b))):
        return True
    return False


def _hook(ev: Evaluator, env: Env, n: ast.Call) -> Any:
    r = py_calls(ev, env, n)
    if r is not NotImplemented:
        return r
    if isinstance(n.func, ast.Name) and n.func.id == "ceil_div" and \
            len(n.args) == 2:
        return Poly.atom(("app", "ceil_div", (ev.num(env, n.args[0]),
                                              ev.num(env, n.args[1]))))
    return NotImplemented


def run(ctx: Ctx) -> None:
    ctx.explanation = (
        "D3.1 the geometric component of the bin-count lower bound is an "
        "EXACT integer ceiling of (total item area) / (bin area) - accepted "
        "idioms are enumerated (q = a // b corrected by +1 under q*b < a / "
        "q*b != a / a % b != 0, -(-a // b), (a+b-1)//b, ceil_div) - the "
        "total area sums width*height*repetitions over ALL rows "
        "unconditionally, the stored bound is the maximum of the geometric "
        "and the Dell'Amico-Martello-Vigo component, and BinCount."
        "lower_bound / InstanceSpace.min_bins / the result-table bounds "
        "read that attribute. D3.2 the DAMV component is computed as "
        "defined in the cited paper (equations 2-7, theorem 3): the "
        "classification cascade is equivalent to the interval definitions "
        "of S1..S4 on every outcome of its comparisons (under 0 <= q <= "
        "H/2 <= W/2), S23 is {S2 u S3 : l > H - q}, the greedy pairing "
        "(S2 by non-increasing residual, first fitting S3 square with l <= "
        "W - l_a removed, early give-up only when nothing was taken) "
        "yields S3 - ^S3, and the normalised closed formula of L(q) - "
        "sums made linear, every exact-ceiling idiom rewritten to "
        "floordiv(a+b-1, b) - equals the transcription of equations 6-7 "
        "in every case; the driver orients the bin (W >= H), ranges q over "
        "0..floor(H/2), passes (W, H, q, CUTSQ(matrix)) in this order and "
        "returns max(1, .); CUTSQ cuts floor(w/h) squares of side h and "
        "continues with (h, w - k h), replicates by the multiplicity and "
        "sorts non-increasingly. Validity of the bound is then the "
        "theorem of the paper - NOT re-proved here; agreement with the "
        "definition is sufficient for it, a different but also valid "
        "bound would be reported as a deviation.")
    ctx.rule("D3.1", "geometric bound is an exact ceiling of the full item "
             "area; the stored bound is max(damv, geo); consumers read it")
    repo = ctx.repo
    new = repo.func(INST, "Instance.__new__")
    ev = make_evaluator(repo, new, extra_call=_hook)
    ev.int_transparent = True
    # ---- the area accumulator
    loop = None
    acc = None
    for s in func_body(new):
        if isinstance(s, ast.For):
            for b in ast.walk(s):
                if isinstance(b, ast.AugAssign) and isinstance(
                        b.op, ast.Add) and isinstance(
                        b.target, ast.Name) and isinstance(
                        b.value, ast.BinOp) and b.target.id == "item_area":
                    loop, acc = s, b
    ctx.need(acc is not None, "Instance.__new__: item_area accumulation")
    names = sorted({n.id for n in ast.walk(acc.value)
                    if isinstance(n, ast.Name)})
    unpack = None
    for b in loop.body:
        if isinstance(b, ast.Assign) and isinstance(
                b.targets[0], ast.Tuple):
            unpack = [t.id for t in b.targets[0].elts
                      if isinstance(t, ast.Name)]
    prod_ok = False
    try:
        env = Env()
        for nm in names:
            env.vars[nm] = Poly.var(nm)
        v = ev.num(env, acc.value)
        want = Poly.const(1)
        for nm in names:
            want = want * Poly.var(nm)
        prod_ok = v == want and len(names) == 3
    except Unsupported:
        prod_ok = False
    early = []
    for b in loop.body:
        if b is acc or acc in list(ast.walk(b)):
            break
        early += [n for n in ast.walk(b)
                  if isinstance(n, (ast.Continue, ast.Break))]
    it = ast.unparse(loop.iter).replace(" ", "")
    top_level = any(b is acc for b in loop.body)
    ok_area = prod_ok and unpack is not None and sorted(unpack) == names \
        and not early and it == "range(n_different_items)" and top_level
    ctx.ob("D3.1", new, acc, ok_area,
           f"item_area += {' * '.join(names)} for every row of the matrix "
           "(width, height and multiplicity of the same row), "
           "unconditionally" if ok_area else
           "the total item area is not the sum of width*height*repetitions "
           f"over all rows (names {names}, row fields {unpack}, loop {it}, "
           f"early exits {len(early)})", construct="total item area")
    # ---- the ceiling
    env = Env()
    env.vars["item_area"] = Poly.var("item_area")
    for nm in ("bin_width", "bin_height"):
        env.vars[nm] = Poly.var(nm)
    started = False
    geo = None
    for s in func_body(new):
        if isinstance(s, (ast.Assign, ast.AnnAssign)) and isinstance(
                s.targets[0] if isinstance(s, ast.Assign) else s.target,
                ast.Name) and (s.targets[0] if isinstance(s, ast.Assign)
                               else s.target).id == "bin_area":
            started = True
        if not started:
            continue
        if isinstance(s, (ast.Assign, ast.AnnAssign, ast.AugAssign,
                          ast.If)):
            try:
                env = ev.stmt(env, s)
            except Unsupported:
                pass
        if "lower_bound_damv" in ast.unparse(s):
            break
    geo = env.vars.get("lower_bound_geo")
    A = Poly.var("item_area")
    B = Poly.var("bin_width") * Poly.var("bin_height")
    ok_c = isinstance(geo, Poly) and is_exact_ceil(geo, A, B)
    ctx.ob("D3.1", new, new.node, ok_c,
           f"lower_bound_geo = {show(geo)[:160] if isinstance(geo, Poly) else geo}"
           + (": an exact integer ceiling of item_area / (W*H)" if ok_c else
              ": NOT an exact ceiling of item_area / (bin_width * "
              "bin_height) in any accepted idiom"),
           construct="geometric bound is an exact ceiling")
    floats = [n for n in ast.walk(new.node) if isinstance(n, ast.BinOp)
              and isinstance(n.op, ast.Div)]
    ctx.ob("D3.1", new, floats[0] if floats else new.node, not floats,
           "no float division in the constructor's bound computation",
           construct="integer arithmetic", nontrivial=False)
    # ---- combined bound
    okm = False
    node: ast.AST = new.node
    for n in ast.walk(new.node):
        if isinstance(n, ast.Assign) and isinstance(
                n.targets[0], ast.Attribute) and \
                n.targets[0].attr == "lower_bound_bins":
            node = n
            v = n.value
            okm = isinstance(v, ast.Call) and ast.unparse(
                v.func) == "max" and {ast.unparse(a) for a in v.args} == {
                "lower_bound_damv", "lower_bound_geo"}
    ctx.ob("D3.1", new, node, okm,
           "lower_bound_bins = max(lower_bound_damv, lower_bound_geo)",
           construct="combined bound")
    # ---- consumers
    bc = repo.func("moptipyapps.binpacking2d.objectives.bin_count",
                   "BinCount.lower_bound")
    ok1 = any(isinstance(r, ast.Return) and ast.unparse(r.value).endswith(
        "instance.lower_bound_bins") for r in ast.walk(bc.node))
    isp = repo.func("moptipyapps.binpacking2d.instgen.instance_space",
                    "InstanceSpace.__init__")
    ok2 = "source.lower_bound_bins" in ast.unparse(isp.node)
    ctx.ob("D3.1", bc, bc.node, ok1 and ok2,
           "BinCount.lower_bound() and InstanceSpace.min_bins read "
           "Instance.lower_bound_bins", construct="bound consumers",
           nontrivial=False)
    # ---- the geometric bound reported in result tables
    pr = repo.func("moptipyapps.binpacking2d.packing_result",
                   "__lb_geometric")
    ev2 = make_evaluator(repo, pr, extra_call=_hook)
    ev2.int_transparent = True
    env = Env()
    env.vars["area"] = Poly.var("item_area")
    ok3 = False
    try:
        for s in func_body(pr):
            if isinstance(s, (ast.Assign, ast.AnnAssign)):
                tg = s.targets[0] if isinstance(s, ast.Assign) else s.target
                if isinstance(tg, ast.Name) and tg.id == "area":
                    continue
            env = ev2.stmt(env, s)
        got = env.returned
        Bp = Poly.var("inst.bin_width") * Poly.var("inst.bin_height")
        ok3 = isinstance(got, Poly) and is_exact_ceil(
            got, Poly.var("item_area"), Bp)
    except Unsupported:
        ok3 = False
    gen = next((n for n in ast.walk(pr.node)
                if isinstance(n, ast.GeneratorExp)), None)
    ok4 = gen is not None and ast.unparse(gen.generators[0].iter) == \
        "inst" and not gen.generators[0].ifs and ast.unparse(
        gen.elt).replace(" ", "") in (
        "int(row[0])*int(row[1])*int(row[2])",)
    ctx.ob("D3.1", pr, pr.node, ok3 and ok4,
           "packing_result.__lb_geometric is the same exact ceiling over "
           "all rows" if ok3 and ok4 else
           "packing_result.__lb_geometric is not an exact ceiling of the "
           "full item area", construct="reported geometric bound")
    from sa.checks.c03_damv import run_damv
    run_damv(ctx)
    ctx.rule("D3.3", "the constructor keeps the data and the derived "
             "attributes the bounds are computed from")
    _constructor_stores(ctx)


def _constructor_stores(ctx: Ctx) -> None:
    """Instance.__new__ keeps the data and the derived attributes."""
    repo = ctx.repo
    new = repo.func(INST, "Instance.__new__")
    body = func_body(new)

    def src(n: ast.AST) -> str:
        return ast.unparse(n).replace(" ", "")
    problems: list[str] = []
    objn = None
    for s in body:
        if isinstance(s, (ast.Assign, ast.AnnAssign)) and isinstance(
                s.value, ast.Call) and src(s.value.func) in (
                "super().__new__", "np.ndarray.__new__"):
            tg = s.targets[0] if isinstance(s, ast.Assign) else s.target
            objn = tg.id if isinstance(tg, ast.Name) else None
    rets = [r for r in ast.walk(new.node) if isinstance(r, ast.Return)]
    if objn is None or len(rets) != 1 or src(rets[0].value) != objn:
        ctx.ob("D3.3", new, new.node, False,
               "the constructor does not return the array it allocates",
               construct="constructor stores")
        return
    attrs: dict[str, str] = {}
    for s in body:
        if isinstance(s, ast.Assign) and isinstance(
                s.targets[0], ast.Attribute) and src(
                s.targets[0].value) == objn:
            v = s.value
            while isinstance(v, ast.Call) and src(v.func) in (
                    "check_int_range", "int") and v.args:
                v = v.args[0]
            attrs[s.targets[0].attr] = src(v)
    p = new.params
    want = {"name": "use_name", "n_different_items": "n_different_items",
            "n_items": "n_items", "bin_height": p[3], "bin_width": p[2],
            "total_item_area": "item_area"}
    for a, v in want.items():
        if attrs.get(a) != v:
            problems.append(f"`{objn}.{a}` is "
                            + (f"set to `{attrs[a]}`" if a in attrs
                               else "never set") + f", expected `{v}`")
    # the rows are copied into the array
    copies = [s for s in ast.walk(new.node) if isinstance(s, ast.Assign)
              and isinstance(s.targets[0], ast.Subscript) and src(
                  s.targets[0].value) == objn]
    okc = False
    for c in copies:
        t = src(c.targets[0])
        lp = next((lp for lp in ast.walk(new.node) if isinstance(lp, ast.For)
                   and c in lp.body), None)
        if lp is not None and isinstance(lp.target, ast.Name):
            i = lp.target.id
            okc = okc or (t == f"{objn}[{i},:]" and src(c.value) ==
                          f"{p[4]}[{i}]" and src(lp.iter) ==
                          "range(n_different_items)")
        okc = okc or (t in (f"{objn}[:]", f"{objn}[:,:]")
                      and src(c.value) == p[4])
    if not okc:
        problems.append("the rows of the matrix are not copied into the "
                        "instance")
    # item counting: n_items = sum of the multiplicities
    loop = next((s for s in body if isinstance(s, ast.For) and any(
        isinstance(x, ast.AugAssign) and src(x.target) == "item_area"
        for x in ast.walk(s))), None)
    okn = False
    if loop is not None:
        unpack = next((b for b in loop.body if isinstance(b, ast.Assign)
                       and isinstance(b.targets[0], ast.Tuple)), None)
        rep = src(unpack.targets[0].elts[2]) if unpack is not None and len(
            unpack.targets[0].elts) == 3 else None
        okn = rep is not None and any(
            isinstance(b, ast.AugAssign) and isinstance(b.op, ast.Add)
            and src(b.target) == "n_items" and src(b.value) == rep
            for b in loop.body) and any(
            isinstance(b, (ast.Assign, ast.AnnAssign)) and src(
                b.targets[0] if isinstance(b, ast.Assign) else b.target)
            == "n_items" and repo.const(new.module, b.value) == 0
            for b in body)
    if not okn:
        problems.append("n_items is not the sum of the multiplicities")
    # the DAMV bound is computed for this bin and these items
    calls = [c for c in ast.walk(new.node) if isinstance(c, ast.Call)
             and isinstance(c.func, ast.Name)
             and c.func.id == "_lower_bound_damv"]
    if len(calls) != 1 or [src(a) for a in calls[0].args] != [
            p[2], p[3], objn]:
        problems.append("_lower_bound_damv is not called as (bin_width, "
                        "bin_height, <the instance>)")
    ctx.ob("D3.3", new, new.node, not problems,
           "the constructor copies every row, stores name, bin dimensions, "
           "n_different_items, n_items (= sum of multiplicities) and "
           "total_item_area under these names, and computes the DAMV bound "
           "for (bin_width, bin_height, the instance itself)"
           if not problems else "; ".join(problems),
           construct="constructor stores")
