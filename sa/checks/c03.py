"""C03 - the bin-count lower bound (decided part: the geometric bound)."""
from __future__ import annotations

import ast
from typing import Any

from sa.kern import make_evaluator, py_calls
from sa.report import Ctx
from sa.srcmodel import desugared, FuncInfo, func_body
from sa.symterm import Env, Evaluator, Poly, Unsupported, show

INST = "moptipyapps.binpacking2d.instance"


def is_exact_ceil(t: Poly, a: Poly, b: Poly) -> bool:
    """Is `t` one of the accepted exact integer ceilings of a / b?"""
    q = Poly.atom(("app", "floordiv", (a, b)))
    one, zero = Poly.const(1), Poly.const(0)
    r = Poly.atom(("app", "mod", (a, b)))
    if any(x[0] == "ite" for x in t.atoms()):
        # conditional forms: compared on every outcome of their tests with
        # q + (1 if q*b < a else 0), where q = a // b satisfies
        # q*b <= a <= q*b + b - 1 and a % b = a - q*b
        from sa.casesplit import Splitter, equivalent
        from sa.symterm import all_atoms, ite, map_atom
        sub = {r.as_atom(): a - q * b}
        t2 = map_atom(("eq", t, zero), lambda p: p.subst(sub))[1] \
            if r.as_atom() in all_atoms(t) else t
        sp = Splitter()
        facts = sp.facts_of(("le", q * b, a), True)[0] + sp.facts_of(
            ("le", a, q * b + b - one), True)[0]
        del sp
        return equivalent(t2, ite(("lt", q * b, a), q + one, q), facts)[0]
    if t == -Poly.atom(("app", "floordiv", (-a, b))):
        return True
    if t == Poly.atom(("app", "floordiv", (a + b - one, b))):
        return True
    if t == Poly.atom(("app", "ceil_div", (a, b))):
        return True
    return False


def _hook(ev: Evaluator, env: Env, n: ast.Call) -> Any:
    r = py_calls(ev, env, n)
    if r is not NotImplemented:
        return r
    if isinstance(n.func, ast.Name) and n.func.id == "ceil_div" and \
            len(n.args) == 2:
        return Poly.atom(("app", "ceil_div", (ev.num(env, n.args[0]),
                                              ev.num(env, n.args[1]))))
    return NotImplemented


def run(ctx: Ctx) -> None:
    ctx.explanation = (
        "D3.1 the geometric component of the bin-count lower bound is an "
        "EXACT integer ceiling of (total item area) / (bin area) - accepted "
        "idioms are enumerated (q = a // b corrected by +1 under q*b < a / "
        "q*b != a / a % b != 0, -(-a // b), (a+b-1)//b, ceil_div) - the "
        "total area sums width*height*repetitions over ALL rows "
        "unconditionally, the stored bound is the maximum of the geometric "
        "and the Dell'Amico-Martello-Vigo component, and BinCount."
        "lower_bound / InstanceSpace.min_bins / the result-table bounds "
        "read that attribute. D3.2 the DAMV component is computed as "
        "defined in the cited paper (equations 2-7, theorem 3): the "
        "classification cascade is equivalent to the interval definitions "
        "of S1..S4 on every outcome of its comparisons (under 0 <= q <= "
        "H/2 <= W/2), S23 is {S2 u S3 : l > H - q}, the greedy pairing "
        "(S2 by non-increasing residual, first fitting S3 square with l <= "
        "W - l_a removed, early give-up only when nothing was taken) "
        "yields S3 - ^S3, and the normalised closed formula of L(q) - "
        "sums made linear, every exact-ceiling idiom rewritten to "
        "floordiv(a+b-1, b) - equals the transcription of equations 6-7 "
        "in every case; the driver orients the bin (W >= H), ranges q over "
        "0..floor(H/2), passes (W, H, q, CUTSQ(matrix)) in this order and "
        "returns max(1, .); CUTSQ cuts floor(w/h) squares of side h and "
        "continues with (h, w - k h), replicates by the multiplicity and "
        "sorts non-increasingly. Validity of the bound is then the "
        "theorem of the paper - NOT re-proved here; agreement with the "
        "definition is sufficient for it, a different but also valid "
        "bound would be reported as a deviation.")
    ctx.rule("D3.1", "geometric bound is an exact ceiling of the full item "
             "area; the stored bound is max(damv, geo); consumers read it")
    repo = ctx.repo
    new = desugared(repo.func(INST, "Instance.__new__"))
    cm = _ConstructorModel(ctx, new)
    ok_area, why_area = cm.accumulates(cm.area_var, None)
    ctx.ob("D3.1", new, cm.node_of(cm.area_var), ok_area,
           "the total item area adds width * height * repetitions of the "
           "same row for every row of the matrix, unconditionally, starting "
           "from 0" if ok_area else
           "the total item area is not the sum of width*height*repetitions "
           f"over all rows: {why_area}", construct="total item area")
    # ---- the ceiling
    A = cm.post_symbol(cm.area_var)
    p = new.params
    B = Poly.var(p[2]) * Poly.var(p[3])
    geo, damv = cm.bound_parts(A)
    ok_c = isinstance(geo, Poly) and A is not None and is_exact_ceil(
        geo, A, B)
    ctx.ob("D3.1", new, new.node, ok_c,
           f"geometric bound = {show(geo)[:160] if isinstance(geo, Poly) else geo}"
           + (": an exact integer ceiling of item_area / (W*H)" if ok_c else
              ": NOT an exact ceiling of item_area / (bin_width * "
              "bin_height) in any accepted idiom"),
           construct="geometric bound is an exact ceiling")
    floats = [n for n in ast.walk(new.node) if isinstance(n, ast.BinOp)
              and isinstance(n.op, ast.Div)]
    ctx.ob("D3.1", new, floats[0] if floats else new.node, not floats,
           "no float division in the constructor's bound computation",
           construct="integer arithmetic", nontrivial=False)
    # ---- combined bound
    okm = geo is not None and damv is not None and cm.is_damv(damv)
    ctx.ob("D3.1", new, new.node, okm,
           "lower_bound_bins = max(lower_bound_damv, lower_bound_geo)"
           if okm else "lower_bound_bins is "
           f"{cm.sh(cm.out.vars.get(cm.objn + '.lower_bound_bins') if cm.objn else None)[:200]}"
           ", not the maximum of the geometric and the DAMV bound",
           construct="combined bound")
    # ---- consumers
    bc = repo.func("moptipyapps.binpacking2d.objectives.bin_count",
                   "BinCount.lower_bound")
    from sa.srcmodel import inline_locals
    ok1 = any(isinstance(r, ast.Return) and r.value is not None
              and ast.unparse(inline_locals(bc.node, r.value)).endswith(
        "instance.lower_bound_bins") for r in ast.walk(bc.node))
    isp = repo.func("moptipyapps.binpacking2d.instgen.instance_space",
                    "InstanceSpace.__init__")
    ok2 = "source.lower_bound_bins" in ast.unparse(isp.node)
    ctx.ob("D3.1", bc, bc.node, ok1 and ok2,
           "BinCount.lower_bound() and InstanceSpace.min_bins read "
           "Instance.lower_bound_bins", construct="bound consumers",
           nontrivial=False)
    # ---- the geometric bound reported in result tables
    pr = repo.func("moptipyapps.binpacking2d.packing_result",
                   "__lb_geometric")
    ev2 = make_evaluator(repo, pr, extra_call=_hook)
    ev2.int_transparent = True
    env = Env()
    ip = pr.params[0]
    # the local that holds the summed item area: bound to sum(<generator>)
    area_nm = None
    for s in func_body(pr):
        if isinstance(s, (ast.Assign, ast.AnnAssign)) and isinstance(
                getattr(s, "value", None), ast.Call) and isinstance(
                s.value.func, ast.Name) and s.value.func.id == "sum" and \
                s.value.args and isinstance(
                s.value.args[0], (ast.GeneratorExp, ast.ListComp)):
            tg = s.targets[0] if isinstance(s, ast.Assign) else s.target
            if isinstance(tg, ast.Name):
                area_nm = tg.id
    # ... or accumulated by a loop over the rows: acc = 0; for row in
    # inst: acc (+)= int(row[0]) * int(row[1]) * int(row[2])
    area_loop = None
    loop_elt = None
    if area_nm is None:
        for s in func_body(pr):
            if isinstance(s, ast.For) and isinstance(
                    s.target, ast.Name) and ast.unparse(
                    s.iter) == ip and len(s.body) == 1 and not s.orelse:
                b0 = s.body[0]
                acc = val_ = None
                if isinstance(b0, ast.AugAssign) and isinstance(
                        b0.op, ast.Add) and isinstance(b0.target, ast.Name):
                    acc, val_ = b0.target.id, b0.value
                elif isinstance(b0, ast.Assign) and isinstance(
                        b0.targets[0], ast.Name) and isinstance(
                        b0.value, ast.BinOp) and isinstance(
                        b0.value.op, ast.Add):
                    acc = b0.targets[0].id
                    l_, r_ = b0.value.left, b0.value.right
                    val_ = r_ if ast.unparse(l_) == acc else (
                        l_ if ast.unparse(r_) == acc else None)
                inits = [x for x in func_body(pr) if isinstance(
                    x, (ast.Assign, ast.AnnAssign)) and ast.unparse(
                    x.targets[0] if isinstance(x, ast.Assign)
                    else x.target) == (acc or "?") and repo.const(
                    pr.module, x.value) == 0]
                if acc and val_ is not None and len(inits) == 1:
                    area_nm, area_loop, loop_elt = acc, s, (
                        s.target.id, val_)
    if area_nm is not None:
        env.vars[area_nm] = Poly.var("item_area")
    ok3 = False
    try:
        for s in func_body(pr):
            if s is area_loop:
                continue
            if isinstance(s, (ast.Assign, ast.AnnAssign)):
                tg = s.targets[0] if isinstance(s, ast.Assign) else s.target
                if isinstance(tg, ast.Name) and tg.id == area_nm:
                    continue
            env = ev2.stmt(env, s)
        got = env.returned
        Bp = Poly.var(f"{ip}.bin_width") * Poly.var(f"{ip}.bin_height")
        ok3 = area_nm is not None and isinstance(got, Poly) and \
            is_exact_ceil(got, Poly.var("item_area"), Bp)
    except Unsupported:
        ok3 = False
    gen = next((n for n in ast.walk(pr.node)
                if isinstance(n, (ast.GeneratorExp, ast.ListComp))), None)
    ok4 = False

    def factors(e_: ast.expr) -> list[str]:
        if isinstance(e_, ast.BinOp) and isinstance(e_.op, ast.Mult):
            return factors(e_.left) + factors(e_.right)
        return [ast.unparse(e_).replace(" ", "")]
    if loop_elt is not None:
        ok4 = sorted(factors(loop_elt[1])) == sorted(
            f"int({loop_elt[0]}[{k_}])" for k_ in (0, 1, 2))
    elif gen is not None and len(gen.generators) == 1 and isinstance(
            gen.generators[0].target, ast.Name):
        rv_ = gen.generators[0].target.id
        ok4 = ast.unparse(gen.generators[0].iter) == ip and \
            not gen.generators[0].ifs and sorted(factors(gen.elt)) == \
            sorted(f"int({rv_}[{k_}])" for k_ in (0, 1, 2))
    ctx.ob("D3.1", pr, pr.node, ok3 and ok4,
           "packing_result.__lb_geometric is the same exact ceiling over "
           "all rows" if ok3 and ok4 else
           "packing_result.__lb_geometric is not an exact ceiling of the "
           "full item area", construct="reported geometric bound")
    from sa.checks.c03_damv import run_damv
    run_damv(ctx)
    ctx.rule("D3.3", "the constructor keeps the data and the derived "
             "attributes the bounds are computed from")
    _constructor_stores(ctx)


class _ConstructorModel:
    """Instance.__new__ normalised: values of the attributes it stores, the
    accumulations of its row loop (guard walk with watched assignments)."""

    def __init__(self, ctx: Ctx, new: FuncInfo) -> None:
        from sa.guards import GuardWalk
        self.ctx = ctx
        self.new = new
        repo = ctx.repo
        self.ev = make_evaluator(repo, new, extra_call=_hook)
        self.ev.int_transparent = True
        body = func_body(new)
        in_loops = {n.id for lp in body if isinstance(lp, ast.For)
                    for n in ast.walk(lp) if isinstance(n, ast.Name)
                    and isinstance(n.ctx, ast.Store)}
        self.gw = GuardWalk(self.ev, None, watch=set(in_loops))
        self.out = self.gw.walk(Env(), body)
        rets = [r for r in ast.walk(new.node) if isinstance(r, ast.Return)]
        self.objn = rets[0].value.id if len(rets) == 1 and isinstance(
            rets[0].value, ast.Name) else None
        self.im = repo.module(INST)
        self.area_var = self._var_of("total_item_area")
        self.count_var = self._var_of("n_items")

    @staticmethod
    def sh(v: Any) -> str:
        return show(v) if isinstance(v, Poly) else repr(v)

    def attr(self, name: str) -> Any:
        return self.out.vars.get(f"{self.objn}.{name}") if self.objn \
            else None

    def _var_of(self, attr: str) -> str | None:
        """The local whose final value the attribute receives."""
        v = self.attr(attr)
        at = v.as_atom() if isinstance(v, Poly) else None
        if at is not None and at[0] == "var" and "#" in at[1]:
            return at[1].split("#")[0]
        return None

    def post_symbol(self, var: str | None) -> Poly | None:
        v = self.out.vars.get(var) if var else None
        return v if isinstance(v, Poly) else None

    def node_of(self, var: str | None) -> ast.AST:
        for m in self.gw.marks:
            if m.name == var and m.loops:
                return m.node
        return self.new.node

    def accumulates(self, var: str | None, col: int | None) \
            -> tuple[bool, str]:
        """Is `var` 0 before the row loop and increased, for every row that
        is not rejected, by w*h*r (col None) or by the cell `col`?"""
        if var is None:
            return False, "the attribute does not receive a loop variable"
        repo = self.ctx.repo
        new = self.new
        marks = [m for m in self.gw.marks if m.name == var]
        init = [m for m in marks if not m.loops]
        inner = [m for m in marks if m.loops]
        if len(init) != 1 or init[0].value != Poly.const(0):
            return False, f"`{var}` does not start at 0"
        if len(inner) != 1 or len(inner[0].loops) != 1:
            return False, (f"`{var}` is assigned {len(inner)} times inside "
                           "the loops")
        mk = inner[0]
        loop = mk.loops[0]
        lenv = self.gw.loop_envs[id(loop)]
        if not (isinstance(loop, ast.For) and isinstance(
                loop.target, ast.Name) and isinstance(
                loop.iter, ast.Call) and isinstance(
                loop.iter.func, ast.Name) and loop.iter.func.id == "range"
                and len(loop.iter.args) == 1 and not loop.orelse):
            return False, "the rows are not enumerated by range(n)"
        mat = new.params[4]
        try:
            n_rows = self.ev.num(lenv, loop.iter.args[0])
        except Unsupported:
            return False, "loop bound not normalised"
        if n_rows != Poly.atom(("app", "len", (Poly.var(mat),))):
            return False, (f"the loop runs over {show(n_rows)} rows, not "
                           "over all rows of the matrix")
        before = lenv.vars.get(var)
        if not isinstance(before, Poly) or not isinstance(mk.value, Poly):
            return False, "accumulated value not normalised"
        i = Poly.var(loop.target.id)
        row = ("cell", mat, (i,))
        from sa.symterm import show_atom

        def cell(k: int) -> Poly:
            return Poly.atom(("cell", show_atom(row), (Poly.const(k),)))
        cols = {nm: repo.const(self.im, ast.Name(id=nm)) for nm in (
            "IDX_WIDTH", "IDX_HEIGHT", "IDX_REPETITION")}
        if sorted(cols.values()) != [0, 1, 2]:
            return False, "instance column constants"
        want = cell(0) * cell(1) * cell(2) if col is None else cell(col)
        if mk.value - before != want:
            return False, (f"each row adds {show(mk.value - before)[:120]} "
                           f"instead of {show(want)}")
        # reached for every row that is not rejected: no continue / break /
        # return before it, and not under a condition of its own
        early = [e for e in self.gw.exits if loop in e.loops and e.kind in (
            "continue", "break", "return") and getattr(
            e.node, "lineno", 0) < getattr(mk.node, "lineno", 0)]
        if early:
            return False, "a row can be skipped before it is counted"
        if not any(b_ is mk.node for b_ in loop.body):
            return False, "the accumulation is conditional"
        return True, ""

    def bound_parts(self, A: Poly | None) -> tuple[Any, Any]:
        """(geometric part, other part) of obj.lower_bound_bins = max(..)."""
        v = self.attr("lower_bound_bins")
        at = v.as_atom() if isinstance(v, Poly) else None
        if at is not None and at[0] == "ite" and isinstance(
                at[2], Poly) and isinstance(at[3], Poly):
            # `x if x >= y else y` (any spelling) is max(x, y)
            from sa.casesplit import equivalent
            from sa.symterm import ite
            x_, y_ = at[2], at[3]
            if equivalent(v, ite(("le", y_, x_), x_, y_))[0]:
                at = ("app", "max", (x_, y_))
        if at is None or at[0] != "app" or at[1] != "max" or len(
                at[2]) != 2 or A is None:
            return None, None
        from sa.symterm import all_atoms
        x, y = at[2]
        ax = A.as_atom() in all_atoms(x)
        ay = A.as_atom() in all_atoms(y)
        if ax and not ay:
            return x, y
        if ay and not ax:
            return y, x
        return None, None

    def is_damv(self, v: Any) -> bool:
        """`v` is the value of a local assigned from
        _lower_bound_damv(bin_width, bin_height, <the instance>)."""
        from sa.srcmodel import inline_locals
        at = v.as_atom() if isinstance(v, Poly) else None
        if at is None or at[0] != "var" or "#" not in at[1]:
            return False
        var = at[1].split("#")[0]
        new = self.new
        p = new.params
        defs = [s_ for s_ in ast.walk(new.node) if isinstance(
            s_, (ast.Assign, ast.AnnAssign)) and s_.value is not None and any(
            isinstance(t, ast.Name) and t.id == var for t in (
                s_.targets if isinstance(s_, ast.Assign) else [s_.target]))]
        if len(defs) != 1:
            return False
        val = defs[0].value
        while isinstance(val, ast.Call) and isinstance(
                val.func, ast.Name) and val.func.id in (
                "check_int_range", "int") and val.args:
            val = val.args[0]
        val = inline_locals(new.node, val, keep={self.objn or ""})
        return isinstance(val, ast.Call) and isinstance(
            val.func, ast.Name) and val.func.id == "_lower_bound_damv" \
            and not val.keywords and [ast.unparse(a_) for a_ in val.args] \
            == [p[2], p[3], self.objn]


def _constructor_stores(ctx: Ctx) -> None:
    """Instance.__new__ keeps the data and the derived attributes."""
    repo = ctx.repo
    new = desugared(repo.func(INST, "Instance.__new__"))
    cm = _ConstructorModel(ctx, new)
    body = func_body(new)

    def src(n: ast.AST) -> str:
        return ast.unparse(n).replace(" ", "")
    problems: list[str] = []
    objn = cm.objn
    alloc = [s_ for s_ in body if isinstance(
        s_, (ast.Assign, ast.AnnAssign)) and isinstance(
        s_.value, ast.Call) and src(s_.value.func) in (
        "super().__new__", "np.ndarray.__new__") and src(
        s_.targets[0] if isinstance(s_, ast.Assign) else s_.target) == objn]
    if objn is None or len(alloc) != 1:
        ctx.ob("D3.3", new, new.node, False,
               "the constructor does not return the array it allocates",
               construct="constructor stores")
        return
    p = new.params
    mat = p[4]
    want = {"n_different_items": Poly.atom(("app", "len", (Poly.var(mat),))),
            "bin_height": Poly.var(p[3]), "bin_width": Poly.var(p[2])}
    for a_, v in want.items():
        got = cm.attr(a_)
        if got != v:
            problems.append(f"`{objn}.{a_}` is "
                            + (f"set to `{cm.sh(got)}`" if got is not None
                               else "never set") + f", expected `{show(v)}`")
    if cm.area_var is None:
        problems.append(f"`{objn}.total_item_area` does not receive the "
                        "accumulated area")
    # the name: the sanitised name parameter
    nv = cm._var_of("name")
    name_ok = False
    for s_ in body:
        if isinstance(s_, (ast.Assign, ast.AnnAssign)) and s_.value is not \
                None and src(s_.targets[0] if isinstance(s_, ast.Assign)
                             else s_.target) == nv:
            name_ok = src(s_.value) == f"sanitize_name({p[1]})"
    if cm.attr("name") == Poly.var(p[1]):
        name_ok = True
    if not name_ok:
        problems.append(f"`{objn}.name` is not the (sanitised) name")
    # the rows are copied into the array
    copies = [s_ for s_ in ast.walk(new.node) if isinstance(s_, ast.Assign)
              and isinstance(s_.targets[0], ast.Subscript) and src(
                  s_.targets[0].value) == objn]
    okc = False
    for c in copies:
        t = src(c.targets[0])
        lp = next((lp for lp in ast.walk(new.node) if isinstance(lp, ast.For)
                   and c in lp.body), None)
        if lp is not None and isinstance(lp.target, ast.Name) and \
                isinstance(lp.iter, ast.Call) and src(
                lp.iter.func) == "range" and len(lp.iter.args) == 1:
            i = lp.target.id
            try:
                n_rows = cm.ev.num(cm.gw.loop_envs[id(lp)], lp.iter.args[0])
            except (Unsupported, KeyError):
                n_rows = None
            # the value: matrix[i], possibly through a local bound to it
            # in the same loop body (`row = matrix[i]`)
            val_ = src(c.value)
            if isinstance(c.value, ast.Name):
                bd = [b_ for b_ in lp.body if isinstance(
                    b_, ast.Assign) and len(b_.targets) == 1 and isinstance(
                    b_.targets[0], ast.Name)
                    and b_.targets[0].id == c.value.id]
                if len(bd) == 1 and lp.body.index(bd[0]) < lp.body.index(c):
                    val_ = src(bd[0].value)
            okc = okc or (t in (f"{objn}[{i},:]", f"{objn}[{i}]")
                          and val_ == f"{mat}[{i}]" and n_rows == want[
                              "n_different_items"])
        okc = okc or (t in (f"{objn}[:]", f"{objn}[:,:]")
                      and src(c.value) == mat)
    if not okc:
        problems.append("the rows of the matrix are not copied into the "
                        "instance")
    # item counting: n_items = sum of the multiplicities
    rep_col = repo.const(cm.im, ast.Name(id="IDX_REPETITION"))
    okn, whyn = cm.accumulates(cm.count_var, rep_col if isinstance(
        rep_col, int) else 2)
    if not okn:
        problems.append("n_items is not the sum of the multiplicities"
                        + (f" ({whyn})" if whyn else ""))
    # the DAMV bound is computed for this bin and these items
    geo, damv = cm.bound_parts(cm.post_symbol(cm.area_var))
    if damv is None or not cm.is_damv(damv):
        problems.append("_lower_bound_damv is not called as (bin_width, "
                        "bin_height, <the instance>)")
    ctx.ob("D3.3", new, new.node, not problems,
           "the constructor copies every row, stores name, bin dimensions, "
           "n_different_items, n_items (= sum of multiplicities) and "
           "total_item_area under these names, and computes the DAMV bound "
           "for (bin_width, bin_height, the instance itself)"
           if not problems else "; ".join(problems),
           construct="constructor stores")
